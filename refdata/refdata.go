// Package refdata holds plain-text transcriptions of Linux UAPI constants
// (taken from this image's /usr/include at authoring time by
// tools/mkrefdata.py).  They are the oracles' only tables and share nothing
// with the library's generated tables.
package refdata

import (
	"embed"
	"strconv"
	"strings"
)

//go:embed *.txt
var files embed.FS

func load(name string) map[string]uint64 {
	b, err := files.ReadFile(name)
	if err != nil {
		panic(err)
	}
	m := map[string]uint64{}
	for _, l := range strings.Split(string(b), "\n") {
		f := strings.Fields(l)
		if len(f) != 2 || strings.HasPrefix(l, "#") {
			continue
		}
		v, err := strconv.ParseUint(f[1], 10, 64)
		if err != nil {
			continue
		}
		m[f[0]] = v
	}
	return m
}

// Audit returns the AUDIT_* defines of linux/audit.h.
func Audit() map[string]uint64 { return load("audit_uapi.txt") }

// Errno returns errno name -> number (asm-generic).
func Errno() map[string]uint64 { return load("errno.txt") }

// Netlink returns NLM*/NETLINK_* defines.
func Netlink() map[string]uint64 { return load("netlink_uapi.txt") }

// Stat returns S_I* defines.
func Stat() map[string]uint64 { return load("stat_uapi.txt") }
