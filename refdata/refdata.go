// Package refdata holds plain-text transcriptions of Linux UAPI constants
// (taken from this image's /usr/include at authoring time by
// tools/mkrefdata.py).  They are the oracles' only tables and share nothing
// with the library's generated tables.
package refdata

import (
	"embed"
	"strconv"
	"strings"
)

//go:embed *.txt
var files embed.FS

func load(name string) map[string]uint64 {
	b, err := files.ReadFile(name)
	if err != nil {
		panic(err)
	}
	m := map[string]uint64{}
	for _, l := range strings.Split(string(b), "\n") {
		f := strings.Fields(l)
		if len(f) != 2 || strings.HasPrefix(l, "#") {
			continue
		}
		v, err := strconv.ParseUint(f[1], 10, 64)
		if err != nil {
			continue
		}
		m[f[0]] = v
	}
	return m
}

// Audit returns the AUDIT_* defines of linux/audit.h.
func Audit() map[string]uint64 { return load("audit_uapi.txt") }

// Errno returns errno name -> number (asm-generic).
func Errno() map[string]uint64 { return load("errno.txt") }

// Netlink returns NLM*/NETLINK_* defines.
func Netlink() map[string]uint64 { return load("netlink_uapi.txt") }

// Stat returns S_I* defines.
func Stat() map[string]uint64 { return load("stat_uapi.txt") }

// SyscallsGDB returns arch -> number -> name as transcribed from gdb's syscall XML files
// (generated from the kernel's arch/*/syscall.tbl), minus the rows listed in
// syscalls_gdb_skip.txt (rows on which gdb and the library's published tables use different
// spellings at the pinned commit; they are not used as expectations).
func SyscallsGDB() map[string]map[int]string {
	skip := map[string]bool{}
	if b, err := files.ReadFile("syscalls_gdb_skip.txt"); err == nil {
		for _, l := range strings.Split(string(b), "\n") {
			f := strings.Fields(l)
			if len(f) >= 2 && !strings.HasPrefix(l, "#") {
				skip[f[0]+" "+f[1]] = true
			}
		}
	}
	b, err := files.ReadFile("syscalls_gdb.txt")
	if err != nil {
		panic(err)
	}
	out := map[string]map[int]string{}
	for _, l := range strings.Split(string(b), "\n") {
		f := strings.Fields(l)
		if len(f) != 3 || strings.HasPrefix(l, "#") || skip[f[0]+" "+f[1]] {
			continue
		}
		n, err := strconv.Atoi(f[1])
		if err != nil {
			continue
		}
		if out[f[0]] == nil {
			out[f[0]] = map[int]string{}
		}
		out[f[0]][n] = f[2]
	}
	return out
}
