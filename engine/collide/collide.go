// Package collide finds pairs of different equal-length texts that collide under the
// non-cryptographic hash functions code tends to key caches with (FNV-1 / FNV-1a 32,
// CRC-32 IEEE / Castagnoli, Adler-32) or agree on weak keys (length + first / last k bytes).
// A memoising layer that identifies inputs by such a key answers the second text with
// the first one's result; feeding the pairs back to back shows it.  The search is a
// deterministic birthday search over a caller-supplied family of candidate texts.
package collide

import (
	"hash/adler32"
	"hash/crc32"
	"hash/fnv"
)

// Pair is two different texts with the same key under Func.
type Pair struct {
	A, B string
	Func string
}

var funcs = map[string]func(s string) uint32{
	"fnv32a":       func(s string) uint32 { h := fnv.New32a(); h.Write([]byte(s)); return h.Sum32() },
	"fnv32":        func(s string) uint32 { h := fnv.New32(); h.Write([]byte(s)); return h.Sum32() },
	"crc32":        func(s string) uint32 { return crc32.ChecksumIEEE([]byte(s)) },
	"crc32c":       func(s string) uint32 { return crc32.Checksum([]byte(s), crc32.MakeTable(crc32.Castagnoli)) },
	"adler32":      func(s string) uint32 { return adler32.Checksum([]byte(s)) },
	"fnv64a-low32": func(s string) uint32 { h := fnv.New64a(); h.Write([]byte(s)); return uint32(h.Sum64()) },
	"fnv64a-fold": func(s string) uint32 {
		h := fnv.New64a()
		h.Write([]byte(s))
		v := h.Sum64()
		return uint32(v) ^ uint32(v>>32)
	},
	"java31": func(s string) uint32 {
		var h uint32
		for i := 0; i < len(s); i++ {
			h = 31*h + uint32(s[i])
		}
		return h
	},
}

// Find returns up to perFunc colliding pairs per hash function among gen(0..n-1); span cuts the
// part of the text the key is computed over (e.g. from the '(' on) - a collision of the spans is
// a collision of whatever follows, too, for every function here, as long as both texts share it.
func Find(n int, gen func(i int) string, span func(s string) string, perFunc int) []Pair {
	var out []Pair
	texts := make([]string, n)
	for i := range texts {
		texts[i] = gen(i)
	}
	for name, f := range funcs {
		seen := make(map[uint32]int32, n)
		found := 0
		for i, t := range texts {
			k := f(span(t)) ^ uint32(len(span(t)))*0x9E3779B1 // same length only
			if j, ok := seen[k]; ok {
				if texts[j] != t && len(texts[j]) == len(t) && f(span(texts[j])) == f(span(t)) {
					out = append(out, Pair{A: texts[j], B: t, Func: name})
					found++
					if found >= perFunc {
						break
					}
				}
				continue
			}
			seen[k] = int32(i)
		}
	}
	return out
}
