// Package envdfs is the deviation-bounded environment DFS (DESIGN.md §3.3):
// the code under test runs to completion while every environment answer is a
// choice point (choice 0 = default answer); executions with at most `bound`
// non-default answers are enumerated exhaustively.
package envdfs

// Env hands out environment answers for one execution.
type Env struct {
	prefix []int
	Taken  []int
	Arity  []int
	Labels []string
	// Script, when set, answers the occ-th occurrence (0-based) of a label with a fixed choice, whatever the
	// position of that choice point in the run (long scripted histories); other points follow the prefix.
	Script map[string]map[int]int
	occ    map[string]int
}

// Choose returns the answer (0..n-1) for the next choice point.
func (e *Env) Choose(label string, n int) int {
	i := len(e.Taken)
	c := 0
	if e.Script != nil {
		if e.occ == nil {
			e.occ = map[string]int{}
		}
		k := e.occ[label]
		e.occ[label] = k + 1
		if v, ok := e.Script[label][k]; ok && v < n {
			e.Taken = append(e.Taken, v)
			e.Arity = append(e.Arity, n)
			e.Labels = append(e.Labels, label)
			return v
		}
	}
	if i < len(e.prefix) {
		c = e.prefix[i]
		if c >= n {
			panic("envdfs: replayed choice out of range (nondeterministic harness?)")
		}
	}
	e.Taken = append(e.Taken, c)
	e.Arity = append(e.Arity, n)
	e.Labels = append(e.Labels, label)
	return c
}

// Deviations is the number of non-default answers taken.
func (e *Env) Deviations() int {
	n := 0
	for _, c := range e.Taken {
		if c != 0 {
			n++
		}
	}
	return n
}

// New returns an Env that replays prefix and then answers 0.
func New(prefix []int) *Env { return &Env{prefix: prefix} }

// Explore enumerates every execution with at most bound deviations.  run must
// be deterministic given the Env.  It returns the number of executions.
func Explore(bound int, run func(e *Env)) int64 {
	var n int64
	var rec func(prefix []int)
	rec = func(prefix []int) {
		e := New(prefix)
		run(e)
		n++
		dev := 0
		for _, c := range prefix {
			if c != 0 {
				dev++
			}
		}
		if dev >= bound {
			return
		}
		for i := len(prefix); i < len(e.Taken); i++ {
			for alt := 1; alt < e.Arity[i]; alt++ {
				np := make([]int, i+1)
				copy(np, e.Taken[:i])
				np[i] = alt
				rec(np)
			}
		}
	}
	rec(nil)
	return n
}
