// Package sched is the controlled cooperative scheduler shared by the
// instrumented library (through the vsync/vatomic shims) and the harness.
//
// It is compiled as a *virtual* package of the go-libaudit module (path
// github.com/elastic/go-libaudit/v2/vshim/sched) through `go build -overlay`;
// nothing is added to the repository.
//
// Model threads are real goroutines started with Exec.Go; exactly one of them
// runs at any time.  A thread announces the synchronisation operation it is
// about to perform (Point), parks, and the scheduler - running in the goroutine
// that called Run - picks the next thread among the enabled ones, following a
// recorded choice prefix and then always choice 0.  When no exploration is
// active every shim is a pass-through to the real primitive.
package sched

import (
	"fmt"
	"os"
	"runtime/debug"
	"time"
)

// OpKind names the kind of operation a thread is about to perform.
type OpKind uint8

const (
	OpStart OpKind = iota
	OpLock
	OpRLock
	OpAtomic
	OpOnce
	OpWait
	OpCond
	OpUser
)

var opNames = [...]string{"start", "lock", "rlock", "atomic", "once", "wgwait", "cond", "user"}

func (k OpKind) String() string { return opNames[k] }

type abortSignal struct{}

// Thread is one model thread.
type Thread struct {
	ID      int
	Name    string
	wake    chan bool
	kind    OpKind
	label   string
	enabled func() bool
	done    bool
	started bool
}

// Choice records one scheduling decision with more than one enabled thread.
type Choice struct {
	Enabled        []int // thread ids in canonical order
	Chosen         int   // index into Enabled
	Preempt        bool  // chosen != running thread although the running thread was enabled
	RunningEnabled bool
}

// Step is one entry of the executed schedule (every scheduling decision,
// including forced ones), for replay files and determinism checks.
type Step struct {
	Thread int
	Op     string
}

// Result describes one complete execution.
type Result struct {
	Choices     []Choice
	Steps       []Step
	Deadlock    bool
	DeadlockMsg string
	Panic       interface{}
	PanicStack  string
	PanicThread int
	Horizon     bool // step horizon hit
	BadPrefix   string
	Preemptions int
	// Stuck: a thread was given the processor and neither reached its next scheduling point nor finished within
	// StuckTimeout of real time: it blocks on (or spins in) something the scheduler does not control - a select, a
	// range over a channel, a real system call.  The execution cannot be continued or cleaned up; the caller must stop.
	Stuck string
}

// stuckTimer: the one watchdog timer (only one execution is active at a time).
var stuckTimer *time.Timer

// StuckTimeout bounds how long one step of one thread may take in real time (generous: steps take microseconds).
var StuckTimeout = 90 * time.Second

// ActiveExec identifies the execution in progress (nil outside one): a key for per-execution shim state.
func ActiveExec() *Exec { return active }

// Exec is one controlled execution.
type Exec struct {
	threads  []*Thread
	cur      *Thread
	parked   chan *Thread
	aborting bool
	prefix   []int
	horizon  int
	res      *Result
	objs     map[interface{}]int // objects named by first use, so labels are stable across runs

	// strategy, when set (RunWith), decides every choice instead of the prefix.
	strategy func(en []Pending) int

	// Prime, when set by the body, lets every thread run up to its first
	// scheduling point before any choice is made (sound when thread code
	// before its first point touches nothing shared: the start point is then
	// redundant).
	Prime bool
}

var active *Exec

// Active reports whether a controlled execution is in progress.
func Active() bool { return active != nil }

// Cur returns the running model thread, or nil when the caller is not running
// under the scheduler (pass-through mode).
func Cur() *Thread {
	if x := active; x != nil {
		return x.cur
	}
	return nil
}

// Go registers a model thread.  Must be called from the body passed to Run,
// before the scheduler loop starts.
func (x *Exec) Go(name string, f func()) {
	t := &Thread{ID: len(x.threads), Name: name, wake: make(chan bool)}
	t.kind, t.label = OpStart, "start"
	x.threads = append(x.threads, t)
	go func() {
		defer func() {
			if r := recover(); r != nil {
				if _, ok := r.(abortSignal); !ok && x.res.Panic == nil {
					x.res.Panic = r
					x.res.PanicStack = string(debug.Stack())
					x.res.PanicThread = t.ID
				}
			}
			t.done = true
			x.parked <- t
		}()
		if !<-t.wake {
			panic(abortSignal{})
		}
		t.started = true
		f()
	}()
}

// Point is called by the shims (and by harness code running in a model
// thread) immediately before a visible operation.  enabled may be nil (always
// enabled).  It returns when the scheduler lets this thread perform the
// operation; at that moment enabled() is true.
func Point(kind OpKind, op string, obj interface{}, enabled func() bool) {
	x := active
	if x == nil || x.cur == nil {
		return
	}
	if x.aborting {
		panic(abortSignal{})
	}
	t := x.cur
	label := op
	if obj != nil {
		n, ok := x.objs[obj]
		if !ok {
			n = len(x.objs)
			x.objs[obj] = n
		}
		label = fmt.Sprintf("%s#%d", op, n)
	}
	t.kind, t.label, t.enabled = kind, label, enabled
	x.parked <- t
	if !<-t.wake {
		panic(abortSignal{})
	}
	t.enabled = nil
}

// Yield is a harness-declared scheduling point.
func Yield(label string) { Point(OpUser, label, nil, nil) }

// Pending describes an enabled thread at a choice point: its id and the operation it is
// about to perform ("kind:label").
type Pending struct {
	ID int
	Op string
}

// RunWith executes body under the scheduler; strat picks the thread to run at every
// choice point (index into en, which is in canonical order: running thread first).
func RunWith(horizon int, body func(x *Exec), strat func(en []Pending) int) *Result {
	if active != nil {
		panic("sched: nested Run")
	}
	x := &Exec{parked: make(chan *Thread), horizon: horizon, res: &Result{}, objs: map[interface{}]int{}, strategy: strat}
	active = x
	defer func() { active = nil }()
	body(x)
	x.loop()
	return x.res
}

// Run executes body (which registers threads) under the scheduler, replaying
// prefix at the choice points and taking choice 0 afterwards.
func Run(prefix []int, horizon int, body func(x *Exec)) *Result {
	if active != nil {
		panic("sched: nested Run")
	}
	x := &Exec{parked: make(chan *Thread), prefix: prefix, horizon: horizon, res: &Result{}, objs: map[interface{}]int{}}
	active = x
	defer func() { active = nil }()
	body(x)
	x.loop()
	return x.res
}

func (x *Exec) isEnabled(t *Thread) bool {
	if t.done {
		return false
	}
	if t.enabled == nil {
		return true
	}
	return t.enabled()
}

func (x *Exec) abortAll() {
	x.aborting = true
	for _, t := range x.threads {
		if !t.done {
			x.cur = t
			t.wake <- false
			<-x.parked
		}
	}
	x.cur = nil
}

func (x *Exec) loop() {
	res := x.res
	nchoice := 0
	var running *Thread
	if x.Prime {
		for _, t := range x.threads {
			x.cur = t
			t.wake <- true
			<-x.parked
			x.cur = nil
		}
	}
	for {
		if res.Panic != nil {
			x.abortAll()
			return
		}
		// canonical order: the running thread first if still enabled, then
		// ascending ids.
		var en []*Thread
		runningEnabled := running != nil && x.isEnabled(running)
		if runningEnabled {
			en = append(en, running)
		}
		alldone := true
		for _, t := range x.threads {
			if !t.done {
				alldone = false
			}
			if t != running && x.isEnabled(t) {
				en = append(en, t)
			}
		}
		if alldone {
			return
		}
		if len(en) == 0 {
			res.Deadlock = true
			msg := ""
			for _, t := range x.threads {
				if !t.done {
					msg += fmt.Sprintf("[t%d blocked at %s %s]", t.ID, t.kind, t.label)
				}
			}
			res.DeadlockMsg = msg
			x.abortAll()
			return
		}
		if len(res.Steps) >= x.horizon {
			res.Horizon = true
			x.abortAll()
			return
		}
		pick := 0
		if len(en) > 1 {
			if x.strategy != nil {
				pend := make([]Pending, len(en))
				for i, t := range en {
					pend[i] = Pending{ID: t.ID, Op: t.kind.String() + ":" + t.label}
				}
				pick = x.strategy(pend)
				if pick < 0 || pick >= len(en) {
					pick = 0
				}
			} else if nchoice < len(x.prefix) {
				pick = x.prefix[nchoice]
				if pick < 0 || pick >= len(en) {
					res.BadPrefix = fmt.Sprintf("choice %d = %d out of range (enabled %d)", nchoice, pick, len(en))
					x.abortAll()
					return
				}
			}
			ids := make([]int, len(en))
			for i, t := range en {
				ids[i] = t.ID
			}
			pre := runningEnabled && pick != 0
			if pre {
				res.Preemptions++
			}
			res.Choices = append(res.Choices, Choice{Enabled: ids, Chosen: pick, Preempt: pre, RunningEnabled: runningEnabled})
			nchoice++
		}
		t := en[pick]
		res.Steps = append(res.Steps, Step{Thread: t.ID, Op: t.kind.String() + ":" + t.label})
		running = t
		x.cur = t
		t.wake <- true
		// one timer per execution, re-armed for every step (a time.After per step would keep millions of timers alive)
		if stuckTimer == nil {
			stuckTimer = time.NewTimer(StuckTimeout)
		} else {
			stuckTimer.Reset(StuckTimeout)
		}
		select {
		case <-x.parked:
			if !stuckTimer.Stop() {
				select {
				case <-stuckTimer.C:
				default:
				}
			}
		case <-stuckTimer.C:
			// nothing after this could be trusted (a goroutine of this execution is still alive and may wake up inside
			// the next one): stop the process with a harness error - not a verdict about the property
			defer func() {
				fmt.Println("ERROR uncontrolled blocking under the cooperative scheduler:", res.Stuck)
				os.Exit(2)
			}()
			res.Stuck = fmt.Sprintf("thread t%d (%s) did not reach a scheduling point within %v after being resumed at %s %s (step %d): it blocks on an operation the scheduler does not control", t.ID, t.Name, StuckTimeout, t.kind, t.label, len(res.Steps))
			return
		}
		x.cur = nil
	}
}
