// Package vsync is the drop-in replacement for package sync used by the
// instrumented build (import sync ".../vshim/vsync").  Under a controlled
// execution every blocking operation is a scheduling point with an
// enabledness predicate; otherwise the real primitive is used.
package vsync

import (
	"sync"

	"github.com/elastic/go-libaudit/v2/vshim/sched"
)

// Pass-through aliases for the non-blocking parts of the API.
type (
	Locker = sync.Locker
	Pool   = sync.Pool
	Map    = sync.Map
)

func OnceFunc(f func()) func()                                 { return sync.OnceFunc(f) }
func OnceValue[T any](f func() T) func() T                     { return sync.OnceValue(f) }
func OnceValues[T1, T2 any](f func() (T1, T2)) func() (T1, T2) { return sync.OnceValues(f) }

// Mutex

type Mutex struct {
	mu    sync.Mutex
	held  bool
	owner int
}

func (m *Mutex) Lock() {
	if t := sched.Cur(); t != nil {
		sched.Point(sched.OpLock, "lock", m, func() bool { return !m.held })
		m.held = true
		m.owner = t.ID
		return
	}
	m.mu.Lock()
}

func (m *Mutex) TryLock() bool {
	if t := sched.Cur(); t != nil {
		sched.Point(sched.OpLock, "try", m, nil)
		if m.held {
			return false
		}
		m.held = true
		m.owner = t.ID
		return true
	}
	return m.mu.TryLock()
}

func (m *Mutex) Unlock() {
	if sched.Cur() != nil {
		if !m.held {
			panic("vsync: unlock of unlocked mutex")
		}
		m.held = false
		return
	}
	m.mu.Unlock()
}

// RWMutex

type RWMutex struct {
	mu      sync.RWMutex
	writer  bool
	readers int
}

func (m *RWMutex) Lock() {
	if sched.Cur() != nil {
		sched.Point(sched.OpLock, "w", m, func() bool { return !m.writer && m.readers == 0 })
		m.writer = true
		return
	}
	m.mu.Lock()
}

func (m *RWMutex) Unlock() {
	if sched.Cur() != nil {
		if !m.writer {
			panic("vsync: unlock of unlocked rwmutex")
		}
		m.writer = false
		return
	}
	m.mu.Unlock()
}

func (m *RWMutex) RLock() {
	if sched.Cur() != nil {
		sched.Point(sched.OpRLock, "r", m, func() bool { return !m.writer })
		m.readers++
		return
	}
	m.mu.RLock()
}

func (m *RWMutex) RUnlock() {
	if sched.Cur() != nil {
		if m.readers <= 0 {
			panic("vsync: runlock of unlocked rwmutex")
		}
		m.readers--
		return
	}
	m.mu.RUnlock()
}

func (m *RWMutex) TryLock() bool {
	if sched.Cur() != nil {
		sched.Point(sched.OpLock, "tryw", m, nil)
		if m.writer || m.readers > 0 {
			return false
		}
		m.writer = true
		return true
	}
	return m.mu.TryLock()
}

func (m *RWMutex) TryRLock() bool {
	if sched.Cur() != nil {
		sched.Point(sched.OpRLock, "tryr", m, nil)
		if m.writer {
			return false
		}
		m.readers++
		return true
	}
	return m.mu.TryRLock()
}

type rlocker RWMutex

func (r *rlocker) Lock()   { (*RWMutex)(r).RLock() }
func (r *rlocker) Unlock() { (*RWMutex)(r).RUnlock() }

func (m *RWMutex) RLocker() Locker { return (*rlocker)(m) }

// Once.  One implementation for both modes so that a Once completed in one
// mode stays completed in the other.

type Once struct {
	mu      sync.Mutex
	done    bool
	running bool
}

func (o *Once) Do(f func()) {
	if sched.Cur() != nil {
		sched.Point(sched.OpOnce, "once", o, func() bool { return !o.running })
		if o.done {
			return
		}
		o.running = true
		defer func() { o.running = false; o.done = true }()
		f()
		return
	}
	o.mu.Lock()
	defer o.mu.Unlock()
	if !o.done {
		defer func() { o.done = true }()
		f()
	}
}

// WaitGroup

type WaitGroup struct {
	wg sync.WaitGroup
	n  int
}

func (w *WaitGroup) Add(d int) {
	if sched.Cur() != nil {
		w.n += d
		if w.n < 0 {
			panic("vsync: negative WaitGroup counter")
		}
		return
	}
	w.wg.Add(d)
}

func (w *WaitGroup) Done() { w.Add(-1) }

func (w *WaitGroup) Wait() {
	if sched.Cur() != nil {
		sched.Point(sched.OpWait, "wait", w, func() bool { return w.n == 0 })
		return
	}
	w.wg.Wait()
}

// Cond (scheduler mode: waiters are woken by generation counter).

type Cond struct {
	L       Locker
	real    *sync.Cond
	gen     int
	waiters []*int
}

func NewCond(l Locker) *Cond { return &Cond{L: l, real: sync.NewCond(l)} }

func (c *Cond) Wait() {
	if sched.Cur() != nil {
		woken := new(int)
		c.waiters = append(c.waiters, woken)
		c.L.Unlock()
		sched.Point(sched.OpCond, "cond", c, func() bool { return *woken != 0 })
		c.L.Lock()
		return
	}
	c.real.Wait()
}

func (c *Cond) Signal() {
	if sched.Cur() != nil {
		if len(c.waiters) > 0 {
			*c.waiters[0] = 1
			c.waiters = c.waiters[1:]
		}
		return
	}
	c.real.Signal()
}

func (c *Cond) Broadcast() {
	if sched.Cur() != nil {
		for _, w := range c.waiters {
			*w = 1
		}
		c.waiters = nil
		return
	}
	c.real.Broadcast()
}
