// Package vos is the process-identity / environment seam: os.{Getuid,Geteuid,Getgid,Getegid,
// Getpid,Getppid,Getenv,LookupEnv,Hostname} of the instrumented files are routed here.  With
// nothing installed it is the real os; the harness can install other answers (a process that
// is not root but holds the capability, another pid, variables that are set).
package vos

import (
	"os"
	"sync/atomic"
)

// Env holds the installed answers; nil fields / missing keys fall through to the real os.
type Env struct {
	Uid, Euid, Gid, Egid, Pid, Ppid *int
	Vars                            map[string]string
	Hostname                        *string
	// Files: path -> content the process finds there (nil content: the file does not exist); other paths are real
	Files map[string][]byte
}

var cur atomic.Pointer[Env]

func Install(e *Env) { cur.Store(e) }
func Uninstall()     { cur.Store(nil) }
func Int(v int) *int { return &v }
func get() *Env      { return cur.Load() }

func pick(p *int, real func() int) int {
	if p != nil {
		return *p
	}
	return real()
}

func Getuid() int {
	if e := get(); e != nil {
		return pick(e.Uid, os.Getuid)
	}
	return os.Getuid()
}
func Geteuid() int {
	if e := get(); e != nil {
		return pick(e.Euid, os.Geteuid)
	}
	return os.Geteuid()
}
func Getgid() int {
	if e := get(); e != nil {
		return pick(e.Gid, os.Getgid)
	}
	return os.Getgid()
}
func Getegid() int {
	if e := get(); e != nil {
		return pick(e.Egid, os.Getegid)
	}
	return os.Getegid()
}
func Getpid() int {
	if e := get(); e != nil {
		return pick(e.Pid, os.Getpid)
	}
	return os.Getpid()
}
func Getppid() int {
	if e := get(); e != nil {
		return pick(e.Ppid, os.Getppid)
	}
	return os.Getppid()
}
func Getenv(k string) string {
	if e := get(); e != nil {
		if v, ok := e.Vars[k]; ok {
			return v
		}
	}
	return os.Getenv(k)
}
func LookupEnv(k string) (string, bool) {
	if e := get(); e != nil {
		if v, ok := e.Vars[k]; ok {
			return v, true
		}
	}
	return os.LookupEnv(k)
}
func Hostname() (string, error) {
	if e := get(); e != nil && e.Hostname != nil {
		return *e.Hostname, nil
	}
	return os.Hostname()
}

// ---- files the process reads about itself and its host (/proc/self/..., /etc/..., /sys/...) -----------------
//
// os.ReadFile and os.Open of the instrumented files come here: a path for which the harness has installed content
// (Env.Files) answers with it, every other path is the real file.  Open hands out the read end of a pipe that holds
// the content (enough for the small text files in question).

func fileContent(name string) ([]byte, bool) {
	if e := get(); e != nil && e.Files != nil {
		b, ok := e.Files[name]
		return b, ok
	}
	return nil, false
}

func ReadFile(name string) ([]byte, error) {
	if b, ok := fileContent(name); ok {
		if b == nil {
			return nil, &os.PathError{Op: "open", Path: name, Err: os.ErrNotExist}
		}
		return append([]byte{}, b...), nil
	}
	return os.ReadFile(name)
}

func Open(name string) (*os.File, error) {
	if b, ok := fileContent(name); ok {
		if b == nil {
			return nil, &os.PathError{Op: "open", Path: name, Err: os.ErrNotExist}
		}
		r, w, err := os.Pipe()
		if err != nil {
			return nil, err
		}
		go func() {
			_, _ = w.Write(b)
			_ = w.Close()
		}()
		return r, nil
	}
	return os.Open(name)
}
