// Package vchan puts channel operations of the code under test under the cooperative scheduler: the instrumenter
// rewrites `<-ch`, `v, ok := <-ch`, `ch <- v` and `close(ch)` (outside select cases) into calls of this package.
// Under the scheduler every such operation is a scheduling point whose enabledness is the channel's: a receive is
// enabled when a value is buffered, a sender waits, or the channel was closed; a send when buffer space is free or a
// receiver can take it.  Unbuffered channels are modelled (rendezvous through a per-execution registry) because a
// real blocking operation would stop the one OS-level thread of control the scheduler hands around.  Outside the
// scheduler every function is the plain operation.
package vchan

import (
	"reflect"

	"github.com/elastic/go-libaudit/v2/vshim/sched"
)

type pending struct {
	val   interface{}
	taken bool
}

type state struct {
	closed bool
	sendq  []*pending
}

type registry struct{ m map[uintptr]*state }

var regs = map[*sched.Exec]*registry{}
var lastExec *sched.Exec

func stateOf(ch interface{}) *state {
	x := sched.ActiveExec()
	if x != lastExec {
		// one registry per execution (channel addresses are reused)
		regs = map[*sched.Exec]*registry{x: {m: map[uintptr]*state{}}}
		lastExec = x
	}
	r := regs[x]
	k := reflect.ValueOf(ch).Pointer()
	s := r.m[k]
	if s == nil {
		s = &state{}
		r.m[k] = s
	}
	return s
}

func controlled() bool { return sched.Active() && sched.Cur() != nil }

func recv[T any](ch <-chan T) (v T, ok bool) {
	if ch == nil || !controlled() {
		v, ok = <-ch
		return
	}
	st := stateOf(ch)
	sched.Point(sched.OpUser, "chan-recv", nil, func() bool { return st.closed || len(ch) > 0 || len(st.sendq) > 0 })
	if len(ch) > 0 || (st.closed && len(st.sendq) == 0) {
		v, ok = <-ch // does not block: one thread runs at a time
		return
	}
	p := st.sendq[0]
	st.sendq = st.sendq[1:]
	p.taken = true
	return p.val.(T), true
}

// Recv is `<-ch`.
func Recv[T any](ch <-chan T) T { v, _ := recv(ch); return v }

// Recv2 is `v, ok := <-ch`.
func Recv2[T any](ch <-chan T) (T, bool) { return recv(ch) }

// Send is `ch <- v`.
func Send[T any](ch chan<- T, v T) {
	if ch == nil || !controlled() {
		ch <- v
		return
	}
	st := stateOf(ch)
	if cap(ch) > 0 {
		sched.Point(sched.OpUser, "chan-send", nil, func() bool { return st.closed || len(ch) < cap(ch) })
		ch <- v // a send on a closed channel panics, as it should
		return
	}
	sched.Point(sched.OpUser, "chan-send", nil, nil)
	if st.closed {
		panic("send on closed channel")
	}
	p := &pending{val: v}
	st.sendq = append(st.sendq, p)
	sched.Point(sched.OpUser, "chan-send-rendezvous", nil, func() bool { return p.taken || st.closed })
	if !p.taken {
		panic("send on closed channel")
	}
}

// Close is `close(ch)`.
func Close[T any](ch chan<- T) {
	if ch == nil || !controlled() {
		close(ch)
		return
	}
	st := stateOf(ch)
	sched.Point(sched.OpUser, "chan-close", nil, nil)
	close(ch)
	st.closed = true
}
