// Package vsys is the socket seam for netlink.go: the six raw socket calls it
// makes are routed here.  With no implementation installed they go to the
// kernel.
package vsys

import (
	"syscall"

	"github.com/elastic/go-libaudit/v2/vshim/sched"
)

// A system call is a visible operation: under a controlled execution each one is
// a scheduling point (so that e.g. a shared scratch buffer filled before Sendto
// and read by it is interleaved with other threads).
func pt(op string) {
	if sched.Cur() != nil {
		sched.Point(sched.OpUser, op, nil, nil)
	}
}

// Impl is a simulated socket layer.
type Impl interface {
	Socket(domain, typ, proto int) (int, error)
	Bind(fd int, sa syscall.Sockaddr) error
	Getsockname(fd int) (syscall.Sockaddr, error)
	Sendto(fd int, p []byte, flags int, to syscall.Sockaddr) error
	Recvfrom(fd int, p []byte, flags int) (int, syscall.Sockaddr, error)
	Close(fd int) error
}

var impl Impl

func Install(i Impl) { impl = i }
func Uninstall()     { impl = nil }

func Socket(domain, typ, proto int) (int, error) {
	if impl != nil {
		return impl.Socket(domain, typ, proto)
	}
	return syscall.Socket(domain, typ, proto)
}

func Bind(fd int, sa syscall.Sockaddr) error {
	if impl != nil {
		return impl.Bind(fd, sa)
	}
	return syscall.Bind(fd, sa)
}

func Getsockname(fd int) (syscall.Sockaddr, error) {
	if impl != nil {
		return impl.Getsockname(fd)
	}
	return syscall.Getsockname(fd)
}

func Sendto(fd int, p []byte, flags int, to syscall.Sockaddr) error {
	pt("sendto")
	if impl != nil {
		return impl.Sendto(fd, p, flags, to)
	}
	return syscall.Sendto(fd, p, flags, to)
}

func Recvfrom(fd int, p []byte, flags int) (int, syscall.Sockaddr, error) {
	pt("recvfrom")
	if impl != nil {
		return impl.Recvfrom(fd, p, flags)
	}
	return syscall.Recvfrom(fd, p, flags)
}

func Close(fd int) error {
	pt("close")
	if impl != nil {
		return impl.Close(fd)
	}
	return syscall.Close(fd)
}
