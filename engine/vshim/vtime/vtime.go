// Package vtime is the clock seam: time.Now/Sleep/Since/Until of the
// instrumented files are routed here.  With no virtual clock installed it is
// the real clock.
package vtime

import "time"

// Clock is a virtual clock.  It is advanced only by the harness (Advance) and
// by Sleep calls of the code under test.
type Clock struct {
	T      time.Time
	Sleeps int
	Slept  time.Duration
}

var clock *Clock

// Base is the instant a fresh virtual clock starts at.
var Base = time.Unix(1_700_000_000, 0)

func Install() *Clock   { clock = &Clock{T: Base}; return clock }
func Uninstall()        { clock = nil }
func Installed() *Clock { return clock }

func (c *Clock) Advance(d time.Duration) { c.T = c.T.Add(d) }

func Now() time.Time {
	if c := clock; c != nil {
		return c.T
	}
	return time.Now()
}

func Sleep(d time.Duration) {
	if c := clock; c != nil {
		c.Sleeps++
		c.Slept += d
		if d > 0 {
			c.T = c.T.Add(d)
		}
		return
	}
	time.Sleep(d)
}

func Since(t time.Time) time.Duration { return Now().Sub(t) }
func Until(t time.Time) time.Duration { return t.Sub(Now()) }
