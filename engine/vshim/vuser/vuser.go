// Package vuser is the account-database seam: os/user.{Lookup,LookupId,
// LookupGroup,LookupGroupId} of the instrumented files are routed here.  With
// no database installed it is the real os/user (the sandbox's /etc/passwd and
// /etc/group); with one installed every answer comes from the in-memory tables,
// which the harness chooses (aliases: several names for one id, several ids
// never share a name; unknown entries).  The first row that matches wins, as in
// getpwuid/getpwnam over a flat file.
package vuser

import (
	"github.com/elastic/go-libaudit/v2/vshim/sched"
	"os/user"
	"sync/atomic"
)

type DB struct {
	Users  []user.User
	Groups []user.Group
	// Lookups counts the questions asked (evidence that the seam is live).
	Lookups int64
}

var db atomic.Pointer[DB]

func Install(d *DB)  { db.Store(d) }
func Uninstall()     { db.Store(nil) }
func Installed() *DB { return db.Load() }

func Lookup(name string) (*user.User, error) {
	d := db.Load()
	if d == nil {
		return user.Lookup(name)
	}
	atomic.AddInt64(&d.Lookups, 1)
	sched.Yield("account-database-query") // a query takes time: under the scheduler, other threads may run meanwhile
	for _, u := range d.Users {
		if u.Username == name {
			c := u
			return &c, nil
		}
	}
	return nil, user.UnknownUserError(name)
}

func LookupId(uid string) (*user.User, error) {
	d := db.Load()
	if d == nil {
		return user.LookupId(uid)
	}
	atomic.AddInt64(&d.Lookups, 1)
	sched.Yield("account-database-query") // a query takes time: under the scheduler, other threads may run meanwhile
	for _, u := range d.Users {
		if u.Uid == uid {
			c := u
			return &c, nil
		}
	}
	return nil, user.UnknownUserError(uid)
}

func LookupGroup(name string) (*user.Group, error) {
	d := db.Load()
	if d == nil {
		return user.LookupGroup(name)
	}
	atomic.AddInt64(&d.Lookups, 1)
	sched.Yield("account-database-query") // a query takes time: under the scheduler, other threads may run meanwhile
	for _, g := range d.Groups {
		if g.Name == name {
			c := g
			return &c, nil
		}
	}
	return nil, user.UnknownGroupError(name)
}

func LookupGroupId(gid string) (*user.Group, error) {
	d := db.Load()
	if d == nil {
		return user.LookupGroupId(gid)
	}
	atomic.AddInt64(&d.Lookups, 1)
	sched.Yield("account-database-query") // a query takes time: under the scheduler, other threads may run meanwhile
	for _, g := range d.Groups {
		if g.Gid == gid {
			c := g
			return &c, nil
		}
	}
	return nil, user.UnknownGroupError(gid)
}
