// Package par fans jobs out to worker subprocesses (GOMAXPROCS=1 each) so that
// process-global seams (scheduler, virtual clock, socket layer) can be used in
// parallel and a crashing case cannot take the check down with it.
package par

import (
	"bytes"
	"context"
	"encoding/json"
	"fmt"
	"os"
	"os/exec"
	"runtime"
	"strconv"
	"sync"
	"sync/atomic"
	"time"
)

// Result of one job.
type Result struct {
	Skipped  bool // not started: Skip() said so
	Job      int
	Out      json.RawMessage // worker's JSON result (nil if it died)
	Died     bool
	Stderr   string // tail of stderr if it died or timed out
	TimedOut bool
	Hang     string // set when the worker's watchdog saw no progress: the case it was on
}

var (
	progressN    int64
	progressDesc atomic.Value
)

// Progress is called by a worker before each case; desc must be enough to
// reproduce the case.  A worker that makes no progress for HangSeconds is
// reported with Result.Hang = desc of the case it was stuck on.
func Progress(desc func() string) {
	atomic.AddInt64(&progressN, 1)
	progressDesc.Store(desc)
}

// UlimitVKB, when > 0, runs workers under `ulimit -v` (address space, KiB).
var UlimitVKB int

// HangSeconds is the no-progress watchdog limit (~10^5 x the expected cost of a case).
var HangSeconds = 120

func watchdog() {
	last, idle := int64(-1), 0
	for {
		time.Sleep(time.Second)
		now := atomic.LoadInt64(&progressN)
		if now == last && now > 0 {
			idle++
		} else {
			idle = 0
		}
		last = now
		if idle >= HangSeconds {
			d := ""
			if f, ok := progressDesc.Load().(func() string); ok && f != nil {
				d = f()
			}
			b, _ := json.Marshal(map[string]string{"__hang__": d})
			os.Stdout.Write(b)
			os.Exit(0)
		}
	}
}

// IsWorker reports whether this process was started by Map.
func IsWorker() bool { return os.Getenv("VERIF_WORKER") != "" }

// WorkerKind is the value given to Map.
func WorkerKind() string { return os.Getenv("VERIF_WORKER") }

// WorkerMain decodes the job from stdin, runs f and writes its result to
// stdout.  It never returns.
func WorkerMain(job interface{}, f func() interface{}) {
	if err := json.NewDecoder(os.Stdin).Decode(job); err != nil {
		fmt.Fprintln(os.Stderr, "worker: bad job:", err)
		os.Exit(3)
	}
	go watchdog()
	res := f()
	b, err := json.Marshal(res)
	if err != nil {
		fmt.Fprintln(os.Stderr, "worker: marshal:", err)
		os.Exit(3)
	}
	os.Stdout.Write(b)
	os.Exit(0)
}

// NProc returns the worker parallelism.
func NProc() int {
	if s := os.Getenv("VERIF_NPROC"); s != "" {
		if n, err := strconv.Atoi(s); err == nil && n > 0 {
			return n
		}
	}
	return runtime.NumCPU()
}

// Skip, when set, is asked before each job is started; true = do not start it (its Result has Skipped set).
var Skip func() bool

// Map runs one worker subprocess per job, at most NProc at a time, and calls
// done (serialised) for each result as it arrives.
func Map(kind string, jobs []interface{}, timeout time.Duration, extraEnv []string, done func(Result)) {
	sem := make(chan struct{}, NProc())
	var wg sync.WaitGroup
	var mu sync.Mutex
	for i, j := range jobs {
		wg.Add(1)
		sem <- struct{}{}
		if Skip != nil && Skip() {
			// the caller has what it needs (a violation was found): jobs not yet started are reported as skipped
			mu.Lock()
			done(Result{Job: i, Skipped: true})
			mu.Unlock()
			<-sem
			wg.Done()
			continue
		}
		go func(i int, j interface{}) {
			defer wg.Done()
			defer func() { <-sem }()
			r := runOne(kind, i, j, timeout, extraEnv)
			mu.Lock()
			done(r)
			mu.Unlock()
		}(i, j)
	}
	wg.Wait()
}

func runOne(kind string, i int, j interface{}, timeout time.Duration, extraEnv []string) Result {
	in, _ := json.Marshal(j)
	ctx, cancel := context.WithTimeout(context.Background(), timeout)
	defer cancel()
	cmd := exec.CommandContext(ctx, os.Args[0])
	if UlimitVKB > 0 {
		cmd = exec.CommandContext(ctx, "/bin/sh", "-c", fmt.Sprintf("ulimit -v %d && exec \"$0\"", UlimitVKB), os.Args[0])
	}
	cmd.Env = append(os.Environ(), "VERIF_WORKER="+kind, "GOMAXPROCS=1", "GOTRACEBACK=single")
	cmd.Env = append(cmd.Env, extraEnv...)
	cmd.Stdin = bytes.NewReader(in)
	var out, errb bytes.Buffer
	cmd.Stdout = &out
	cmd.Stderr = &tailWriter{max: 16 << 10, buf: &errb}
	err := cmd.Run()
	r := Result{Job: i}
	if ctx.Err() != nil {
		r.TimedOut = true
	}
	if err != nil || !json.Valid(out.Bytes()) || out.Len() == 0 {
		r.Died = true
		r.Stderr = errb.String()
		if err != nil {
			r.Stderr += "\n" + err.Error()
		}
		return r
	}
	if bytes.HasPrefix(out.Bytes(), []byte(`{"__hang__":`)) {
		var h map[string]string
		_ = json.Unmarshal(out.Bytes(), &h)
		r.Hang = h["__hang__"]
		if r.Hang == "" {
			r.Hang = "(no description)"
		}
		return r
	}
	r.Out = out.Bytes()
	return r
}

type tailWriter struct {
	max int
	buf *bytes.Buffer
}

func (t *tailWriter) Write(p []byte) (int, error) {
	t.buf.Write(p)
	if t.buf.Len() > 2*t.max {
		b := t.buf.Bytes()
		keep := append([]byte{}, b[len(b)-t.max:]...)
		t.buf.Reset()
		t.buf.Write(keep)
	}
	return len(p), nil
}
