// Package explore is the stateless schedule explorer (DESIGN.md §3.2): DFS over
// the scheduling choices of a controlled execution, with iterative preemption
// bounding, a determinism gate and 5x confirmation of failing schedules.
package explore

import (
	"fmt"
	"hash/fnv"
	"strings"

	"github.com/elastic/go-libaudit/v2/vshim/sched"
)

// Harness builds one fresh execution: Body registers the threads on a fresh
// object; Finish is called after the execution and returns the observation
// digest and any violations (signature, description).
type Harness interface {
	Body(x *sched.Exec)
	Finish(res *sched.Result) (obs string, viol []Finding)
}

// Finding is a violation found in one execution.
type Finding struct {
	Sig  string
	What string
}

// Result of exploring one program.
type Result struct {
	Executions     int64
	MaxChoices     int
	MaxSteps       int
	Bound          int  // preemption bound completed (-1 = unbounded)
	Exhausted      bool // whole tree within Bound explored
	Outcomes       map[string]int64
	Traces         map[string]struct{} // distinct step traces
	Findings       []Found
	Nondeterminism []string
	Capped         bool
}

// Found is a confirmed violation with its schedule.
type Found struct {
	Finding
	Schedule []int
	Steps    []sched.Step
}

// Explorer configuration.
type Explorer struct {
	Bound      int   // max preemptions; -1 = unbounded
	MaxExec    int64 // execution cap (0 = none)
	Horizon    int   // step horizon per execution
	NewHarness func() Harness
	res        *Result
	sigSeen    map[string]bool
}

func stepsString(s []sched.Step) string {
	var b strings.Builder
	for _, st := range s {
		fmt.Fprintf(&b, "%d:%s ", st.Thread, st.Op)
	}
	return b.String()
}

type execution struct {
	res *sched.Result
	obs string
	f   []Finding
}

func (e *Explorer) run(prefix []int) execution {
	h := e.NewHarness()
	r := sched.Run(prefix, e.Horizon, h.Body)
	var ex execution
	ex.res = r
	if r.BadPrefix != "" {
		ex.f = append(ex.f, Finding{Sig: "ERROR/bad-prefix", What: r.BadPrefix})
		return ex
	}
	obs, f := h.Finish(r)
	ex.obs = obs
	ex.f = f
	if r.Deadlock {
		ex.f = append(ex.f, Finding{Sig: "deadlock", What: "no enabled thread: " + r.DeadlockMsg})
	}
	if r.Panic != nil {
		ex.f = append(ex.f, Finding{Sig: "panic", What: fmt.Sprintf("panic in thread %d: %v\n%s", r.PanicThread, r.Panic, trim(r.PanicStack, 1500))})
	}
	if r.Horizon {
		ex.f = append(ex.f, Finding{Sig: "ERROR/horizon", What: "step horizon hit (livelock or uncontrolled blocking?)"})
	}
	return ex
}

func trim(s string, n int) string {
	if len(s) > n {
		return s[:n]
	}
	return s
}

// countOutcome counts distinct observations without keeping millions of long strings: the first 2000 distinct ones are
// kept verbatim (samples, reports), later ones by a 64-bit hash of their text.
func countOutcome(m map[string]int64, obs string) {
	if _, ok := m[obs]; ok || len(m) < 2000 {
		m[obs]++
		return
	}
	h := fnv.New64a()
	_, _ = h.Write([]byte(obs))
	m[fmt.Sprintf("#%016x", h.Sum64())]++
}

// Explore runs the DFS.
func (e *Explorer) Explore() *Result {
	e.res = &Result{Bound: e.Bound, Exhausted: true, Outcomes: map[string]int64{}, Traces: map[string]struct{}{}}
	e.sigSeen = map[string]bool{}
	if e.Horizon == 0 {
		e.Horizon = 2000
	}
	e.explore(nil)
	return e.res
}

func (e *Explorer) explore(prefix []int) {
	r := e.res
	if e.MaxExec > 0 && r.Executions >= e.MaxExec {
		r.Capped = true
		r.Exhausted = false
		return
	}
	ex := e.run(prefix)
	r.Executions++
	// determinism gate: 1 in 256 executions is run twice
	if r.Executions%256 == 1 {
		ex2 := e.run(prefix)
		if ex2.obs != ex.obs || stepsString(ex2.res.Steps) != stepsString(ex.res.Steps) {
			if len(r.Nondeterminism) < 5 {
				r.Nondeterminism = append(r.Nondeterminism, fmt.Sprintf("schedule %v: obs %q vs %q; steps %q vs %q", prefix, ex.obs, ex2.obs, stepsString(ex.res.Steps), stepsString(ex2.res.Steps)))
			}
		}
	}
	choices := ex.res.Choices
	if len(choices) > r.MaxChoices {
		r.MaxChoices = len(choices)
	}
	if len(ex.res.Steps) > r.MaxSteps {
		r.MaxSteps = len(ex.res.Steps)
	}
	countOutcome(r.Outcomes, ex.obs)
	if len(r.Traces) < 200000 {
		r.Traces[stepsString(ex.res.Steps)] = struct{}{}
	}
	full := make([]int, len(choices))
	for i, c := range choices {
		full[i] = c.Chosen
	}
	for _, f := range ex.f {
		if e.sigSeen[f.Sig] {
			continue
		}
		// confirm 5x
		same := true
		for k := 0; k < 5; k++ {
			exk := e.run(full)
			found := false
			for _, g := range exk.f {
				if g.Sig == f.Sig {
					found = true
				}
			}
			if !found || exk.obs != ex.obs {
				same = false
			}
		}
		if !same {
			if len(r.Nondeterminism) < 5 {
				r.Nondeterminism = append(r.Nondeterminism, fmt.Sprintf("violation %s on schedule %v did not reproduce 5x", f.Sig, full))
			}
			continue
		}
		e.sigSeen[f.Sig] = true
		r.Findings = append(r.Findings, Found{Finding: f, Schedule: full, Steps: ex.res.Steps})
	}
	if len(ex.f) > 0 && len(prefix) > 0 {
		// keep exploring siblings; do not go deeper from a failing execution's alternatives is unnecessary to skip - continue normally
	}
	pre := 0
	for i := 0; i < len(choices); i++ {
		if i >= len(prefix) {
			cost := pre
			if choices[i].RunningEnabled {
				cost++
			}
			if e.Bound < 0 || cost <= e.Bound {
				for alt := 1; alt < len(choices[i].Enabled); alt++ {
					np := make([]int, i+1)
					copy(np, full[:i])
					np[i] = alt
					e.explore(np)
				}
			} else if len(choices[i].Enabled) > 1 {
				r.Exhausted = false
			}
		}
		if choices[i].Preempt {
			pre++
		}
	}
}

// PileUps runs, for every scheduling-point label that occurs in a default run of the
// harness, the schedules in which EVERY thread is first driven to that point (each thread
// runs alone until the operation it is about to perform carries the label) and only then
// are they released - one after the other to completion (ascending and descending thread
// order) and in lock step.  This reaches k-way pile-ups (k = number of threads) at every
// point of the code, which a preemption bound below k-1 cannot reach; it is an exhaustive
// enumeration over (label, release order), not over interleavings.
func (e *Explorer) PileUps() *Result {
	res := &Result{Outcomes: map[string]int64{}, Traces: map[string]struct{}{}}
	e.res = res
	e.sigSeen = map[string]bool{}
	// labels of a default (non-preemptive) run
	h0 := e.NewHarness()
	r0 := sched.Run(nil, e.Horizon, h0.Body)
	_, _ = h0.Finish(r0)
	seen := map[string]bool{}
	var labels []string
	for _, st := range r0.Steps {
		if !seen[st.Op] {
			seen[st.Op] = true
			labels = append(labels, st.Op)
		}
	}
	for _, label := range labels {
		for _, release := range []string{"ascending", "descending", "lockstep"} {
			h := e.NewHarness()
			arrived := map[int]bool{}
			phase2 := false
			rr := -1
			strat := func(en []sched.Pending) int {
				if !phase2 {
					// drive the lowest-id thread that has not arrived yet
					best := -1
					for i, p := range en {
						if arrived[p.ID] {
							continue
						}
						if p.Op == label {
							arrived[p.ID] = true
							continue
						}
						if best < 0 || p.ID < en[best].ID {
							best = i
						}
					}
					if best >= 0 {
						return best
					}
					phase2 = true
				}
				switch release {
				case "ascending":
					best := 0
					for i, p := range en {
						if p.ID < en[best].ID {
							best = i
						}
					}
					return best
				case "descending":
					best := 0
					for i, p := range en {
						if p.ID > en[best].ID {
							best = i
						}
					}
					return best
				default:
					// lock step: the enabled thread with the smallest id greater than the last one run
					best, wrap := -1, 0
					for i, p := range en {
						if p.ID > rr && (best < 0 || p.ID < en[best].ID) {
							best = i
						}
						if p.ID < en[wrap].ID {
							wrap = i
						}
					}
					if best < 0 {
						best = wrap
					}
					rr = en[best].ID
					return best
				}
			}
			r := sched.RunWith(e.Horizon, h.Body, strat)
			obs, f := h.Finish(r)
			res.Executions++
			countOutcome(res.Outcomes, obs)
			if r.Deadlock {
				f = append(f, Finding{Sig: "deadlock", What: "deadlock in the pile-up schedule at " + label + " (" + release + " release): " + r.DeadlockMsg})
			}
			if r.Panic != nil {
				f = append(f, Finding{Sig: "panic", What: fmt.Sprintf("panic in the pile-up schedule at %s (%s release): %v", label, release, r.Panic)})
			}
			for _, x := range f {
				if !e.sigSeen[x.Sig] {
					e.sigSeen[x.Sig] = true
					x.What += fmt.Sprintf(" | pile-up schedule: every thread driven to %q, then released %s", label, release)
					res.Findings = append(res.Findings, Found{Finding: x})
				}
			}
		}
	}
	res.Exhausted = true
	return res
}
