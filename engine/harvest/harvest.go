// Package harvest reads the non-test Go files of packages of the tree UNDER TEST (as it
// is now) and collects what special-case code is made of: string literals, integer
// constants (thresholds, limits, batch sizes - constant expressions are folded) and
// AUDIT_* identifiers.  The generators add them to their alphabets and scale scenarios
// ("one input per shortcut you can see in the code", automatically, also for shortcuts a
// later edit introduces).
package harvest

import (
	"go/ast"
	"go/constant"
	"go/parser"
	"go/token"
	"os"
	"path/filepath"
	"sort"
	"strconv"
	"strings"
)

// Result is what was found in one set of files.
type Result struct {
	Strings []string // unquoted string and rune literals, deduplicated, sorted
	Ints    []int64  // values of integer literals and foldable constant expressions, deduplicated, sorted
	Audit   []string // identifiers AUDIT_xxx (selector or plain), without the prefix
	Files   int
}

// Options narrow the harvest.
type Options struct {
	SkipFile func(name string) bool // base name
	MaxStr   int                    // longest string literal kept (0 = 64)
}

// Dir harvests the non-test .go files directly in dir.
func Dir(dir string, o Options) Result {
	ents, _ := os.ReadDir(dir)
	var files []string
	for _, e := range ents {
		n := e.Name()
		if e.IsDir() || !strings.HasSuffix(n, ".go") || strings.HasSuffix(n, "_test.go") {
			continue
		}
		if o.SkipFile != nil && o.SkipFile(n) {
			continue
		}
		files = append(files, filepath.Join(dir, n))
	}
	return Files(files, o)
}

// Files harvests the given files.
func Files(files []string, o Options) Result {
	if o.MaxStr == 0 {
		o.MaxStr = 64
	}
	strs := map[string]bool{}
	ints := map[int64]bool{}
	aud := map[string]bool{}
	var r Result
	fset := token.NewFileSet()
	for _, f := range files {
		af, err := parser.ParseFile(fset, f, nil, 0)
		if err != nil {
			continue
		}
		r.Files++
		// package-level integer constants, for folding identifiers
		consts := map[string]constant.Value{}
		for pass := 0; pass < 3; pass++ {
			for _, d := range af.Decls {
				gd, ok := d.(*ast.GenDecl)
				if !ok || gd.Tok != token.CONST {
					continue
				}
				for _, s := range gd.Specs {
					vs := s.(*ast.ValueSpec)
					for i, n := range vs.Names {
						if i < len(vs.Values) {
							if v := fold(vs.Values[i], consts); v != nil {
								consts[n.Name] = v
							}
						}
					}
				}
			}
		}
		ast.Inspect(af, func(n ast.Node) bool {
			switch x := n.(type) {
			case *ast.ImportSpec:
				return false
			case *ast.Field:
				if x.Tag != nil {
					// struct tags are not data
					for _, t := range []ast.Node{x.Type} {
						ast.Inspect(t, func(ast.Node) bool { return true })
					}
					return false
				}
			case *ast.BasicLit:
				switch x.Kind {
				case token.STRING:
					if s, err := strconv.Unquote(x.Value); err == nil && s != "" && len(s) <= o.MaxStr {
						strs[s] = true
					}
				case token.CHAR:
					if s, err := strconv.Unquote(x.Value); err == nil {
						strs[s] = true
					}
				}
			case *ast.Ident:
				if strings.HasPrefix(x.Name, "AUDIT_") {
					aud[strings.TrimPrefix(x.Name, "AUDIT_")] = true
				}
			}
			if e, ok := n.(ast.Expr); ok {
				if v := fold(e, consts); v != nil && v.Kind() == constant.Int {
					if i, exact := constant.Int64Val(v); exact {
						ints[i] = true
					}
				}
			}
			return true
		})
	}
	for s := range strs {
		r.Strings = append(r.Strings, s)
	}
	sort.Strings(r.Strings)
	for i := range ints {
		r.Ints = append(r.Ints, i)
	}
	sort.Slice(r.Ints, func(a, b int) bool { return r.Ints[a] < r.Ints[b] })
	for a := range aud {
		r.Audit = append(r.Audit, a)
	}
	sort.Strings(r.Audit)
	return r
}

// fold evaluates integer constant expressions made of literals, parentheses, unary and
// binary operators, conversions to integer types and package-level constants.
func fold(e ast.Expr, consts map[string]constant.Value) constant.Value {
	switch x := e.(type) {
	case *ast.BasicLit:
		if x.Kind == token.INT {
			return constant.MakeFromLiteral(x.Value, token.INT, 0)
		}
	case *ast.ParenExpr:
		return fold(x.X, consts)
	case *ast.Ident:
		return consts[x.Name]
	case *ast.SelectorExpr:
		if id, ok := x.X.(*ast.Ident); ok && id.Name == "time" {
			if v, ok := timeUnits[x.Sel.Name]; ok {
				return constant.MakeInt64(v)
			}
		}
	case *ast.UnaryExpr:
		if v := fold(x.X, consts); v != nil && (x.Op == token.SUB || x.Op == token.ADD || x.Op == token.XOR) {
			return constant.UnaryOp(x.Op, v, 64)
		}
	case *ast.CallExpr:
		if id, ok := x.Fun.(*ast.Ident); ok && len(x.Args) == 1 {
			switch id.Name {
			case "int", "int8", "int16", "int32", "int64", "uint", "uint8", "uint16", "uint32", "uint64", "uintptr":
				return fold(x.Args[0], consts)
			}
		}
		if sel, ok := x.Fun.(*ast.SelectorExpr); ok && len(x.Args) == 1 && sel.Sel.Name == "Duration" {
			return fold(x.Args[0], consts)
		}
	case *ast.BinaryExpr:
		a, b := fold(x.X, consts), fold(x.Y, consts)
		if a == nil || b == nil || a.Kind() != constant.Int || b.Kind() != constant.Int {
			return nil
		}
		switch x.Op {
		case token.SHL, token.SHR:
			s, ok := constant.Uint64Val(b)
			if !ok || s > 64 {
				return nil
			}
			return constant.Shift(a, x.Op, uint(s))
		case token.ADD, token.SUB, token.MUL, token.AND, token.OR, token.XOR, token.AND_NOT:
			return constant.BinaryOp(a, x.Op, b)
		case token.QUO, token.REM:
			if constant.Sign(b) == 0 {
				return nil
			}
			op := x.Op
			if op == token.QUO {
				op = token.QUO_ASSIGN // integer division
			}
			return constant.BinaryOp(a, op, b)
		}
	}
	return nil
}

var timeUnits = map[string]int64{"Nanosecond": 1, "Microsecond": 1e3, "Millisecond": 1e6, "Second": 1e9, "Minute": 60e9, "Hour": 3600e9}

// Durations returns the harvested integers that look like durations written with the time package's units
// (at least a millisecond, at most a year), in nanoseconds.
func (r Result) Durations() []int64 {
	var out []int64
	for _, i := range r.Ints {
		if i >= 1e6 && i <= 366*24*3600e9 && i%1e6 == 0 {
			out = append(out, i)
		}
	}
	return out
}

// Thresholds returns the harvested integers in [lo, hi].
func (r Result) Thresholds(lo, hi int64) []int64 {
	var out []int64
	for _, i := range r.Ints {
		if i >= lo && i <= hi {
			out = append(out, i)
		}
	}
	return out
}
