// Package ksim is the simulated audit kernel behind AuditClient's exported
// Netlink field (DESIGN.md §5 C08/C16/C17).  No real netlink socket is ever
// opened.  Every request is acknowledged with NLMSG_ERROR(errno) and, on
// success, followed by the data replies the real kernel sends; Receive hands
// the parser the next datagram FROM ONE REUSED, POISONED BUFFER.
package ksim

import (
	"context"
	"encoding/binary"
	"errors"
	"fmt"
	"io"
	"net"
	"os"
	"runtime/debug"
	"sync"
	"syscall"
	"time"

	libaudit "github.com/elastic/go-libaudit/v2"
	"github.com/elastic/go-libaudit/v2/vshim/sched"
	"github.com/elastic/go-libaudit/v2/vshim/vtime"

	"verif/engine/guard"
)

// one guarded mapping per process (the harnesses that switch Guard on are sequential)
var guardRegion *guard.Region

// UAPI numbers (linux/audit.h, linux/netlink.h) - see refdata.
const (
	AuditGet       = 1000
	AuditSet       = 1001
	AuditAddRule   = 1011
	AuditDelRule   = 1012
	AuditListRules = 1013
	NlmsgError     = 2
	NlmsgDone      = 3
	HdrLen         = 16
)

// Chooser supplies environment answers (envdfs.Env implements it).
type Chooser interface {
	Choose(label string, n int) int
}

// Sent is one request seen by the simulated kernel.
type Sent struct {
	Seq   uint32
	Type  uint16
	Flags uint16
	Pid   uint32
	Data  []byte
	Errno int // verdict
}

// Datagram is one queued reply.
type Datagram struct {
	ID      int
	Bytes   []byte
	Kind    string // ack data done event stale
	ForSeq  uint32
	decided bool
	stage   int
	Handed  int
	pairs   int // Shape.EventFaultPairs: failures / events already produced in front of this datagram
}

// Deviation names.
var DevNames = []string{"deliver", "1-event-first", "3-events-first", "1-EINTR", "9-EINTR", "9-EAGAIN", "9-alternating", "10-EAGAIN", "stale-reply-first", "short-ack", "wrong-ack-type", "ack-foreign-seq", "ENOBUFS-once", "data-before-ack"}

const (
	DevDeliver = iota
	DevEvent1
	DevEvent3
	DevEINTR1
	DevEINTR9
	DevEAGAIN9
	DevAlt9
	DevEAGAIN10
	DevStale
	DevShortAck
	DevWrongType
	DevForeignSeq
	DevENOBUFS
	DevDataFirst // the data reply overtakes its acknowledgement (the real kernel never does this)
)

// SendFailErrors: what a transport's Send can fail with - errno values and the error VALUES of Go's own layers (a
// closed file / connection / pipe, a deadline, an arbitrary error), bare and wrapped.
var SendFailErrors = []error{syscall.ENOBUFS, syscall.EBADF, syscall.EPIPE, syscall.ECONNREFUSED, os.ErrClosed, net.ErrClosed, io.ErrClosedPipe, io.EOF, io.ErrUnexpectedEOF, os.ErrDeadlineExceeded, os.ErrPermission, os.ErrNotExist, os.ErrExist, os.ErrInvalid, context.Canceled, context.DeadlineExceeded,
	fmt.Errorf("transport: %w", os.ErrClosed), &os.PathError{Op: "write", Path: "netlink", Err: os.ErrClosed}, &os.SyscallError{Syscall: "sendto", Err: syscall.EBADF}, errors.New("transport down")}

// MustFail reports whether the deviation is outside what the client must
// tolerate (the op it hits may fail, and must not report success if it
// replaces the acknowledgement).
func MustFail(dev int) bool { return dev >= DevEAGAIN10 && dev != DevDataFirst }

// MayFail: the op may fail or succeed; if it reports success, what it returns must be exact.
func MayFail(dev int) bool { return dev == DevDataFirst }

// Shape fixes header details of what the simulated kernel sends that the small default
// alphabet holds constant; the sweeps enumerate them one at a time.
type Shape struct {
	ReplyFlags  uint16 // ORed into nlmsg_flags of every acknowledgement / data / done message
	EventType   uint16 // record type of unsolicited events (0 = 1300)
	EventFlags  uint16 // nlmsg_flags of unsolicited events
	ForceEvents int    // this many unsolicited events in front of EVERY datagram (no deviation budget spent)
	Errno       int    // when non-zero: the verdict menu is {0, Errno}
	ErrnoAlways bool   // with Errno: every request is answered with it (no choice)
	ExtAck      int    // extended acknowledgements (NETLINK_EXT_ACK): 1 = capped ACK (NLM_F_CAPPED|NLM_F_ACK_TLVS, no request payload echoed) followed by NLMSGERR_ATTR_MSG / ATTR_OFFS attributes, 2 = uncapped with attributes after the echoed request
	SeqStart    uint32 // first sequence number the transport hands out is SeqStart+1 (0 = 100)
	// ReplyPids: nlmsg_pid of the successive replies (cycled); LenDelta: nlmsg_len = bytes sent + LenDelta
	ReplyPids []uint32
	LenDelta  int
	// SendFailN / SendFailErr: the n-th Send (1-based) fails with SendFailErrors[SendFailErr]; nothing goes on the wire
	SendFailN, SendFailErr int
	// PanicOnClose / PanicOnSendN: the transport panics (a nil dereference in a wrapper, a closed channel): in Close after
	// the close was counted; in the n-th Send (1-based) before anything is recorded
	PanicOnClose bool
	PanicOnSendN int
	// EchoSeqDelta / EchoFill: what follows the errno word of an acknowledgement (the echoed request) - see Send
	EchoSeqDelta uint32
	EchoFill     int
	// EventFaultPairs: in front of every ACK / reply, this many (one transient failure, one unsolicited event) pairs;
	// EventFaultPairsAlt alternates EINTR and EAGAIN
	EventFaultPairs    int
	EventFaultPairsAlt bool
	RecvLatencyMs      int // every Receive call takes this long (virtual clock): a transport with a receive timeout, a loaded host
	Buffers            int // the transport rotates between this many receive buffers (0/1 = one reused buffer); what it
	// handed out stays valid until the NEXT Receive only - every buffer is poisoned when it comes round again
	WrapErrors int // how receive failures are reported: 0 bare syscall.Errno, 1 fmt.Errorf("%w"), 2 *os.SyscallError
}

func (s *Sim) wrapErr(e syscall.Errno) error {
	switch s.Shape.WrapErrors {
	case 1:
		return fmt.Errorf("recvfrom failed: %w", e)
	case 2:
		return os.NewSyscallError("recvfrom", e)
	}
	return e
}

// Sim is the simulated kernel.
type Sim struct {
	replyN       int
	sendCalls    int
	mu           sync.Mutex
	Seq          uint32
	Q            []*Datagram
	Buf          []byte
	Sends        []*Sent
	Receives     int
	Closes       int
	Env          Chooser
	Status       [11]uint32
	StatusRaw    []byte // when non-nil: the AUDIT_GET reply payload verbatim (any length)
	Rules        [][]byte
	Verdicts     []int // errno menu for the verdict choice (index 0 = default = 0)
	nextID       int
	failLeft     int
	failAlt      bool
	failErr      syscall.Errno
	Devs         []int // deviations injected since ResetOp
	Log          []string
	All          []*Datagram     // every datagram ever queued
	NoDeviations bool            // only verdict choices
	WrongTypeToo bool            // with FaultsOnly: an acknowledgement may also arrive with another message type
	FaultsOnly   bool            // only transient / hard receive failures (no events, no ACK replacement)
	CloseAnswers []syscall.Errno // menu for the result of Close (index 0 = default)
	AckOnlyDevs  bool
	Shape        Shape
	seqInit      bool
	bufs         [][]byte
	bufIdx       int
	// YieldAfterParse: see Receive
	YieldAfterParse bool
	// Guard: every datagram is handed to the parser with cap == len and its last byte on the last
	// byte of a mapped page, the next page inaccessible: a read past the datagram faults (and
	// panics: SetPanicOnFault) instead of seeing poison
	Guard bool
}

// New returns a simulated kernel with a 64 KiB receive buffer.
func New(env Chooser) *Sim {
	return &Sim{Env: env, Buf: make([]byte, 1<<16), Verdicts: []int{0, 1, 2, 17, 22}, Seq: 100}
}

func (s *Sim) choose(label string, n int) int {
	if s.Env == nil {
		return 0
	}
	return s.Env.Choose(label, n)
}

func hdr(length int, typ uint16, flags uint16, seq uint32, pid uint32) []byte {
	b := make([]byte, HdrLen)
	binary.LittleEndian.PutUint32(b[0:], uint32(length))
	binary.LittleEndian.PutUint16(b[4:], typ)
	binary.LittleEndian.PutUint16(b[6:], flags)
	binary.LittleEndian.PutUint32(b[8:], seq)
	binary.LittleEndian.PutUint32(b[12:], pid)
	return b
}

func (s *Sim) enqueue(kind string, forSeq uint32, b []byte) *Datagram {
	if s.Shape.ReplyFlags != 0 && len(b) >= HdrLen {
		binary.LittleEndian.PutUint16(b[6:], binary.LittleEndian.Uint16(b[6:])|s.Shape.ReplyFlags)
	}
	if len(b) >= HdrLen {
		// nlmsg_pid of replies: the kernel writes the socket's port id there - the process id for the first netlink socket
		// of a process, something else for later ones; layers in between may rewrite it.  nlmsg_len: what the header says
		// about the message's length next to how many bytes really arrived
		if n := len(s.Shape.ReplyPids); n > 0 {
			binary.LittleEndian.PutUint32(b[12:], s.Shape.ReplyPids[s.replyN%n])
			s.replyN++
		}
		if dl := s.Shape.LenDelta; dl != 0 {
			binary.LittleEndian.PutUint32(b[0:], uint32(len(b)+dl))
		}
	}
	if n := s.Shape.ForceEvents; n > 0 {
		for i := 0; i < n; i++ {
			e := &Datagram{ID: s.nextID, Bytes: s.eventDatagram(i), Kind: "event", decided: true}
			s.nextID++
			s.Q = append(s.Q, e)
			s.All = append(s.All, e)
		}
	}
	d := &Datagram{ID: s.nextID, Bytes: b, Kind: kind, ForSeq: forSeq}
	s.nextID++
	s.Q = append(s.Q, d)
	s.All = append(s.All, d)
	return d
}

// Ack builds the kernel's NLMSG_ERROR acknowledgement for req.
func Ack(req *Sent, errno int) []byte {
	b := hdr(HdrLen+4+HdrLen, NlmsgError, 0, req.Seq, req.Pid)
	e := make([]byte, 4)
	binary.LittleEndian.PutUint32(e, uint32(int32(-errno)))
	b = append(b, e...)
	b = append(b, hdr(HdrLen+len(req.Data), req.Type, req.Flags, req.Seq, req.Pid)...)
	return b
}

// ExtAck builds an extended acknowledgement as kernels with NETLINK_EXT_ACK send them: NLMSG_ERROR with
// NLM_F_ACK_TLVS (and NLM_F_CAPPED when the request payload is not echoed), errno, the request header
// (+ payload when not capped), then netlink attributes NLMSGERR_ATTR_MSG (1, a reason string) and
// NLMSGERR_ATTR_OFFS (2, u32).
func ExtAck(req *Sent, errno int, capped bool) []byte {
	flags := uint16(0x200) // NLM_F_ACK_TLVS
	body := make([]byte, 4)
	binary.LittleEndian.PutUint32(body, uint32(int32(-errno)))
	body = append(body, hdr(HdrLen+len(req.Data), req.Type, req.Flags, req.Seq, req.Pid)...)
	if capped {
		flags |= 0x100 // NLM_F_CAPPED
	} else {
		body = append(body, req.Data...)
		for len(body)%4 != 0 {
			body = append(body, 0)
		}
	}
	attr := func(typ uint16, val []byte) []byte {
		a := make([]byte, 4)
		binary.LittleEndian.PutUint16(a[0:], uint16(4+len(val)))
		binary.LittleEndian.PutUint16(a[2:], typ)
		a = append(a, val...)
		for len(a)%4 != 0 {
			a = append(a, 0)
		}
		return a
	}
	body = append(body, attr(1, []byte("rule rejected: see dmesg\x00"))...)
	body = append(body, attr(2, []byte{16, 0, 0, 0})...)
	return append(hdr(HdrLen+len(body), NlmsgError, flags, req.Seq, req.Pid), body...)
}

// StatusBytes lays the 11 status fields out as struct audit_status.
func (s *Sim) StatusBytes() []byte {
	b := make([]byte, 44)
	for i, v := range s.Status {
		binary.LittleEndian.PutUint32(b[4*i:], v)
	}
	return b
}

// Send implements NetlinkSender.
func (s *Sim) Send(msg syscall.NetlinkMessage) (uint32, error) {
	s.mu.Lock()
	defer s.mu.Unlock()
	if s.Shape.SeqStart != 0 && !s.seqInit {
		s.seqInit = true
		s.Seq = s.Shape.SeqStart
	}
	s.sendCalls++
	if n := s.Shape.PanicOnSendN; n > 0 && s.sendCalls == n {
		panic("transport: send on closed channel")
	}
	if n := s.Shape.SendFailN; n > 0 && s.sendCalls == n {
		s.Log = append(s.Log, fmt.Sprintf("send#%d fails: %v", n, SendFailErrors[s.Shape.SendFailErr]))
		return 0, SendFailErrors[s.Shape.SendFailErr]
	}
	s.Seq++
	req := &Sent{Seq: s.Seq, Type: msg.Header.Type, Flags: msg.Header.Flags, Pid: msg.Header.Pid, Data: append([]byte{}, msg.Data...)}
	s.Sends = append(s.Sends, req)
	s.Log = append(s.Log, fmt.Sprintf("send(type=%d,seq=%d,len=%d)", req.Type, req.Seq, len(req.Data)))
	if s.Closes > 0 {
		return req.Seq, syscall.EBADF
	}
	var errno int
	switch {
	case s.Shape.Errno != 0 && s.Shape.ErrnoAlways:
		errno = s.Shape.Errno
	case s.Shape.Errno != 0:
		errno = []int{0, s.Shape.Errno}[s.choose(fmt.Sprintf("verdict(type=%d)", req.Type), 2)]
	default:
		errno = s.Verdicts[s.choose(fmt.Sprintf("verdict(type=%d)", req.Type), len(s.Verdicts))]
	}
	req.Errno = errno
	if req.Flags&syscall.NLM_F_ACK != 0 || errno != 0 {
		a := Ack(req, errno)
		if d := s.Shape.EchoSeqDelta; d != 0 && len(a) >= HdrLen+4+HdrLen {
			// a renumbering transport (the Netlink field is an interface for exactly such layers): the numbers the client
			// sees (returned by Send, in reply headers) are the transport's, the request echoed INSIDE the acknowledgement
			// still carries the number that was on the wire
			binary.LittleEndian.PutUint32(a[HdrLen+4+8:], req.Seq+d)
		}
		switch s.Shape.EchoFill {
		case 1: // the echoed request header zero-filled
			for i := HdrLen + 4; i < len(a); i++ {
				a[i] = 0
			}
		case 2: // ... or all ones
			for i := HdrLen + 4; i < len(a); i++ {
				a[i] = 0xFF
			}
		}
		if s.Shape.ExtAck != 0 {
			a = ExtAck(req, errno, s.Shape.ExtAck == 1)
		}
		s.enqueue("ack", req.Seq, a)
	}
	if errno != 0 {
		return req.Seq, nil
	}
	switch req.Type {
	case AuditGet:
		st := s.StatusBytes()
		if s.StatusRaw != nil {
			st = s.StatusRaw
		}
		s.enqueue("data", req.Seq, append(hdr(HdrLen+len(st), AuditGet, 0, req.Seq, req.Pid), st...))
	case AuditListRules:
		for _, r := range s.Rules {
			s.enqueue("data", req.Seq, append(hdr(HdrLen+len(r), AuditListRules, syscall.NLM_F_MULTI, req.Seq, req.Pid), r...))
		}
		s.enqueue("done", req.Seq, append(hdr(HdrLen+4, NlmsgDone, syscall.NLM_F_MULTI, req.Seq, req.Pid), 0, 0, 0, 0))
	case AuditDelRule:
		// the simulated kernel really deletes a matching rule
		for i, r := range s.Rules {
			if string(r) == string(req.Data) {
				s.Rules = append(append([][]byte{}, s.Rules[:i]...), s.Rules[i+1:]...)
				break
			}
		}
	}
	return req.Seq, nil
}

func (s *Sim) eventDatagram(n int) []byte {
	p := []byte(fmt.Sprintf("audit(1700000000.000:%d): unsolicited event %d", 900+n, n))
	t := uint16(1300)
	if s.Shape.EventType != 0 {
		t = s.Shape.EventType
	}
	return append(hdr(HdrLen+len(p), t, s.Shape.EventFlags, 0, 0), p...)
}

// Receive implements NetlinkReceiver.
func (s *Sim) Receive(nonBlocking bool, p libaudit.NetlinkParser) ([]syscall.NetlinkMessage, error) {
	s.mu.Lock()
	defer s.mu.Unlock()
	s.Receives++
	if d := s.Shape.RecvLatencyMs; d > 0 {
		if c := vtime.Installed(); c != nil {
			c.Advance(time.Duration(d) * time.Millisecond)
		}
	}
	if s.failLeft > 0 {
		s.failLeft--
		e := s.failErr
		if s.failAlt {
			if s.failLeft%2 == 0 {
				e = syscall.EINTR
			} else {
				e = syscall.EAGAIN
			}
		}
		s.Log = append(s.Log, "recv="+e.Error())
		return nil, s.wrapErr(e)
	}
	if len(s.Q) == 0 {
		s.Log = append(s.Log, "recv=EAGAIN(empty)")
		return nil, s.wrapErr(syscall.EAGAIN)
	}
	d := s.Q[0]
	if k := s.Shape.EventFaultPairs; k > 0 && (d.Kind == "ack" || d.Kind == "data") && d.pairs < 2*k {
		// a busy system: in front of the datagram k unsolicited events, each preceded by ONE transient failure (never two
		// in a row) - what a daemon sees right after registering, while the kernel drains its hold queue
		d.pairs++
		if d.pairs%2 == 1 {
			e := syscall.EINTR
			if (d.pairs/2)%2 == 1 && s.Shape.EventFaultPairsAlt {
				e = syscall.EAGAIN
			}
			s.Log = append(s.Log, "recv="+e.Error())
			return nil, s.wrapErr(e)
		}
		evd := &Datagram{ID: s.nextID, Bytes: s.eventDatagram(d.pairs / 2), Kind: "event", decided: true, stage: 3}
		s.nextID++
		s.All = append(s.All, evd)
		s.Q = append([]*Datagram{evd}, s.Q...)
		d = evd
	}
	if !d.decided && !s.NoDeviations {
		fail := func(dev int) ([]syscall.NetlinkMessage, error) {
			k, e, alt := 1, syscall.EINTR, false
			switch dev {
			case DevEINTR9:
				k = 9
			case DevEAGAIN9:
				k, e = 9, syscall.EAGAIN
			case DevAlt9:
				k, alt = 9, true
			case DevEAGAIN10:
				k, e = 10, syscall.EAGAIN
			case DevENOBUFS:
				k, e = 1, syscall.ENOBUFS
			}
			s.failLeft, s.failErr, s.failAlt = k-1, e, alt
			first := e
			if alt {
				if (k-1)%2 == 0 {
					first = syscall.EINTR
				} else {
					first = syscall.EAGAIN
				}
			}
			s.Log = append(s.Log, "recv="+first.Error())
			return nil, s.wrapErr(first)
		}
		note := func(dev int) {
			s.Devs = append(s.Devs, dev)
			s.Log = append(s.Log, "dev="+DevNames[dev])
		}
		failMenu := []int{DevDeliver, DevEINTR1, DevEINTR9, DevEAGAIN9, DevAlt9, DevEAGAIN10, DevENOBUFS}
		if s.FaultsOnly {
			failMenu = []int{DevDeliver, DevEAGAIN10, DevENOBUFS, DevEINTR9}
		}
		// stage 0: transient failures before anything is delivered
		if d.stage == 0 {
			d.stage = 1
			if dev := failMenu[s.choose("fail-before-"+d.Kind, len(failMenu))]; dev != DevDeliver {
				note(dev)
				return fail(dev)
			}
		}
		if s.FaultsOnly && d.stage == 1 {
			d.stage = 3
			d.decided = true
			if s.WrongTypeToo && d.Kind == "ack" && s.choose("wrong-type-ack", 2) == 1 {
				// the acknowledgement arrives with the right sequence number and another message type
				note(DevWrongType)
				d.Bytes = append([]byte{}, d.Bytes...)
				binary.LittleEndian.PutUint16(d.Bytes[4:], AuditGet)
			}
		}
		// stage 1: unsolicited events in front of the datagram
		if d.stage == 1 {
			d.stage = 3
			evMenu := []int{DevDeliver, DevEvent1, DevEvent3}
			if dev := evMenu[s.choose("events-before-"+d.Kind, len(evMenu))]; dev != DevDeliver {
				note(dev)
				d.stage = 2
				k := 1
				if dev == DevEvent3 {
					k = 3
				}
				var evs []*Datagram
				for i := 0; i < k; i++ {
					e := &Datagram{ID: s.nextID, Bytes: s.eventDatagram(i), Kind: "event", decided: true}
					s.nextID++
					s.All = append(s.All, e)
					evs = append(evs, e)
				}
				s.Q = append(evs, s.Q...)
				d = s.Q[0]
			}
		} else if d.stage == 2 {
			// stage 2: transient failures between the events and the datagram
			d.stage = 3
			if dev := failMenu[s.choose("fail-after-events-"+d.Kind, len(failMenu))]; dev != DevDeliver {
				note(dev)
				return fail(dev)
			}
		}
		if d.stage == 3 && !d.decided {
			d.decided = true
			if d.Kind == "ack" {
				repMenu := []int{DevDeliver, DevStale, DevShortAck, DevWrongType, DevForeignSeq}
				if len(s.Q) > 1 && s.Q[1].Kind == "data" && s.Q[1].ForSeq == d.ForSeq {
					repMenu = append(repMenu, DevDataFirst)
				}
				dev := repMenu[s.choose("replace-ack", len(repMenu))]
				if dev != DevDeliver {
					note(dev)
				}
				switch dev {
				case DevStale:
					st := s.StatusBytes()
					e := &Datagram{ID: s.nextID, Bytes: append(hdr(HdrLen+len(st), AuditGet, 0, d.ForSeq-1, 0), st...), Kind: "stale", decided: true}
					s.nextID++
					s.All = append(s.All, e)
					s.Q = append([]*Datagram{e}, s.Q...)
					d = e
				case DevShortAck:
					d.Bytes = append(append([]byte{}, d.Bytes[:HdrLen]...), 0, 0)
					binary.LittleEndian.PutUint32(d.Bytes[0:], uint32(len(d.Bytes)))
				case DevWrongType:
					d.Bytes = append([]byte{}, d.Bytes...)
					binary.LittleEndian.PutUint16(d.Bytes[4:], AuditGet)
				case DevForeignSeq:
					d.Bytes = append([]byte{}, d.Bytes...)
					binary.LittleEndian.PutUint32(d.Bytes[8:], d.ForSeq+7)
				case DevDataFirst:
					s.Q[0], s.Q[1] = s.Q[1], s.Q[0]
					s.Q[0].decided = true
					d = s.Q[0]
				}
			}
		}
	}
	s.Q = s.Q[1:]
	d.Handed++
	if k := s.Shape.Buffers; k > 1 {
		if len(s.bufs) != k {
			s.bufs = make([][]byte, k)
			for i := range s.bufs {
				s.bufs[i] = make([]byte, len(s.Buf))
			}
		}
		// everything handed out earlier is invalid from now on: poison ALL buffers but keep rotating, so that a
		// caller that kept a reference sees garbage whichever buffer it was
		for _, b := range s.bufs {
			for i := range b {
				b[i] = 0xEE
			}
		}
		s.bufIdx = (s.bufIdx + 1) % k
		s.Buf = s.bufs[s.bufIdx]
	}
	for i := range s.Buf {
		s.Buf[i] = 0xEE
	}
	n := copy(s.Buf, d.Bytes)
	s.Log = append(s.Log, fmt.Sprintf("recv=%s#%d(seq=%d)", d.Kind, d.ID, binary.LittleEndian.Uint32(d.Bytes[8:])))
	in := s.Buf[:n]
	if s.Guard {
		if guardRegion == nil {
			r, err := guard.New(1 << 16)
			if err != nil {
				panic("ksim: cannot map the guarded region: " + err.Error())
			}
			guardRegion = r
		}
		guardRegion.Poison(0xEE)
		in = guardRegion.AtEnd(d.Bytes)
		debug.SetPanicOnFault(true)
	}
	msgs, err := p(in)
	// under the controlled scheduler: a scheduling point between the parser's return and the caller's use of
	// what it returned (other clients of the process run here)
	if s.YieldAfterParse {
		sched.Yield("transport-after-parse")
	}
	if err != nil {
		return nil, fmt.Errorf("failed to parse netlink messages (bytes_received=%v): %w", n, err)
	}
	return msgs, nil
}

// Close implements io.Closer.
func (s *Sim) Close() error {
	s.mu.Lock()
	defer s.mu.Unlock()
	s.Closes++
	s.Log = append(s.Log, "close")
	if s.Shape.PanicOnClose && s.Closes == 1 {
		panic("transport: close of closed channel") // the deferred Unlock runs
	}
	if len(s.CloseAnswers) > 0 {
		// the descriptor is released whatever close(2) returns (Linux); the answer is a choice
		if e := s.CloseAnswers[s.choose("close-result", len(s.CloseAnswers))]; e != 0 {
			s.Log = append(s.Log, "close="+e.Error())
			return e
		}
	}
	return nil
}

// ResetOp clears the per-operation deviation log.
func (s *Sim) ResetOp() { s.Devs = nil }

// Drain empties the reply queue (a well-formed environment starts each
// operation with an empty socket unless NoWait ACKs are pending).
func (s *Sim) Drain() { s.Q = nil; s.failLeft = 0 }
