package enumx

// HostileRunes is the shared menu of multi-byte / non-ASCII text fragments that per-byte
// alphabets cannot reach: every Unicode White_Space code point (what strings.TrimSpace,
// strings.Fields and unicode.IsSpace react to), invisible / format characters that
// "sanitising" code tends to strip (BOM U+FEFF, zero-width, soft hyphen), the replacement
// character, a few control bytes, 2-, 3- and 4-byte letters (incl. the case-folding
// oddities U+0130, U+212A, and runes whose lower/upper-case form has ANOTHER LENGTH in UTF-8: U+023A, U+023E, U+1E9E, U+017F, U+FB03), and malformed UTF-8 of every kind (lone lead and continuation
// bytes, truncated, overlong, surrogate, beyond U+10FFFF, 0xFE/0xFF, Latin-1 e-acute).
var HostileRunes = []string{
	"\x09", "\x0a", "\x0b", "\x0c", "\x0d", "\x20", "\u0085", "\u00a0", "\u1680", "\u2000", "\u2001", "\u2002", "\u2003", "\u2004", "\u2005", "\u2006", "\u2007", "\u2008", "\u2009", "\u200a", "\u2028", "\u2029", "\u202f", "\u205f", "\u3000", "\ufeff", "\u200b", "\u200c", "\u200d", "\u2060", "\u00ad", "\u180e", "\ufffd", "\ufffe", "\x00", "\x01", "\x1d", "\x7f", "\u00e9", "\u0130", "\u212a", "\u023a", "\u023e", "\u1e9e", "\u017f", "\ufb03", "\u20ac", "\U0001f600",
	// multi-byte CONTROL SEQUENCES of terminals, mark-up and transport encodings: complete patterns that filters for
	// "dangerous" text recognise (no single byte of them is special): ECMA-48 CSI / OSC / charset sequences, C1 CSI,
	// backspace overstrike, CR LF, caret and backslash notations, HTML/XML, comments, percent and entity encodings
	"\x1b[0m", "\x1b[1;31m", "\x1b[2J", "\x1b[?25l", "\x1b[38;5;196m", "\x1b[H", "\x1b[ q", "\x1b]0;t\x07", "\x1b]8;;http://x\x1b\\", "\x1b(B", "\x1bc", "\x1b[", "\x1bP1$r\x1b\\", "\u009b31m", "\x9b0m",
	"a\x08b", "_\x08a", "\r\n", "\n\r", "^[[0m", "\\033[0m", "\\x1b[0m", "\\e[0m", "<b>", "</b>", "<!--x-->", "<![CDATA[x]]>", "<?x?>", "&lt;", "&#27;", "&#x1b;", "/*x*/", "//x", "--x", "#x", "%1b%5b0m", "%00", "%0a", "=1B", "=\r\n", "\\u001b", "\\0",
	// decimal digits of other scripts (unicode.IsDigit says yes, strconv says no), other numerals, signs and separators
	"\u0666", "\u06f6", "\u096c", "\u09ec", "\u0e56", "\uff16", "\U0001d7d4", "\u00b2", "\u2166", "\u2212", "\uff0b", "\u066b", "\uff0e", "\uff1a", "\uff08", "\uff09", "\uff1d",
	"\xc2", "\xa0", "\x85", "\xe2\x80", "\xc0\x80", "\xed\xa0\x80", "\xf4\x90\x80\x80", "\xff", "\xfe\xff", "\xef\xbb", "\xe9",
}
