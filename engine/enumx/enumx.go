// Package enumx is the bounded-exhaustive input enumeration engine with crash
// isolation (DESIGN.md §3.4).  A generator walks its whole finite case space;
// shards take every N-th case; workers are subprocesses; panics become
// violations; a worker that dies or hangs is re-run in trace mode to pin-point
// the case.
package enumx

import (
	"encoding/json"
	"fmt"
	"os"
	"runtime/debug"
	"strings"
	"time"

	"verif/engine/ev"
	"verif/engine/par"
)

// V is a violation found by a generator.
type V struct {
	Sig    string
	What   string
	Replay interface{}
}

// ShardJob is the worker job.
type ShardJob struct {
	Gen   string
	Shard int
	N     int
	Tier  string
	Trace string
}

// ShardResult is the worker result.
type ShardResult struct {
	Gen        string
	Evals      int64
	Nontrivial int64
	Viol       []V
	SigCount   map[string]int64
	Samples    []string
	Counters   map[string]int64
}

// Ctx is handed to a generator.
type Ctx struct {
	Shard, N int
	Tier     string
	idx      int64
	res      *ShardResult
	trace    string
	cur      func() string
}

// Mine advances the case index and reports whether this shard owns the case.
func (c *Ctx) Mine() bool {
	i := c.idx
	c.idx++
	return int(i%int64(c.N)) == c.Shard
}

// Begin marks the start of a case (progress watchdog, trace mode).
func (c *Ctx) Begin(desc func() string) {
	c.cur = desc
	c.res.Evals++
	par.Progress(desc)
	if c.trace != "" {
		_ = os.WriteFile(c.trace, []byte(desc()), 0o644)
	}
}

// Report records a violation (first 2 cases per signature are kept).
func (c *Ctx) Report(sig, what string, replay interface{}) {
	if c.res.SigCount == nil {
		c.res.SigCount = map[string]int64{}
	}
	c.res.SigCount[sig]++
	if c.res.SigCount[sig] <= 2 {
		if replay == nil && c.cur != nil {
			replay = c.cur()
		}
		c.res.Viol = append(c.res.Viol, V{Sig: sig, What: what, Replay: replay})
	}
}

// Nontrivial counts a case that was non-trivial by the generator's rule.
func (c *Ctx) Nontrivial() { c.res.Nontrivial++ }

// Count adds to a named counter.
func (c *Ctx) Count(name string, n int64) {
	if c.res.Counters == nil {
		c.res.Counters = map[string]int64{}
	}
	c.res.Counters[name] += n
}

// Sample keeps a few explored cases for the evidence file.
func (c *Ctx) Sample(s string) {
	if len(c.res.Samples) < 2 {
		c.res.Samples = append(c.res.Samples, s)
	}
}

// Try runs f and turns a panic into a violation with signature sigPrefix+":panic".
func (c *Ctx) Try(sigPrefix string, f func()) (panicked bool) {
	defer func() {
		if r := recover(); r != nil {
			panicked = true
			st := string(debug.Stack())
			where := panicSite(st)
			d := ""
			if c.cur != nil {
				d = c.cur()
			}
			c.Report(sigPrefix+" panic@"+where, fmt.Sprintf("panic: %v on %s\n%s", r, d, trim(st, 1800)), d)
		}
	}()
	f()
	return false
}

// panicSite extracts the first repository frame below the panic.
func panicSite(stack string) string {
	lines := strings.Split(stack, "\n")
	seenPanic := false
	for i, l := range lines {
		if strings.HasPrefix(l, "panic(") {
			seenPanic = true
			continue
		}
		if seenPanic && strings.Contains(l, "go-libaudit") && i+1 < len(lines) && !strings.Contains(l, "vshim") {
			fn := l
			if j := strings.Index(fn, "("); j > 0 {
				fn = fn[:j]
			}
			if k := strings.LastIndex(fn, "/"); k >= 0 {
				fn = fn[k+1:]
			}
			return fn
		}
	}
	return "unknown"
}

func trim(s string, n int) string {
	if len(s) > n {
		return s[:n]
	}
	return s
}

// Generator enumerates a case space.
type Generator func(c *Ctx)

// WorkerMain must be called first thing by main() of a check binary.
func WorkerMain(gens map[string]Generator) {
	if !par.IsWorker() {
		return
	}
	var j ShardJob
	par.WorkerMain(&j, func() interface{} {
		res := &ShardResult{Gen: j.Gen}
		c := &Ctx{Shard: j.Shard, N: j.N, Tier: j.Tier, res: res, trace: j.Trace}
		g := gens[j.Gen]
		if g == nil {
			c.Report("ERROR/unknown-generator", j.Gen, nil)
			return res
		}
		g(c)
		return res
	})
}

// Run fans the generators out over shards and folds the results into run.
// memLimitKB > 0 runs workers under `ulimit -v`.
func Run(run *ev.Run, prop string, gens []string, tier string, shardsPerGen int, crashIsViolation bool) {
	var jobs []interface{}
	for _, g := range gens {
		for s := 0; s < shardsPerGen; s++ {
			jobs = append(jobs, ShardJob{Gen: g, Shard: s, N: shardsPerGen, Tier: tier})
		}
	}
	perGen := map[string]*[2]int64{}
	counters := map[string]int64{}
	handle := func(r par.Result, j ShardJob, retraced bool) {
		if r.Hang != "" {
			run.Report(ev.Violation{Sig: prop + " hang", What: "no progress for 120 s on: " + r.Hang, Replay: r.Hang})
			return
		}
		var sr ShardResult
		if err := json.Unmarshal(r.Out, &sr); err != nil {
			run.Errorf("shard %s/%d: %v", j.Gen, j.Shard, err)
			return
		}
		run.Add("evaluations", sr.Evals)
		run.Add("distinct_nontrivial", sr.Nontrivial)
		pg := perGen[sr.Gen]
		if pg == nil {
			pg = &[2]int64{}
			perGen[sr.Gen] = pg
		}
		pg[0] += sr.Evals
		pg[1] += sr.Nontrivial
		for k, v := range sr.Counters {
			counters[k] += v
		}
		for _, s := range sr.Samples {
			run.Sample(sr.Gen + ": " + s)
		}
		for _, v := range sr.Viol {
			if strings.HasPrefix(v.Sig, "ERROR/") {
				run.Errorf("%s: %s", v.Sig, v.What)
				continue
			}
			run.Report(ev.Violation{Sig: v.Sig, What: v.What, Replay: v.Replay})
		}
	}
	par.Map("enum", jobs, 12*time.Hour, nil, func(r par.Result) {
		j := jobs[r.Job].(ShardJob)
		if r.Died {
			// pin-point the case by re-running the shard in trace mode
			tf := fmt.Sprintf("%s/.work/trace-%s-%s-%d", ev.Root(), prop, j.Gen, j.Shard)
			_ = os.MkdirAll(ev.Root()+"/.work", 0o755)
			j2 := j
			j2.Trace = tf
			var r2 par.Result
			par.Map("enum", []interface{}{j2}, 12*time.Hour, nil, func(x par.Result) { r2 = x })
			b, _ := os.ReadFile(tf)
			_ = os.Remove(tf)
			if r2.Died {
				what := fmt.Sprintf("worker process died (fatal error / out of memory / killed) on case: %s\nstderr tail: %s", string(b), tail(r2.Stderr, 1200))
				if crashIsViolation {
					run.Report(ev.Violation{Sig: prop + " crash:" + j.Gen, What: what, Replay: string(b)})
				} else {
					run.Errorf("%s", what)
				}
				return
			}
			handle(r2, j, true)
			return
		}
		handle(r, j, false)
	})
	pgOut := map[string]interface{}{}
	for g, v := range perGen {
		pgOut[g] = map[string]int64{"evaluations": v[0], "nontrivial": v[1]}
	}
	run.Set("per_generator", pgOut)
	if len(counters) > 0 {
		run.Set("counters", counters)
	}
}

func tail(s string, n int) string {
	if len(s) > n {
		return s[len(s)-n:]
	}
	return s
}
