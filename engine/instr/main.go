// Command instr is the check-time instrumenter (DESIGN.md §3.1).  It reads the
// non-test Go files of the packages under test from the repository AS THEY ARE
// NOW, writes rewritten copies to an output directory and emits a
// `go build -overlay` JSON that (a) substitutes the rewritten copies and (b)
// maps the virtual shim packages <repo>/vshim/<pkg> to /verif/engine/vshim.
//
// Rewrites: import "sync" -> vsync, "sync/atomic" -> vatomic (alias imports, so
// all selectors keep their spelling); time.{Now,Sleep,Since,Until} -> vtime.*;
// syscall.{Socket,Bind,Getsockname,Sendto,Recvfrom,Close} -> vsys.*;
// os/user.{Lookup,LookupId,LookupGroup,LookupGroupId} -> vuser.* (account database seam).
package main

import (
	"bytes"
	"encoding/json"
	"flag"
	"fmt"
	"go/ast"
	"go/parser"
	"go/printer"
	"go/token"
	"os"
	"path/filepath"
	"sort"
	"strconv"
	"strings"
)

const modPath = "github.com/elastic/go-libaudit/v2"

var timeFuncs = map[string]bool{"Now": true, "Sleep": true, "Since": true, "Until": true}
var sysFuncs = map[string]bool{"Socket": true, "Bind": true, "Getsockname": true, "Sendto": true, "Recvfrom": true, "Close": true}
var userFuncs = map[string]bool{"Lookup": true, "LookupId": true, "LookupGroup": true, "LookupGroupId": true}

type stats struct {
	Files        int            `json:"files"`
	Rewrites     map[string]int `json:"rewrites"`
	ShimFiles    int            `json:"shim_files"`
	Instrumented []string       `json:"instrumented"`
}

func main() {
	repo := flag.String("repo", "/repo", "repository root")
	verif := flag.String("verif", "/verif", "verif root")
	out := flag.String("out", "/verif/.work/instr", "output directory")
	pkgs := flag.String("pkgs", ".,aucoalesce", "comma separated package dirs (relative to repo) to instrument")
	flag.Parse()

	st := stats{Rewrites: map[string]int{}}
	replace := map[string]string{}
	raceReplace := map[string]string{}
	if err := os.RemoveAll(*out); err != nil {
		die(err)
	}
	for _, p := range strings.Split(*pkgs, ",") {
		dir := filepath.Join(*repo, p)
		ents, err := os.ReadDir(dir)
		if err != nil {
			die(err)
		}
		for _, e := range ents {
			n := e.Name()
			if e.IsDir() || !strings.HasSuffix(n, ".go") || strings.HasSuffix(n, "_test.go") {
				continue
			}
			src := filepath.Join(dir, n)
			dst := filepath.Join(*out, p, n)
			changed, err := rewrite(src, dst, &st, true)
			if err != nil {
				die(fmt.Errorf("%s: %w", src, err))
			}
			if changed {
				replace[src] = dst
				st.Instrumented = append(st.Instrumented, filepath.Join(p, n))
			}
			// race flavour: clock and socket seams only, real sync/atomic
			var st2 stats
			st2.Rewrites = map[string]int{}
			rdst := filepath.Join(*out, "race", p, n)
			if ch, err := rewrite(src, rdst, &st2, false); err != nil {
				die(fmt.Errorf("%s: %w", src, err))
			} else if ch {
				raceReplace[src] = rdst
			}
			st.Files++
		}
	}
	// virtual shim packages
	shimRoot := filepath.Join(*verif, "engine", "vshim")
	err := filepath.Walk(shimRoot, func(path string, info os.FileInfo, err error) error {
		if err != nil {
			return err
		}
		if info.IsDir() || !strings.HasSuffix(path, ".go") {
			return nil
		}
		rel, _ := filepath.Rel(shimRoot, path)
		replace[filepath.Join(*repo, "vshim", rel)] = path
		st.ShimFiles++
		return nil
	})
	if err != nil {
		die(err)
	}
	shimOnly := map[string]string{}
	for k, v := range replace {
		if strings.HasPrefix(k, filepath.Join(*repo, "vshim")+"/") {
			shimOnly[k] = v
		}
	}
	// extra overlay entries (e.g. in-package helpers) from <verif>/engine/overlay/<pkgdir>/*.go
	extraRoot := filepath.Join(*verif, "engine", "overlay")
	if _, err := os.Stat(extraRoot); err == nil {
		_ = filepath.Walk(extraRoot, func(path string, info os.FileInfo, err error) error {
			if err != nil || info.IsDir() || !strings.HasSuffix(path, ".go") {
				return err
			}
			rel, _ := filepath.Rel(extraRoot, path)
			replace[filepath.Join(*repo, rel)] = path
			return nil
		})
	}
	ov := struct{ Replace map[string]string }{replace}
	b, _ := json.MarshalIndent(ov, "", " ")
	if err := os.MkdirAll(*out, 0o755); err != nil {
		die(err)
	}
	if err := os.WriteFile(filepath.Join(*out, "overlay.json"), b, 0o644); err != nil {
		die(err)
	}
	for k, v := range raceReplace {
		shimOnly[k] = v
	}
	sb2, _ := json.MarshalIndent(struct{ Replace map[string]string }{shimOnly}, "", " ")
	if err := os.WriteFile(filepath.Join(*out, "overlay-shims.json"), sb2, 0o644); err != nil {
		die(err)
	}
	sort.Strings(st.Instrumented)
	sb, _ := json.Marshal(st)
	_ = os.WriteFile(filepath.Join(*out, "stats.json"), sb, 0o644)
	fmt.Println(string(sb))
}

func die(err error) {
	fmt.Fprintln(os.Stderr, "ERROR instrumentation:", err)
	os.Exit(2)
}

func rewrite(src, dst string, st *stats, withSync bool) (bool, error) {
	fset := token.NewFileSet()
	f, err := parser.ParseFile(fset, src, nil, parser.ParseComments)
	if err != nil {
		return false, err
	}
	changed := false
	timeName, sysName, userName := "", "", ""
	for _, imp := range f.Imports {
		path, _ := strconv.Unquote(imp.Path.Value)
		if !withSync && (path == "sync" || path == "sync/atomic") {
			continue
		}
		switch path {
		case "sync":
			if imp.Name == nil {
				imp.Name = ast.NewIdent("sync")
			}
			imp.Path.Value = strconv.Quote(modPath + "/vshim/vsync")
			st.Rewrites["import sync"]++
			changed = true
		case "sync/atomic":
			if imp.Name == nil {
				imp.Name = ast.NewIdent("atomic")
			}
			imp.Path.Value = strconv.Quote(modPath + "/vshim/vatomic")
			st.Rewrites["import sync/atomic"]++
			changed = true
		case "time":
			timeName = "time"
			if imp.Name != nil {
				timeName = imp.Name.Name
			}
		case "syscall":
			sysName = "syscall"
			if imp.Name != nil {
				sysName = imp.Name.Name
			}
		case "os/user":
			userName = "user"
			if imp.Name != nil {
				userName = imp.Name.Name
			}
		}
	}
	useVtime, useVsys, useVuser := false, false, false
	ast.Inspect(f, func(n ast.Node) bool {
		sel, ok := n.(*ast.SelectorExpr)
		if !ok {
			return true
		}
		id, ok := sel.X.(*ast.Ident)
		if !ok || id.Obj != nil { // id.Obj != nil: a local object shadows the package name
			return true
		}
		if timeName != "" && id.Name == timeName && timeFuncs[sel.Sel.Name] {
			id.Name = "vtime__"
			useVtime = true
			st.Rewrites["time."+sel.Sel.Name]++
		}
		if sysName != "" && id.Name == sysName && sysFuncs[sel.Sel.Name] {
			id.Name = "vsys__"
			useVsys = true
			st.Rewrites["syscall."+sel.Sel.Name]++
		}
		if userName != "" && id.Name == userName && userFuncs[sel.Sel.Name] {
			id.Name = "vuser__"
			useVuser = true
			st.Rewrites["user."+sel.Sel.Name]++
		}
		return true
	})
	if useVtime {
		addImport(f, "vtime__", modPath+"/vshim/vtime")
		changed = true
	}
	if useVsys {
		addImport(f, "vsys__", modPath+"/vshim/vsys")
		changed = true
	}
	if useVuser {
		addImport(f, "vuser__", modPath+"/vshim/vuser")
		changed = true
	}
	if !changed {
		return false, nil
	}
	// the original package import may have become unused
	if useVtime && !usesPkg(f, timeName) {
		dropImport(f, "time")
	}
	if useVsys && !usesPkg(f, sysName) {
		dropImport(f, "syscall")
	}
	if useVuser && !usesPkg(f, userName) {
		dropImport(f, "os/user")
	}
	var buf bytes.Buffer
	if err := printer.Fprint(&buf, fset, f); err != nil {
		return false, err
	}
	if err := os.MkdirAll(filepath.Dir(dst), 0o755); err != nil {
		return false, err
	}
	return true, os.WriteFile(dst, buf.Bytes(), 0o644)
}

func usesPkg(f *ast.File, name string) bool {
	used := false
	ast.Inspect(f, func(n ast.Node) bool {
		if sel, ok := n.(*ast.SelectorExpr); ok {
			if id, ok := sel.X.(*ast.Ident); ok && id.Name == name && id.Obj == nil {
				used = true
			}
		}
		return !used
	})
	return used
}

func addImport(f *ast.File, name, path string) {
	spec := &ast.ImportSpec{Name: ast.NewIdent(name), Path: &ast.BasicLit{Kind: token.STRING, Value: strconv.Quote(path)}}
	for _, d := range f.Decls {
		if gd, ok := d.(*ast.GenDecl); ok && gd.Tok == token.IMPORT {
			gd.Specs = append(gd.Specs, spec)
			if !gd.Lparen.IsValid() {
				gd.Lparen = gd.Pos()
				gd.Rparen = gd.End()
			}
			f.Imports = append(f.Imports, spec)
			return
		}
	}
	gd := &ast.GenDecl{Tok: token.IMPORT, Specs: []ast.Spec{spec}}
	f.Decls = append([]ast.Decl{gd}, f.Decls...)
	f.Imports = append(f.Imports, spec)
}

func dropImport(f *ast.File, path string) {
	for _, d := range f.Decls {
		gd, ok := d.(*ast.GenDecl)
		if !ok || gd.Tok != token.IMPORT {
			continue
		}
		for i, s := range gd.Specs {
			is := s.(*ast.ImportSpec)
			if p, _ := strconv.Unquote(is.Path.Value); p == path {
				gd.Specs = append(gd.Specs[:i], gd.Specs[i+1:]...)
				return
			}
		}
	}
}
