// Command instr is the check-time instrumenter (DESIGN.md §3.1).  It reads the
// non-test Go files of the packages under test from the repository AS THEY ARE
// NOW, writes rewritten copies to an output directory and emits a
// `go build -overlay` JSON that (a) substitutes the rewritten copies and (b)
// maps the virtual shim packages <repo>/vshim/<pkg> to /verif/engine/vshim.
//
// Rewrites: import "sync" -> vsync, "sync/atomic" -> vatomic (alias imports, so
// all selectors keep their spelling); time.{Now,Sleep,Since,Until} -> vtime.*;
// syscall.{Socket,Bind,Getsockname,Sendto,Recvfrom,Close} -> vsys.*;
// os/user.{Lookup,LookupId,LookupGroup,LookupGroupId} -> vuser.* (account database seam);
// os.{Getuid,Geteuid,Getgid,Getegid,Getpid,Getppid,Getenv,LookupEnv,Hostname} -> vos.* (process identity seam).
package main

import (
	"bytes"
	"encoding/json"
	"flag"
	"fmt"
	"go/ast"
	"go/parser"
	"go/printer"
	"go/token"
	"os"
	"path/filepath"
	"reflect"
	"sort"
	"strconv"
	"strings"
)

const modPath = "github.com/elastic/go-libaudit/v2"

var timeFuncs = map[string]bool{"Now": true, "Sleep": true, "Since": true, "Until": true}
var sysFuncs = map[string]bool{"Socket": true, "Bind": true, "Getsockname": true, "Sendto": true, "Recvfrom": true, "Close": true}
var osFuncs = map[string]bool{"Getuid": true, "Geteuid": true, "Getgid": true, "Getegid": true, "Getpid": true, "Getppid": true, "Getenv": true, "LookupEnv": true, "Hostname": true}
var userFuncs = map[string]bool{"Lookup": true, "LookupId": true, "LookupGroup": true, "LookupGroupId": true}

type stats struct {
	Files        int            `json:"files"`
	Rewrites     map[string]int `json:"rewrites"`
	ShimFiles    int            `json:"shim_files"`
	Instrumented []string       `json:"instrumented"`
}

func main() {
	repo := flag.String("repo", "/repo", "repository root")
	verif := flag.String("verif", "/verif", "verif root")
	out := flag.String("out", "/verif/.work/instr", "output directory")
	pkgs := flag.String("pkgs", ".,aucoalesce", "comma separated package dirs (relative to repo) to instrument")
	flag.Parse()

	st := stats{Rewrites: map[string]int{}}
	replace := map[string]string{}
	raceReplace := map[string]string{}
	if err := os.RemoveAll(*out); err != nil {
		die(err)
	}
	for _, p := range strings.Split(*pkgs, ",") {
		dir := filepath.Join(*repo, p)
		ents, err := os.ReadDir(dir)
		if err != nil {
			die(err)
		}
		for _, e := range ents {
			n := e.Name()
			if e.IsDir() || !strings.HasSuffix(n, ".go") || strings.HasSuffix(n, "_test.go") {
				continue
			}
			src := filepath.Join(dir, n)
			dst := filepath.Join(*out, p, n)
			changed, err := rewrite(src, dst, &st, true)
			if err != nil {
				die(fmt.Errorf("%s: %w", src, err))
			}
			if changed {
				replace[src] = dst
				st.Instrumented = append(st.Instrumented, filepath.Join(p, n))
			}
			// race flavour: clock and socket seams only, real sync/atomic
			var st2 stats
			st2.Rewrites = map[string]int{}
			rdst := filepath.Join(*out, "race", p, n)
			if ch, err := rewrite(src, rdst, &st2, false); err != nil {
				die(fmt.Errorf("%s: %w", src, err))
			} else if ch {
				raceReplace[src] = rdst
			}
			st.Files++
		}
	}
	// virtual shim packages
	shimRoot := filepath.Join(*verif, "engine", "vshim")
	err := filepath.Walk(shimRoot, func(path string, info os.FileInfo, err error) error {
		if err != nil {
			return err
		}
		if info.IsDir() || !strings.HasSuffix(path, ".go") {
			return nil
		}
		rel, _ := filepath.Rel(shimRoot, path)
		replace[filepath.Join(*repo, "vshim", rel)] = path
		st.ShimFiles++
		return nil
	})
	if err != nil {
		die(err)
	}
	shimOnly := map[string]string{}
	for k, v := range replace {
		if strings.HasPrefix(k, filepath.Join(*repo, "vshim")+"/") {
			shimOnly[k] = v
		}
	}
	// extra overlay entries (e.g. in-package helpers) from <verif>/engine/overlay/<pkgdir>/*.go
	extraRoot := filepath.Join(*verif, "engine", "overlay")
	if _, err := os.Stat(extraRoot); err == nil {
		_ = filepath.Walk(extraRoot, func(path string, info os.FileInfo, err error) error {
			if err != nil || info.IsDir() || !strings.HasSuffix(path, ".go") {
				return err
			}
			rel, _ := filepath.Rel(extraRoot, path)
			replace[filepath.Join(*repo, rel)] = path
			return nil
		})
	}
	ov := struct{ Replace map[string]string }{replace}
	b, _ := json.MarshalIndent(ov, "", " ")
	if err := os.MkdirAll(*out, 0o755); err != nil {
		die(err)
	}
	if err := os.WriteFile(filepath.Join(*out, "overlay.json"), b, 0o644); err != nil {
		die(err)
	}
	for k, v := range raceReplace {
		shimOnly[k] = v
	}
	sb2, _ := json.MarshalIndent(struct{ Replace map[string]string }{shimOnly}, "", " ")
	if err := os.WriteFile(filepath.Join(*out, "overlay-shims.json"), sb2, 0o644); err != nil {
		die(err)
	}
	sort.Strings(st.Instrumented)
	sb, _ := json.Marshal(st)
	_ = os.WriteFile(filepath.Join(*out, "stats.json"), sb, 0o644)
	fmt.Println(string(sb))
}

func die(err error) {
	fmt.Fprintln(os.Stderr, "ERROR instrumentation:", err)
	os.Exit(2)
}

func rewrite(src, dst string, st *stats, withSync bool) (bool, error) {
	fset := token.NewFileSet()
	f, err := parser.ParseFile(fset, src, nil, parser.ParseComments)
	if err != nil {
		return false, err
	}
	changed := false
	timeName, sysName, userName, osName := "", "", "", ""
	for _, imp := range f.Imports {
		path, _ := strconv.Unquote(imp.Path.Value)
		if !withSync && (path == "sync" || path == "sync/atomic") {
			continue
		}
		switch path {
		case "sync":
			if imp.Name == nil {
				imp.Name = ast.NewIdent("sync")
			}
			imp.Path.Value = strconv.Quote(modPath + "/vshim/vsync")
			st.Rewrites["import sync"]++
			changed = true
		case "sync/atomic":
			if imp.Name == nil {
				imp.Name = ast.NewIdent("atomic")
			}
			imp.Path.Value = strconv.Quote(modPath + "/vshim/vatomic")
			st.Rewrites["import sync/atomic"]++
			changed = true
		case "time":
			timeName = "time"
			if imp.Name != nil {
				timeName = imp.Name.Name
			}
		case "syscall":
			sysName = "syscall"
			if imp.Name != nil {
				sysName = imp.Name.Name
			}
		case "os":
			osName = "os"
			if imp.Name != nil {
				osName = imp.Name.Name
			}
		case "os/user":
			userName = "user"
			if imp.Name != nil {
				userName = imp.Name.Name
			}
		}
	}
	useVtime, useVsys, useVuser, useVos := false, false, false, false
	ast.Inspect(f, func(n ast.Node) bool {
		sel, ok := n.(*ast.SelectorExpr)
		if !ok {
			return true
		}
		id, ok := sel.X.(*ast.Ident)
		if !ok || id.Obj != nil { // id.Obj != nil: a local object shadows the package name
			return true
		}
		if timeName != "" && id.Name == timeName && timeFuncs[sel.Sel.Name] {
			id.Name = "vtime__"
			useVtime = true
			st.Rewrites["time."+sel.Sel.Name]++
		}
		if sysName != "" && id.Name == sysName && sysFuncs[sel.Sel.Name] {
			id.Name = "vsys__"
			useVsys = true
			st.Rewrites["syscall."+sel.Sel.Name]++
		}
		if osName != "" && id.Name == osName && osFuncs[sel.Sel.Name] {
			id.Name = "vos__"
			useVos = true
			st.Rewrites["os."+sel.Sel.Name]++
		}
		if userName != "" && id.Name == userName && userFuncs[sel.Sel.Name] {
			id.Name = "vuser__"
			useVuser = true
			st.Rewrites["user."+sel.Sel.Name]++
		}
		return true
	})
	if withSync {
		if n := rewriteChannels(f); n > 0 {
			addImport(f, "vchan__", modPath+"/vshim/vchan")
			st.Rewrites["channel operations"] += n
			changed = true
		}
	}
	if useVtime {
		addImport(f, "vtime__", modPath+"/vshim/vtime")
		changed = true
	}
	if useVsys {
		addImport(f, "vsys__", modPath+"/vshim/vsys")
		changed = true
	}
	if useVuser {
		addImport(f, "vuser__", modPath+"/vshim/vuser")
		changed = true
	}
	if useVos {
		addImport(f, "vos__", modPath+"/vshim/vos")
		changed = true
	}
	if !changed {
		return false, nil
	}
	// the original package import may have become unused
	if useVtime && !usesPkg(f, timeName) {
		dropImport(f, "time")
	}
	if useVsys && !usesPkg(f, sysName) {
		dropImport(f, "syscall")
	}
	if useVuser && !usesPkg(f, userName) {
		dropImport(f, "os/user")
	}
	if useVos && !usesPkg(f, osName) {
		dropImport(f, "os")
	}
	var buf bytes.Buffer
	if err := printer.Fprint(&buf, fset, f); err != nil {
		return false, err
	}
	if err := os.MkdirAll(filepath.Dir(dst), 0o755); err != nil {
		return false, err
	}
	return true, os.WriteFile(dst, buf.Bytes(), 0o644)
}

// rewriteChannels turns channel operations into calls of the vchan shim: `<-ch` -> vchan__.Recv(ch),
// `v, ok := <-ch` -> vchan__.Recv2(ch), `ch <- v` -> vchan__.Send(ch, v), close(ch) -> vchan__.Close(ch).  The
// communication clause of a select case stays as it is (a select is not modelled; the scheduler's watchdog reports a
// thread that blocks in one).  A generic walk over the syntax tree by reflection, replacing nodes in their parents.
func rewriteChannels(f *ast.File) int {
	n := 0
	call := func(fn string, args ...ast.Expr) *ast.CallExpr {
		return &ast.CallExpr{Fun: &ast.SelectorExpr{X: ast.NewIdent("vchan__"), Sel: ast.NewIdent(fn)}, Args: args}
	}
	isRecv := func(e ast.Expr) (*ast.UnaryExpr, bool) {
		for {
			p, ok := e.(*ast.ParenExpr)
			if !ok {
				break
			}
			e = p.X
		}
		u, ok := e.(*ast.UnaryExpr)
		return u, ok && u.Op == token.ARROW
	}
	exprT := reflect.TypeOf((*ast.Expr)(nil)).Elem()
	stmtT := reflect.TypeOf((*ast.Stmt)(nil)).Elem()
	var walk func(v reflect.Value)
	fix := func(v reflect.Value) { // v: a settable value of interface type ast.Expr / ast.Stmt
		if v.IsNil() {
			return
		}
		switch x := v.Interface().(type) {
		case *ast.UnaryExpr:
			if x.Op == token.ARROW {
				walk(reflect.ValueOf(x))
				v.Set(reflect.ValueOf(call("Recv", x.X)))
				n++
				return
			}
		case *ast.SendStmt:
			walk(reflect.ValueOf(x))
			v.Set(reflect.ValueOf(&ast.ExprStmt{X: call("Send", x.Chan, x.Value)}))
			n++
			return
		case *ast.CallExpr:
			if id, ok := x.Fun.(*ast.Ident); ok && id.Name == "close" && id.Obj == nil && len(x.Args) == 1 {
				walk(reflect.ValueOf(x))
				x.Fun = &ast.SelectorExpr{X: ast.NewIdent("vchan__"), Sel: ast.NewIdent("Close")}
				n++
				return
			}
		case *ast.AssignStmt:
			if len(x.Lhs) == 2 && len(x.Rhs) == 1 {
				if u, ok := isRecv(x.Rhs[0]); ok {
					walk(reflect.ValueOf(u))
					x.Rhs[0] = call("Recv2", u.X)
					n++
					return
				}
			}
		}
		walk(v.Elem())
	}
	walk = func(v reflect.Value) {
		switch v.Kind() {
		case reflect.Ptr:
			if v.IsNil() {
				return
			}
			if cc, ok := v.Interface().(*ast.CommClause); ok {
				for i := range cc.Body {
					fix(reflect.ValueOf(&cc.Body[i]).Elem())
				}
				return
			}
			if vs, ok := v.Interface().(*ast.ValueSpec); ok && len(vs.Names) == 2 && len(vs.Values) == 1 {
				if u, ok := isRecv(vs.Values[0]); ok {
					walk(reflect.ValueOf(u))
					vs.Values[0] = call("Recv2", u.X)
					n++
					return
				}
			}
			if _, ok := v.Interface().(*ast.Object); ok {
				return
			}
			if _, ok := v.Interface().(*ast.Scope); ok {
				return
			}
			walk(v.Elem())
		case reflect.Struct:
			for i := 0; i < v.NumField(); i++ {
				fv := v.Field(i)
				if !fv.CanSet() {
					continue
				}
				switch {
				case fv.Type() == exprT || fv.Type() == stmtT:
					fix(fv)
				case fv.Kind() == reflect.Slice:
					for j := 0; j < fv.Len(); j++ {
						ev := fv.Index(j)
						if ev.Type() == exprT || ev.Type() == stmtT {
							fix(ev)
						} else {
							walk(ev)
						}
					}
				case fv.Kind() == reflect.Ptr || fv.Kind() == reflect.Interface:
					walk(fv)
				}
			}
		case reflect.Interface:
			if !v.IsNil() {
				walk(v.Elem())
			}
		}
	}
	for _, d := range f.Decls {
		walk(reflect.ValueOf(d))
	}
	return n
}

func usesPkg(f *ast.File, name string) bool {
	used := false
	ast.Inspect(f, func(n ast.Node) bool {
		if sel, ok := n.(*ast.SelectorExpr); ok {
			if id, ok := sel.X.(*ast.Ident); ok && id.Name == name && id.Obj == nil {
				used = true
			}
		}
		return !used
	})
	return used
}

func addImport(f *ast.File, name, path string) {
	spec := &ast.ImportSpec{Name: ast.NewIdent(name), Path: &ast.BasicLit{Kind: token.STRING, Value: strconv.Quote(path)}}
	for _, d := range f.Decls {
		if gd, ok := d.(*ast.GenDecl); ok && gd.Tok == token.IMPORT {
			gd.Specs = append(gd.Specs, spec)
			if !gd.Lparen.IsValid() {
				gd.Lparen = gd.Pos()
				gd.Rparen = gd.End()
			}
			f.Imports = append(f.Imports, spec)
			return
		}
	}
	gd := &ast.GenDecl{Tok: token.IMPORT, Specs: []ast.Spec{spec}}
	f.Decls = append([]ast.Decl{gd}, f.Decls...)
	f.Imports = append(f.Imports, spec)
}

func dropImport(f *ast.File, path string) {
	for _, d := range f.Decls {
		gd, ok := d.(*ast.GenDecl)
		if !ok || gd.Tok != token.IMPORT {
			continue
		}
		for i, s := range gd.Specs {
			is := s.(*ast.ImportSpec)
			if p, _ := strconv.Unquote(is.Path.Value); p == path {
				gd.Specs = append(gd.Specs[:i], gd.Specs[i+1:]...)
				return
			}
		}
	}
}
