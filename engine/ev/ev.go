// Package ev is the evidence / violation / known-finding plumbing shared by
// all checks (DESIGN.md §3.6).
package ev

import (
	"crypto/sha1"
	"encoding/hex"
	"encoding/json"
	"fmt"
	"os"
	"path/filepath"
	"sort"
	"strconv"
	"sync"
	"time"
)

// Root is /verif unless VERIF_ROOT says otherwise.
func Root() string {
	if r := os.Getenv("VERIF_ROOT"); r != "" {
		return r
	}
	return "/verif"
}

// Repo is the repository under test.
func Repo() string {
	if r := os.Getenv("VERIF_REPO"); r != "" {
		return r
	}
	return "/repo"
}

// Violation is one property violation found by a check.
type Violation struct {
	Sig    string      `json:"signature"` // names the failing class by input / call site
	What   string      `json:"what"`
	Replay interface{} `json:"replay"` // op list / schedule / input
	Test   string      `json:"go_test,omitempty"`
}

type finding struct {
	Property  string `json:"property"`
	Status    string `json:"status"` // known | fixed
	Signature string `json:"signature"`
	What      string `json:"what"`
	Commit    string `json:"commit,omitempty"`
}

// Run accumulates what one check invocation covered and found.
type Run struct {
	Prop        string
	Tier        string
	Seed        int64
	Level       string
	Cov         map[string]interface{}
	Assumptions []string

	mu        sync.Mutex
	start     time.Time
	bySig     map[string][]Violation
	sigCount  map[string]int
	sigOrder  []string
	known     map[string]finding
	knownSeen map[string]bool
	samples   []interface{}
	errors    []string
}

// Begin starts a run.  level is one of the evidence schema levels.
func Begin(prop, tier, level string) *Run {
	seed, _ := strconv.ParseInt(os.Getenv("VERIF_SEED"), 10, 64)
	r := &Run{Prop: prop, Tier: tier, Seed: seed, Level: level, Cov: map[string]interface{}{},
		start: time.Now(), bySig: map[string][]Violation{}, sigCount: map[string]int{},
		known: map[string]finding{}, knownSeen: map[string]bool{}}
	b, err := os.ReadFile(filepath.Join(Root(), "known_findings.json"))
	if err == nil {
		var kf struct {
			Findings []finding `json:"findings"`
		}
		if err := json.Unmarshal(b, &kf); err != nil {
			r.Errorf("known_findings.json: %v", err)
		}
		for _, f := range kf.Findings {
			if f.Property == prop && f.Status == "known" {
				r.known[f.Signature] = f
			}
		}
	}
	return r
}

// Errorf records an infrastructure error (exit 2, never a VIOLATION).
func (r *Run) Errorf(format string, a ...interface{}) {
	r.mu.Lock()
	defer r.mu.Unlock()
	r.errors = append(r.errors, fmt.Sprintf(format, a...))
}

// Sample records an actual explored case for the evidence file (first few kept).
func (r *Run) Sample(s interface{}) {
	r.mu.Lock()
	defer r.mu.Unlock()
	if len(r.samples) < 12 {
		r.samples = append(r.samples, s)
	}
}

// Add adds n to an integer coverage counter.
func (r *Run) Add(key string, n int64) {
	r.mu.Lock()
	defer r.mu.Unlock()
	cur, _ := r.Cov[key].(int64)
	r.Cov[key] = cur + n
}

// Set sets a coverage key.
func (r *Run) Set(key string, v interface{}) {
	r.mu.Lock()
	defer r.mu.Unlock()
	r.Cov[key] = v
}

// Get returns an integer coverage counter.
func (r *Run) Get(key string) int64 {
	r.mu.Lock()
	defer r.mu.Unlock()
	cur, _ := r.Cov[key].(int64)
	return cur
}

// Assume records an assumption.
func (r *Run) Assume(s string) { r.Assumptions = append(r.Assumptions, s) }

// Report records a violation (at most 3 replay cases are kept per signature).
func (r *Run) Report(v Violation) {
	r.mu.Lock()
	defer r.mu.Unlock()
	if _, ok := r.sigCount[v.Sig]; !ok {
		r.sigOrder = append(r.sigOrder, v.Sig)
	}
	r.sigCount[v.Sig]++
	if len(r.bySig[v.Sig]) < 3 {
		r.bySig[v.Sig] = append(r.bySig[v.Sig], v)
	}
}

// NumSigs returns the number of distinct violation signatures so far.
func (r *Run) NumSigs() int {
	r.mu.Lock()
	defer r.mu.Unlock()
	return len(r.sigOrder)
}

// Finish writes the evidence file, prints KNOWN-FINDING / VIOLATION lines and
// returns the process exit code.
func (r *Run) Finish() int {
	r.mu.Lock()
	defer r.mu.Unlock()
	root := Root()
	nviol := 0
	var knownSeen []string
	sort.Strings(r.sigOrder)
	var lines []string
	for _, sig := range r.sigOrder {
		vs := r.bySig[sig]
		if f, ok := r.known[sig]; ok {
			knownSeen = append(knownSeen, sig)
			lines = append(lines, fmt.Sprintf("KNOWN-FINDING: property=%s %s [%s] (%d cases)", r.Prop, f.What, sig, r.sigCount[sig]))
			continue
		}
		nviol++
		if nviol > 25 {
			continue
		}
		h := sha1.Sum([]byte(sig))
		path := filepath.Join(root, "violations", fmt.Sprintf("%s-%s.json", r.Prop, hex.EncodeToString(h[:6])))
		_ = os.MkdirAll(filepath.Dir(path), 0o755)
		doc := map[string]interface{}{"property": r.Prop, "signature": sig, "cases_seen": r.sigCount[sig], "cases": vs, "tier": r.Tier}
		b, _ := json.MarshalIndent(doc, "", " ")
		_ = os.WriteFile(path, b, 0o644)
		lines = append(lines, fmt.Sprintf("VIOLATION property=%s replay=%s", r.Prop, path))
		lines = append(lines, fmt.Sprintf("  signature: %s\n  what: %s", sig, vs[0].What))
	}
	var stale []string
	for sig := range r.known {
		found := false
		for _, s := range knownSeen {
			if s == sig {
				found = true
			}
		}
		if !found {
			stale = append(stale, sig)
		}
	}
	sort.Strings(stale)
	for _, s := range stale {
		lines = append(lines, fmt.Sprintf("NOTE: known finding not reproduced by this run (tier %s): property=%s [%s]", r.Tier, r.Prop, s))
	}

	cov := r.Cov
	if len(r.samples) > 0 {
		cov["samples"] = r.samples
	}
	cov["known_findings_seen"] = knownSeen
	cov["distinct_violation_signatures"] = nviol
	if len(r.errors) > 0 {
		cov["errors"] = r.errors
	}
	doc := map[string]interface{}{
		"property_id": r.Prop,
		"tier":        r.Tier,
		"seed":        r.Seed,
		"level":       r.Level,
		"coverage":    cov,
		"assumptions": r.Assumptions,
		"wall_s":      time.Since(r.start).Seconds(),
		"violations":  nviol,
	}
	b, _ := json.MarshalIndent(doc, "", " ")
	_ = os.MkdirAll(filepath.Join(root, "evidence"), 0o755)
	if err := os.WriteFile(filepath.Join(root, "evidence", r.Prop+".json"), b, 0o644); err != nil {
		fmt.Println("ERROR writing evidence:", err)
		return 2
	}
	for _, l := range lines {
		fmt.Println(l)
	}
	for _, e := range r.errors {
		fmt.Println("ERROR", e)
	}
	summary := map[string]interface{}{}
	for k, v := range cov {
		switch v.(type) {
		case int64, int, bool, float64, string:
			summary[k] = v
		}
	}
	sb, _ := json.Marshal(summary)
	fmt.Printf("%s %s: violations=%d known=%d wall=%.1fs %s\n", r.Prop, r.Tier, nviol, len(knownSeen), time.Since(r.start).Seconds(), sb)
	if nviol > 0 {
		return 1
	}
	if len(r.errors) > 0 {
		return 2
	}
	return 0
}
