// Package statehash computes a canonical key of everything reachable from a
// live object, including unexported fields (DESIGN.md §3.3): pointers are
// renamed by first-visit order, maps are walked in sorted key order, slices
// contribute len elements (optionally cap-len), time.Time values are encoded
// relative to a virtual "now" through a clamp function.
package statehash

import (
	"crypto/sha1"
	"encoding/binary"
	"fmt"
	"hash"
	"reflect"
	"sort"
	"time"
	"unsafe"
)

// Opts configures the walk.
type Opts struct {
	Now       time.Time
	TimeClamp func(d time.Duration) int64 // nil: raw nanoseconds relative to Now
	SkipType  func(t reflect.Type) bool   // fields/elements of these types are ignored
	// Custom returns true if it handled v itself by writing to w.
	Custom  func(v reflect.Value, w *Writer) bool
	WithCap bool
}

// Writer is the hashing sink.
type Writer struct {
	h    hash.Hash
	o    *Opts
	ptrs map[unsafe.Pointer]int
	buf  [8]byte
	Dump []byte // if non-nil, a readable dump is appended (debugging)
	dump bool
}

func (w *Writer) U64(x uint64) {
	binary.LittleEndian.PutUint64(w.buf[:], x)
	w.h.Write(w.buf[:])
	if w.dump {
		w.Dump = append(w.Dump, fmt.Sprintf("%d,", x)...)
	}
}

func (w *Writer) Str(s string) {
	w.U64(uint64(len(s)))
	w.h.Write([]byte(s))
	if w.dump {
		w.Dump = append(w.Dump, fmt.Sprintf("%q,", s)...)
	}
}

var timeType = reflect.TypeOf(time.Time{})

// Key returns the canonical key of everything reachable from the roots.
func Key(o *Opts, roots ...interface{}) [20]byte {
	w := &Writer{h: sha1.New(), o: o, ptrs: map[unsafe.Pointer]int{}}
	for _, r := range roots {
		w.Walk(reflect.ValueOf(r))
	}
	var out [20]byte
	copy(out[:], w.h.Sum(nil))
	return out
}

// Dump returns a readable rendering of the canonical form (debugging, samples).
func Dump(o *Opts, roots ...interface{}) string {
	w := &Writer{h: sha1.New(), o: o, ptrs: map[unsafe.Pointer]int{}, dump: true}
	for _, r := range roots {
		w.Walk(reflect.ValueOf(r))
	}
	return string(w.Dump)
}

func (w *Writer) tag(s string) {
	w.h.Write([]byte(s))
	if w.dump {
		w.Dump = append(w.Dump, s...)
	}
}

// Walk hashes v.
func (w *Writer) Walk(v reflect.Value) {
	if !v.IsValid() {
		w.tag("<nil>")
		return
	}
	t := v.Type()
	if w.o.SkipType != nil && w.o.SkipType(t) {
		return
	}
	if w.o.Custom != nil && w.o.Custom(v, w) {
		return
	}
	switch v.Kind() {
	case reflect.Bool:
		if v.Bool() {
			w.U64(1)
		} else {
			w.U64(0)
		}
	case reflect.Int, reflect.Int8, reflect.Int16, reflect.Int32, reflect.Int64:
		w.U64(uint64(v.Int()))
	case reflect.Uint, reflect.Uint8, reflect.Uint16, reflect.Uint32, reflect.Uint64, reflect.Uintptr:
		w.U64(v.Uint())
	case reflect.Float32, reflect.Float64:
		w.Str(fmt.Sprint(v.Float()))
	case reflect.Complex64, reflect.Complex128:
		w.Str(fmt.Sprint(v.Complex()))
	case reflect.String:
		w.Str(v.String())
	case reflect.Ptr, reflect.UnsafePointer:
		if v.IsNil() {
			w.tag("nil;")
			return
		}
		p := unsafe.Pointer(v.Pointer())
		if id, ok := w.ptrs[p]; ok {
			w.tag("@")
			w.U64(uint64(id))
			return
		}
		w.ptrs[p] = len(w.ptrs)
		if v.Kind() == reflect.Ptr {
			w.tag("&")
			w.Walk(v.Elem())
		}
	case reflect.Interface:
		if v.IsNil() {
			w.tag("nil;")
			return
		}
		w.Str(v.Elem().Type().String())
		w.Walk(v.Elem())
	case reflect.Struct:
		if t == timeType && v.CanAddr() {
			tm := *(*time.Time)(unsafe.Pointer(v.UnsafeAddr()))
			if tm.IsZero() {
				w.tag("t0;")
				return
			}
			d := tm.Sub(w.o.Now)
			if w.o.TimeClamp != nil {
				w.tag("t")
				w.U64(uint64(w.o.TimeClamp(d)))
			} else {
				w.tag("t")
				w.U64(uint64(d))
			}
			return
		}
		w.tag("{")
		for i := 0; i < v.NumField(); i++ {
			w.Walk(v.Field(i))
		}
		w.tag("}")
	case reflect.Array:
		w.tag("[")
		for i := 0; i < v.Len(); i++ {
			w.Walk(v.Index(i))
		}
		w.tag("]")
	case reflect.Slice:
		if v.IsNil() {
			w.tag("nil[];")
			return
		}
		w.tag("[")
		w.U64(uint64(v.Len()))
		if w.o.WithCap {
			w.U64(uint64(v.Cap() - v.Len()))
		}
		for i := 0; i < v.Len(); i++ {
			w.Walk(v.Index(i))
		}
		w.tag("]")
	case reflect.Map:
		if v.IsNil() {
			w.tag("nilmap;")
			return
		}
		type kv struct {
			ks string
			k  reflect.Value
			v  reflect.Value
		}
		var ents []kv
		it := v.MapRange()
		for it.Next() {
			ents = append(ents, kv{keyString(it.Key()), it.Key(), it.Value()})
		}
		sort.Slice(ents, func(i, j int) bool { return ents[i].ks < ents[j].ks })
		w.tag("map{")
		w.U64(uint64(len(ents)))
		for _, e := range ents {
			w.Str(e.ks)
			w.Walk(e.v)
		}
		w.tag("}")
	case reflect.Func:
		if v.IsNil() {
			w.tag("nilfunc;")
		} else {
			w.tag("func;")
		}
	case reflect.Chan:
		if v.IsNil() {
			w.tag("nilchan;")
		} else {
			w.tag("chan;")
			w.U64(uint64(v.Len()))
		}
	default:
		w.tag("?" + v.Kind().String())
	}
}

// keyString renders a map key without pointer renaming (keys of basic kinds
// and structs/arrays of them).
func keyString(k reflect.Value) string {
	switch k.Kind() {
	case reflect.Int, reflect.Int8, reflect.Int16, reflect.Int32, reflect.Int64:
		return fmt.Sprintf("i%020d", uint64(k.Int())^(1<<63))
	case reflect.Uint, reflect.Uint8, reflect.Uint16, reflect.Uint32, reflect.Uint64, reflect.Uintptr:
		return fmt.Sprintf("u%020d", k.Uint())
	case reflect.String:
		return "s" + k.String()
	case reflect.Bool:
		return fmt.Sprint(k.Bool())
	case reflect.Interface:
		if k.IsNil() {
			return "nil"
		}
		return k.Elem().Type().String() + ":" + keyString(k.Elem())
	case reflect.Struct:
		s := "{"
		for i := 0; i < k.NumField(); i++ {
			s += keyString(k.Field(i)) + ","
		}
		return s + "}"
	case reflect.Array:
		s := "["
		for i := 0; i < k.Len(); i++ {
			s += keyString(k.Index(i)) + ","
		}
		return s + "]"
	case reflect.Ptr:
		// pointer keys cannot be canonicalised independently of traversal
		// order; fall back to the address (over-fine, never unsound).
		return fmt.Sprintf("p%x", k.Pointer())
	}
	return fmt.Sprintf("?%v", k.Kind())
}
