package statehash

import (
	"fmt"
	"reflect"
	"unsafe"
)

// Reach returns the addresses of all MUTABLE storage reachable from root - backing arrays of
// slices (cap > 0), maps, pointer targets, channels - with a description of the path to each,
// reading unexported fields too.  Two live objects that are meant to be independent must have
// disjoint Reach sets (storage handed back to a pool while still referenced, scratch buffers
// shared through package-level variables ... show up as an intersection).
func Reach(root interface{}, skip func(t reflect.Type) bool) map[uintptr]string {
	out := map[uintptr]string{}
	seen := map[uintptr]bool{}
	var walk func(v reflect.Value, path string, depth int)
	walk = func(v reflect.Value, path string, depth int) {
		if !v.IsValid() || depth > 40 {
			return
		}
		t := v.Type()
		if skip != nil && skip(t) {
			return
		}
		if t == timeType {
			// a time.Time points at its *time.Location: process-wide, immutable after creation (time.Local, time.UTC) -
			// two objects that both hold a time value share nothing mutable through it
			return
		}
		switch v.Kind() {
		case reflect.Ptr:
			if v.IsNil() {
				return
			}
			p := v.Pointer()
			if seen[p] {
				return
			}
			seen[p] = true
			if skip != nil && skip(t.Elem()) {
				return
			}
			out[p] = path + " (*" + t.Elem().String() + ")"
			walk(v.Elem(), path+".*", depth+1)
		case reflect.Interface:
			if !v.IsNil() {
				walk(v.Elem(), path, depth+1)
			}
		case reflect.Slice:
			if v.IsNil() || v.Cap() == 0 {
				return
			}
			// the backing array is identified by the address of its LAST slot (slices of one array that
			// were advanced from the front still share it)
			es := t.Elem().Size()
			base := v.Pointer()
			last := base + uintptr(v.Cap()-1)*es
			if es == 0 {
				last = base
			}
			out[last] = fmt.Sprintf("%s (backing array of %s, cap %d)", path, t.String(), v.Cap())
			for i := 0; i < v.Len(); i++ {
				walk(v.Index(i), fmt.Sprintf("%s[%d]", path, i), depth+1)
			}
		case reflect.Array:
			for i := 0; i < v.Len(); i++ {
				walk(v.Index(i), fmt.Sprintf("%s[%d]", path, i), depth+1)
			}
		case reflect.Map:
			if v.IsNil() {
				return
			}
			p := v.Pointer()
			if seen[p] {
				return
			}
			seen[p] = true
			out[p] = path + " (" + t.String() + ")"
			it := v.MapRange()
			for it.Next() {
				walk(it.Value(), path+"[k]", depth+1)
			}
		case reflect.Chan:
			if !v.IsNil() {
				out[v.Pointer()] = path + " (" + t.String() + ")"
			}
		case reflect.Struct:
			for i := 0; i < v.NumField(); i++ {
				f := v.Field(i)
				if !f.CanInterface() && f.CanAddr() {
					f = reflect.NewAt(f.Type(), unsafe.Pointer(f.UnsafeAddr())).Elem()
				}
				walk(f, path+"."+t.Field(i).Name, depth+1)
			}
		}
	}
	v := reflect.ValueOf(root)
	walk(v, "root", 0)
	return out
}

// Shared returns a description of storage reachable from both a and b ("" if disjoint).
func Shared(a, b map[uintptr]string) string {
	for p, da := range a {
		if db, ok := b[p]; ok {
			return fmt.Sprintf("%s  IS ALSO  %s", da, db)
		}
	}
	return ""
}
