package guard
import ("testing";"unsafe")
var sink uint64
func TestG(t *testing.T){
 r,err:=New(100); if err!=nil{t.Fatal(err)}
 b:=r.AtEnd([]byte{1,2,3,4})
 p:=Call(func(){ sink = *(*uint64)(unsafe.Pointer(&b[0])) })
 t.Logf("over-read: %v",p)
 if p==nil {t.Fatal("no fault")}
 p=Call(func(){ sink = uint64(*(*uint32)(unsafe.Pointer(&b[0]))) })
 if p!=nil {t.Fatal(p)}
 c:=r.AtStart([]byte{1,2,3,4})
 p=Call(func(){ sink = uint64(*(*byte)(unsafe.Pointer(uintptr(unsafe.Pointer(&c[0]))-1))) })
 t.Logf("under-read: %v",p)
 if p==nil {t.Fatal("no fault")}
}
