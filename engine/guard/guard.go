// Package guard places byte buffers flush against inaccessible pages, so that code
// which reads (or writes) outside the slice it was given faults instead of silently
// seeing neighbouring memory: [PROT_NONE page][data area][PROT_NONE page].
//
// Call runs a function with runtime/debug.SetPanicOnFault(true), so the fault
// becomes a recoverable panic that names the address.
package guard

import (
	"fmt"
	"runtime/debug"
	"syscall"
	"unsafe"
)

// Region is one guarded mapping.
type Region struct {
	mem  []byte
	page int
	data []byte // the accessible area
}

// New maps a region whose accessible area holds at least n bytes.
func New(n int) (*Region, error) {
	pg := syscall.Getpagesize()
	pages := (n + pg - 1) / pg
	if pages == 0 {
		pages = 1
	}
	mem, err := syscall.Mmap(-1, 0, (pages+2)*pg, syscall.PROT_READ|syscall.PROT_WRITE, syscall.MAP_ANON|syscall.MAP_PRIVATE)
	if err != nil {
		return nil, err
	}
	if err := syscall.Mprotect(mem[:pg], syscall.PROT_NONE); err != nil {
		return nil, err
	}
	if err := syscall.Mprotect(mem[(pages+1)*pg:], syscall.PROT_NONE); err != nil {
		return nil, err
	}
	return &Region{mem: mem, page: pg, data: mem[pg : (pages+1)*pg]}, nil
}

// Cap is the size of the accessible area.
func (r *Region) Cap() int { return len(r.data) }

// Poison fills the accessible area.
func (r *Region) Poison(b byte) {
	for i := range r.data {
		r.data[i] = b
	}
}

// AtEnd copies content so that its last byte is the last accessible byte; the
// returned slice has cap == len.
func (r *Region) AtEnd(content []byte) []byte {
	n := len(content)
	if n > len(r.data) {
		panic(fmt.Sprintf("guard: %d bytes do not fit into %d", n, len(r.data)))
	}
	off := len(r.data) - n
	copy(r.data[off:], content)
	return r.data[off:len(r.data):len(r.data)]
}

// AtStart copies content so that its first byte is the first accessible byte;
// the returned slice has cap == len.
func (r *Region) AtStart(content []byte) []byte {
	n := len(content)
	if n > len(r.data) {
		panic(fmt.Sprintf("guard: %d bytes do not fit into %d", n, len(r.data)))
	}
	copy(r.data, content)
	return r.data[:n:n]
}

// Free unmaps the region.
func (r *Region) Free() { _ = syscall.Munmap(r.mem) }

// Call runs f; a memory fault (or any panic) inside it is returned instead of
// killing the process.
func Call(f func()) (panicked interface{}) {
	old := debug.SetPanicOnFault(true)
	defer debug.SetPanicOnFault(old)
	defer func() { panicked = recover() }()
	f()
	return nil
}

// ReadOnly copies content to the end of the accessible area and makes the area READ-ONLY: the returned string lives in
// memory that cannot be written (like a string constant or a read-only file mapping) and ends at an inaccessible page.
// A store into it faults.  Writable undoes the protection (needed before the next AtEnd / AtStart / ReadOnly).
func (r *Region) ReadOnly(content string) string {
	_ = syscall.Mprotect(r.data, syscall.PROT_READ|syscall.PROT_WRITE)
	n := len(content)
	if n > len(r.data) {
		panic(fmt.Sprintf("guard: %d bytes do not fit into %d", n, len(r.data)))
	}
	off := len(r.data) - n
	copy(r.data[off:], content)
	_ = syscall.Mprotect(r.data, syscall.PROT_READ)
	if n == 0 {
		return ""
	}
	return unsafe.String(&r.data[off], n)
}

// Writable makes the accessible area writable again.
func (r *Region) Writable() { _ = syscall.Mprotect(r.data, syscall.PROT_READ|syscall.PROT_WRITE) }
