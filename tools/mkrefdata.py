#!/usr/bin/env python3
"""Authoring-time transcription of UAPI constants into refdata/*.txt (committed;
checks never read /usr/include at run time)."""
import re, os
out = os.path.join(os.path.dirname(os.path.dirname(os.path.abspath(__file__))), 'refdata')
os.makedirs(out, exist_ok=True)
def defines(path):
    d = {}
    for l in open(path):
        m = re.match(r'#define\s+(\w+)\s+(.+?)\s*(/\*.*)?$', l)
        if m: d[m.group(1)] = m.group(2).strip()
    return d
def val(d, v, depth=0):
    v = v.strip()
    if depth > 8: return None
    try: return int(v, 0)
    except ValueError: pass
    if re.match(r'^0[0-7]+$', v): return int(v, 8)
    if v in d: return val(d, d[v], depth+1)
    m = re.match(r'^\((.*)\)$', v)
    if m: return val(d, m.group(1), depth+1)
    m = re.match(r'^([^()]+?)\s*\|\s*(.+)$', v)
    if m:
        a, b = val(d, m.group(1), depth+1), val(d, m.group(2), depth+1)
        if a is not None and b is not None: return a | b
    m = re.match(r'^(\w+)\s*\+\s*(\w+)$', v)
    if m:
        a, b = val(d, m.group(1), depth+1), val(d, m.group(2), depth+1)
        if a is not None and b is not None: return a + b
    m = re.match(r'^(\w+)\s*<<\s*(\w+)$', v)
    if m:
        a, b = val(d, m.group(1), depth+1), val(d, m.group(2), depth+1)
        if a is not None and b is not None: return a << b
    return None
a = defines('/usr/include/linux/elf-em.h'); a.update(defines('/usr/include/linux/audit.h'))
with open(os.path.join(out, 'audit_uapi.txt'), 'w') as f:
    f.write('# name value  (transcribed from linux/audit.h of this image at authoring time)\n')
    for k, v in a.items():
        n = val(a, v)
        if n is not None and k.startswith('AUDIT_'):
            f.write(f'{k} {n}\n')
e = {}
for p in ('/usr/include/asm-generic/errno-base.h', '/usr/include/asm-generic/errno.h'):
    e.update(defines(p))
with open(os.path.join(out, 'errno.txt'), 'w') as f:
    f.write('# name value (asm-generic/errno-base.h, errno.h)\n')
    for k, v in e.items():
        n = val(e, v)
        if n is not None and k.startswith('E'):
            f.write(f'{k} {n}\n')
n = defines('/usr/include/linux/netlink.h')
with open(os.path.join(out, 'netlink_uapi.txt'), 'w') as f:
    for k, v in n.items():
        x = val(n, v)
        if x is not None and (k.startswith('NLM') or k.startswith('NETLINK_')):
            f.write(f'{k} {x}\n')
s = defines('/usr/include/linux/stat.h')
with open(os.path.join(out, 'stat_uapi.txt'), 'w') as f:
    for k, v in s.items():
        x = val(s, v)
        if x is not None and k.startswith('S_I'):
            f.write(f'{k} {x}\n')
print('ok')
# syscall tables: gdb ships XML generated from the kernel's per-architecture syscall.tbl files
# (an independent transcription; the library's tables come from its own generator)
import glob
gmap = {'amd64-linux': ['x86_64'], 'i386-linux': ['i386'], 'arm-linux': ['arm', 'armeb'], 'aarch64-linux': ['aarch64'],
        'ppc-linux': ['ppc'], 'ppc64-linux': ['ppc64', 'ppc64le'], 's390-linux': ['s390'], 's390x-linux': ['s390x'],
        'sparc-linux': ['sparc'], 'sparc64-linux': ['sparc64'], 'mips-o32-linux': ['mips', 'mipsel'],
        'mips-n64-linux': ['mips64', 'mipsel64'], 'mips-n32-linux': ['mips64n32', 'mipsel64n32']}
with open(os.path.join(out, 'syscalls_gdb.txt'), 'w') as f:
    f.write('# arch number name  (from /usr/share/gdb/syscalls/<arch>-linux.xml of this image: "generated using arch/*/syscall.tbl of the Linux kernel")\n')
    for g, arches in sorted(gmap.items()):
        p = f'/usr/share/gdb/syscalls/{g}.xml'
        if not os.path.exists(p): continue
        for arch in arches:
            for m in re.finditer(r'<syscall name="([^"]+)" number="(\d+)"', open(p).read()):
                f.write(f'{arch} {m.group(2)} {m.group(1)}\n')
print('syscalls ok')
