// Command gdbdiff lists the (arch, number) rows on which gdb's syscall tables and the
// library's published tables disagree (authoring-time helper for refdata/syscalls_gdb_skip.txt).
package main

import (
	"fmt"
	"sort"

	"github.com/elastic/go-libaudit/v2/auparse"

	"verif/refdata"
)

func main() {
	g := refdata.SyscallsGDB()
	var arches []string
	for a := range g {
		arches = append(arches, a)
	}
	sort.Strings(arches)
	for _, a := range arches {
		lib := auparse.AuditSyscalls[a]
		var nums []int
		for n := range g[a] {
			nums = append(nums, n)
		}
		sort.Ints(nums)
		agree, missing := 0, 0
		for _, n := range nums {
			ln, ok := lib[n]
			switch {
			case !ok:
				missing++
			case ln != g[a][n]:
				fmt.Printf("%s %d gdb=%s lib=%s\n", a, n, g[a][n], ln)
			default:
				agree++
			}
		}
		fmt.Printf("# %s: %d rows agree, %d only in gdb, %d only in the library\n", a, agree, missing, len(lib)-agree-(len(nums)-agree-missing))
	}
}
