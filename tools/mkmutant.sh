#!/bin/bash
# tools/mkmutant.sh <name> <file> <python-replace-expr old> <new>  : creates mutants/<name>.patch from a one-spot textual edit of /repo
set -e
name="$1"; file="$2"; old="$3"; new="$4"
cd /repo
python3 - "$file" "$old" "$new" <<'PY'
import sys
f,old,new=sys.argv[1:4]
s=open(f).read()
assert s.count(old)>=1, "pattern not found: "+old
s=s.replace(old,new,1)
open(f,'w').write(s)
PY
git diff > /verif/mutants/$name.patch
git checkout -- .
echo "wrote mutants/$name.patch"
