#!/usr/bin/env python3
"""Regenerates MANIFEST.json from the table below (keeps it schema-valid)."""
import json, sys, os
ROOT = os.path.dirname(os.path.dirname(os.path.abspath(__file__)))
props = [json.loads(l) for l in open(os.path.join(ROOT, 'properties.jsonl'))]
ids = [p['id'] for p in props]

MC = "model_checking"
EX = "exploration"
checks = {}
def add(pid, level, engine, technique, text, note, design):
    checks[pid] = dict(level=level, engine=engine, technique=technique, text=text, note=note, design=design)

REASM_NOTE = ("Trusted: Go toolchain; the instrumenter's rewrite table (sync->vsync, atomic->vatomic, time.Now->virtual clock) and shim fidelity; "
              "BFS state key ignores bytes beyond len of slices and message fields other than RecordType/Sequence (the all-sequences pass does not); "
              "driver bound of 2-3 records per buffered event; sequences inside one 2^24 window; virtual clock instead of real time.")
for pid, what in [
    ("C01", "every pushed non-EOE record is delivered exactly once, grouped by sequence in push order, never split (monitor M01: each callback must equal the shadow's undelivered list for that sequence element for element; empty shadow after Close)"),
    ("C02", "ascending delivery with the late-arrival exception (monitor M02: an event pending while a higher sequence is delivered is 'overtaken' and must not be delivered later)"),
    ("C03", "EventsLost per API call equals the sequence numbers skipped between in-order deliveries of that call (monitor M03, roll-over aware ord relative to the window base)"),
    ("C10", "at most maxInFlight buffered after each push, oldest never complete, every eviction outside Close has a cause (monitor M10: complete | over capacity | timeout elapsed)"),
    ("C19", "stale events flushed by the first Maintain/Push after the timeout, never earlier on account of time, Close flushes all ascending once, later Maintain/Close error and are silent, nil Stream rejected (monitor M19, virtual clock)"),
]:
    add(pid, MC, "seqx-reasm",
        "explicit-state BFS to closure over op sequences on the real Reassembler (canonical state keys, replay-based successors) + all op sequences to depth d without state merging",
        "Exhaustive for the stated alphabet: full reachable closure of (real object graph, monitor state) for every configuration (maxInFlight x timeout x window base incl. sequence 0 and the 2^32 roll-over), plus every op sequence up to depth 5/6 with no abstraction, plus a record-type pass. Decides: " + what + ". Level: bounded-exhaustive model checking of the implementation itself; nothing is sampled.",
        REASM_NOTE, "DESIGN.md §3.3, §5 " + pid)

add("C11", MC, "sched-conc",
    "stateless DFS over all thread interleavings (controlled cooperative scheduler at lock/atomic/call/callback granularity, whole tree when small else iterative preemption bound) + separate free-running -race pass",
    "Every schedule of every 2-thread program of 1-2 ops (and 3-thread programs) over {Push(a,mid),Push(a,final),Push(b,mid),Push(a,EOE),Maintain,Close} x maxInFlight 0-2 x passive/re-entrant Stream variants on the real instrumented Reassembler: whole schedule tree where small, otherwise all schedules within the preemption bound (quick 2, thorough 3). Oracle: no deadlock/panic, single-sequence callbacks, at-most-once delivery, every message whose push returned before Close was invoked delivered exactly once, exactly one Close succeeds, Maintain after a returned successful Close errors. Data-race freedom is sampled by a free-running -race pass of the same driver bodies (labelled sampling).",
    "Trusted: shim fidelity to sync/atomic semantics; sequential consistency; scheduling points at lock/atomic/call/callback granularity are sufficient only for data-race-free code, which the -race pass samples; preemption bound where the tree is large (reported per run).",
    "DESIGN.md §3.2, §5 C11")

def emit():
    out = {
        "version": 1,
        "setup_cmd": "./setup.sh",
        "hooks": {
            "guard": "verif",
            "enable": "no in-repo hooks: check-time AST rewrite of the current working tree (engine/instr) + `go build -overlay` that swaps sync/atomic/time/socket calls for scheduler, clock and socket seams and maps virtual shim packages under <repo>/vshim (DESIGN.md §3.1, §4); the tag `verif` is reserved and passed to no file in the repository",
            "baseline_off_cmd": "cd /repo && GOFLAGS=-mod=mod go test -vet=off -count=1 -timeout 25m ./...",
            "source_commits": [],
            "add_only": True,
        },
        "engines": [
            {"name": "instr", "path": "engine/instr", "serves_properties": ids, "kind_free_text": "check-time instrumenter: AST rewrite + go build -overlay, no files added to /repo"},
            {"name": "sched", "path": "engine/vshim/sched", "serves_properties": ["C11", "C15", "C17", "C18"], "kind_free_text": "controlled cooperative scheduler + stateless DFS over schedules with iterative preemption bounding"},
            {"name": "sched-conc", "path": "checks/conc", "serves_properties": ["C11"], "kind_free_text": "schedule exploration of Reassembler driver programs + free-running race pass"},
            {"name": "seqx-reasm", "path": "checks/reasm", "serves_properties": ["C01", "C02", "C03", "C10", "C19"], "kind_free_text": "explicit-state BFS/DFS over op sequences on the real Reassembler with property monitors"},
        ],
        "checks": [],
        "not_applicable": [],
        "notes": "All checks run against /repo's current working tree (VERIF_REPO overrides). Exit 0 held / 1 VIOLATION / 2 infrastructure error. known_findings.json lists recorded and fixed defects.",
    }
    for pid in ids:
        if pid in checks:
            c = checks[pid]
            out["checks"].append({
                "property_id": pid,
                "quick_cmd": f"./vcheck {pid} quick",
                "thorough_cmd": f"./vcheck {pid} thorough",
                "evidence_file": f"/verif/evidence/{pid}.json",
                "replay_cmd_template": f"./vcheck {pid} --replay {{path}}",
                "engine": c["engine"],
                "level_claimed": {"category": c["level"], "text": c["text"], "design_ref": c["design"]},
                "level_note": c["note"],
                "technique": c["technique"],
            })
        else:
            out["not_applicable"].append({"property_id": pid, "reason": "check not built yet in this revision (planned: see DESIGN.md §5); model checking applies, nothing is claimed until the check exists"})
    json.dump(out, open(os.path.join(ROOT, "MANIFEST.json"), "w"), indent=1)
    print("checks:", len(out["checks"]), "not_applicable:", len(out["not_applicable"]))
emit()
