#!/usr/bin/env python3
"""Regenerates MANIFEST.json from the table below (keeps it schema-valid)."""
import json, sys, os
ROOT = os.path.dirname(os.path.dirname(os.path.abspath(__file__)))
props = [json.loads(l) for l in open(os.path.join(ROOT, 'properties.jsonl'))]
ids = [p['id'] for p in props]

MC = "model_checking"
EX = "exploration"
checks = {}
def add(pid, level, engine, technique, text, note, design):
    checks[pid] = dict(level=level, engine=engine, technique=technique, text=text, note=note, design=design)

REASM_NOTE = ("Trusted: Go toolchain; the instrumenter's rewrite table (sync->vsync, atomic->vatomic, time.Now->virtual clock) and shim fidelity; "
              "BFS state key ignores bytes beyond len of slices and message fields other than RecordType/Sequence (the all-sequences pass does not); "
              "driver bound of 2-3 records per buffered event in the BFS (scale scenarios drive one quantity to 20000/40000 and 66000); loss counting only inside one 2^24 window (ordering also for numbers 2^31 apart); virtual clock instead of real time.")
for pid, what in [
    ("C01", "every pushed non-EOE record is delivered exactly once, grouped by sequence in push order, never split (monitor M01: each callback must equal the shadow's undelivered list for that sequence element for element; empty shadow after Close)"),
    ("C02", "ascending delivery with the late-arrival exception (monitor M02: an event pending while a higher sequence is delivered is 'overtaken' and must not be delivered later)"),
    ("C03", "EventsLost per API call equals the sequence numbers skipped between in-order deliveries of that call (monitor M03, roll-over aware ord relative to the window base)"),
    ("C10", "at most maxInFlight buffered after each push, oldest never complete, every eviction outside Close has a cause (monitor M10: complete | over capacity | timeout elapsed)"),
    ("C19", "stale events flushed by the first Maintain/Push after the timeout, never earlier on account of time, Close flushes all ascending once, later Maintain/Close error and are silent, nil Stream rejected (monitor M19, virtual clock)"),
]:
    add(pid, MC, "seqx-reasm",
        "explicit-state BFS to closure over op sequences on the real Reassembler (canonical state keys, replay-based successors) + all op sequences to depth d without state merging",
        "Exhaustive for the stated alphabet: full reachable closure of (real object graph, monitor state) for every configuration (maxInFlight x timeout x window base incl. sequence 0 and the 2^32 roll-over), plus every op sequence up to depth 6/7 with no abstraction, a record-type pass, timed configurations (records stamped around the virtual present or decades apart), windows straddling 2^16/2^24/2^31/2^32 and 2^31 jumps, raw pushes from a reused overwritten buffer, a re-entrant Stream, raw records whose sequence field overflows 32 bits, timeouts of 4 and 2.5 ticks, record types / texts / thresholds HARVESTED from the tree's reassembler.go (engine/harvest), pile-up schedules of 5-25 goroutines (C01), two Reassemblers in one process (all op sequences <=6/7, pushes after Close and to objects closed earlier, heap-disjointness invariant), Streams that close / let time pass and call Maintain / re-enter from callbacks, recycled message structs, timeouts of 250 years and MaxInt64, sequence chains 2^24-2^25 apart (C01), and scale scenarios (3000 gapped events released by one call, 20000/40000 records in one event, 20000/40000 buffered events). Decides: " + what + ". Level: bounded-exhaustive model checking of the implementation itself; nothing is sampled.",
        REASM_NOTE, "DESIGN.md §3.3, §5 " + pid)

add("C11", MC, "sched-conc",
    "stateless DFS over all thread interleavings (controlled cooperative scheduler at lock/atomic/call/callback granularity, whole tree when small else iterative preemption bound) + separate free-running -race pass",
    "Every schedule of every 2-thread program of 1-2 ops (and 3-thread programs) over {Push(a,mid),Push(a,final),Push(b,mid),Push(a,EOE),Maintain,Close} x maxInFlight 0-2 x passive/re-entrant Stream variants (incl. Close from a callback), a timed family (finite timeout, Tick+Maintain) and a payload family (records with disagreeing kernel timestamps, bytes pushed from a buffer the caller overwrites afterwards) , pile-up schedules (every thread driven to the same scheduling point, for every point) of 5-13 goroutines, a Stream with failing Close/Flush/Sync, a Stream whose first callback panics (recovered), the program family again with sequence numbers straddling 2^32, and sequential scale histories just above harvested thresholds, on the real instrumented Reassembler: whole schedule tree where small, otherwise all schedules within the preemption bound (quick 2, thorough 3). Oracle: no deadlock/panic, single-sequence callbacks, at-most-once delivery, every message whose push returned before Close was invoked delivered exactly once, exactly one Close succeeds, Maintain after a returned successful Close errors. Data-race freedom is sampled by a free-running -race pass of the same driver bodies (labelled sampling).",
    "Trusted: shim fidelity to sync/atomic semantics; sequential consistency; scheduling points at lock/atomic/call/callback granularity are sufficient only for data-race-free code, which the -race pass samples; preemption bound where the tree is large (reported per run).",
    "DESIGN.md §3.2, §5 C11")

CLIENT_NOTE = "Trusted: the simulated kernel (engine/ksim: ACK then data replies in the order the real kernel sends them, one reused poisoned receive buffer) behind the exported Netlink field; virtual clock for the EAGAIN back-off; each op starts with an empty socket queue; nothing ties the simulation to a real audit kernel (deliberately: the sandbox's audit subsystem is live)."
add("C08", MC, "envdfs-client",
    "deviation-bounded exhaustive DFS over environment answers (errno verdicts, unsolicited events, transient receive failures, malformed/foreign ACKs) x all short op histories, on the real client against a simulated kernel",
    "Every history of <=2 (quick) / <=3 (thorough) command methods x kernels holding 0/1/2 rules x every combination of at most 2 (3) non-default environment answers, executed on the real AuditClient. Plus sweeps for single commands: every nlmsg_flags bit on every reply, every unsolicited record type 1100-2999 and flags bit in front of every datagram, every errno 1-133/512-530/4095 as verdict, kernels holding 5 rules and 50 realistic audit_rule_data payloads (buflen 0-9 x tail 0-4), receive failures reported bare / %w-wrapped / as *os.SyscallError, extended ACKs (capped / uncapped, with attributes), transport sequence numbers starting below 2^32 / 2^31 / 2^16, whole schedule trees of 2-3 clients of one process on their own kernels, AUDIT_GET replies of 32/36/40/48 bytes, a reply overtaking its ACK, every datagram flush against an inaccessible page. Oracle per op: nil iff every verdict it depended on was 0 (tolerated deviations must not change the result), errors identify the errno (errors.Is or distinct text per errno), returned status/rules/count equal what the kernel sent for that request, a replaced/foreign/short ACK is never accepted.",
    CLIENT_NOTE, "DESIGN.md §3.3, §5 C08")
add("C16", EX, "enum-client",
    "bounded-exhaustive enumeration of setter arguments / reply buffers decoded at fixed UAPI offsets by an independent decoder",
    "Every setter x value domain (all one-bit / all-but-one-bit values, boundaries, all 2^10 (quick) / 2^16 (thorough) low and high half-words) x both wait modes: exactly one AUDIT_SET, REQUEST|ACK, 44-byte payload with one mask bit and the value at its UAPI offset; GetStatus over one-hot field patterns; 20 exported constants against numbers transcribed from linux/audit.h; GetStatus replies of every length 0..80 (flush against an inaccessible page) and then every setter on the same client; every ordered pair of setters x both modes x verdicts {0,EPERM,EINVAL} on one client (each call sends exactly one request); reply lengths 32-48 x every field x values 0-600 and every bit; a reply overtaking its ACK; every pair of tolerated fault patterns before ACK and before reply; FromWireFormat over every length 0..80 x 3 contents x 5 placements (incl. flush against PROT_NONE pages at either end: an access outside the buffer faults). Complete over the stated finite domains.",
    "Trusted: refdata transcription of linux/audit.h; little-endian host; simulated kernel records the request bytes.", "DESIGN.md §5 C16")
add("C17", MC, "envdfs-client",
    "exhaustive enumeration of well-formed op histories x errno assignments against a simulated kernel + all interleavings of concurrent Close under the controlled scheduler + free-running -race pass",
    "Every well-formed history of <=4 (quick) / <=5 (thorough) ops over {NoWait setters, WaitForPendingACKs, WaitForReply setter, SetPID both modes, GetRules, Close} x every assignment of errno {0,EPERM} to at most 2 (4) requests, followed by drain calls: each NoWait ACK consumed exactly once and in order, first error returned, nothing pending => zero receives, Close closes once / clears the PID iff SetPID was used / later calls are no-ops, rule data unchanged by later receives (poisoned reused buffer, datagrams flush against an inaccessible page); receive faults inside WaitForPendingACKs; Close results {nil,EINTR,EBADF,EIO}; sweeps of every reply flags bit and every errno over histories of <=3 ops; 300/1000/harvested-N pending ACKs with refused requests drained in stages; all 210 interleavings of three clients in one process; a GetStatus whose reply names this very process; transport sequence numbers wrapping past 2^32 while requests are pending; every schedule of 2-3 threads calling Close concurrently; data races sampled by a -race pass.",
    CLIENT_NOTE + " Stop-or-continue after the first ACK error is not fixed by the statement: either accepted.", "DESIGN.md §5 C17")
add("C18", EX, "enum-netlink",
    "bounded-exhaustive enumeration of messages/datagrams over a simulated socket layer behind the syscall seam + all interleavings of concurrent Send under the controlled scheduler + -race pass + conformance replay against the real kernel's verbatim echo on NETLINK_ROUTE",
    "Send: payload lengths (all 0..8970 in thorough) x 6 (type,flags) x header pid {0,given} decoded at fixed nlmsghdr offsets, sequence = returned value, strictly increasing; Receive: lengths 0..64,100,1000,8985,8986 x 3 contents x 8 senders x blocking/non-blocking x preceding errno: data only for (>=16 bytes and kernel sender), unchanged; with nil / working / failing response writer; audit parser: every length 0..64 with cap==len; sendto refusing calls: every failure pattern over 6 Sends x 4 errnos; concurrent Send: every interleaving of 2-3 threads x 1-3 sends, some refused (distinct, own-datagram, increasing); thorough: the modelled wire bytes equal the kernel's verbatim NLMSG_ERROR echo on NETLINK_ROUTE and a user-space NETLINK_USERSOCK multicast is rejected.",
    "Trusted: simulated socket layer (vsys) - tied to the real socket layer by the conformance pass (thorough tier; skipped and recorded if AF_NETLINK is unavailable); NETLINK_AUDIT is never opened.", "DESIGN.md §5 C18")
PARSE_NOTE = "Trusted: the independent formatter / kernel-side encoder in the harness (audit_log_untrustedstring rule, struct sockaddr layouts), refdata errno table; complete inside the stated alphabets and lengths, silent outside them."
add("C04", EX, "enum-parse",
    "bounded-exhaustive input enumeration against an independent header formatter (complete for the 65536 types and 1000 millisecond values; full boundary products; all prefixes / single-byte corruptions for the error side)",
    "All 65536 record types x 3 spellings (name, lower case, UNKNOWN[n]) (x 27 header/body variants in thorough), all 1000 ms strings, the full product of boundary types x seconds (to 2^34-1) x ms x sequences (to 2^32-1, leading zeros) x 30 hostile bodies, and for the error side every proper prefix and every single-byte substitution/deletion of boundary headers plus out-of-range numbers and unknown type names; every byte value and a shared menu of multi-byte fragments (all Unicode white space, BOM/zero-width, malformed UTF-8) at start/middle/end of the body; bodies up to 2^20 bytes; key=value pairs over the string literals harvested from the tree's auparse package x record-type classes; header pairs that collide under fnv/crc/adler hashes (engine/collide) parsed back to back; caller-settable exported fields set to hostile values. Oracle: RecordType/Timestamp(UTC)/Sequence/RawData equal what was written, ParseLogLine and Parse agree, ToMapStr header keys win over body keys - also after the caller edited the map it was given -, must-fail headers yield (nil, err).",
    PARSE_NOTE, "DESIGN.md §5 C04")
add("C05", EX, "enum-parse",
    "bounded-exhaustive token-sequence enumeration with crash-isolated workers (panic recovery, no-progress watchdog, trace re-run)",
    "All token sequences of length <=3 (quick) / <=4 (thorough, 5.4e7 inputs) over an alphabet holding one token per literal/branch the parser reacts to, as whole lines and as bodies behind a valid header x 16 record-type classes; structured key=token bodies; all 65536 types x short bodies; every truncation of every golden log line; long values (60..70000) x 13 fillings x 24 key prefixes; padding runs of every length 0..80 behind 7 header forms; hex multi-key lists with repeats; the multi-byte menu in keys/values/quotes of every record-type class; numeric fields x edges of every width 2^7..2^64; key pairs differing by -/_/./case asked 24 times; sequences over harvested literals; case variants of the line tokens behind length-changing runes; every byte at every position of golden socket addresses; 8 earlier messages re-inspected after other parses. Oracle: no panic, no hang, msg==nil <=> err!=nil, Data/Tags/ToMapStr repeatable, error key present iff Data failed.",
    PARSE_NOTE, "DESIGN.md §5 C05")
add("C12", EX, "enum-parse",
    "bounded-exhaustive round trip: independent kernel-side encoder -> Data(), over all short strings of a byte-class alphabet, all IPv4 ports, table-complete syscall/errno enumeration",
    "Every string of length <=3 (quick) / <=4 (thorough) over a 14-byte class alphabet (minus the stated exclusions) for each decoded field of SYSCALL/CWD/PATH/PROCTITLE/EXECVE/TTY/USER_CMD/USER_LOGIN; all 65536 IPv4 ports x addresses, every single-octet variation, IPv6 and unix addresses; every (arch, nr) of the published tables and nr+-1 for SYSCALL and SECCOMP; every errno 1..4095 both signs (names checked against asm-generic errno, alias-safe); result/unset/errno normalisation for ALL 65536 record types; placeholder dropping (key absent, record intact) and 41 sentinel-looking values that must stay; every byte value, long values and harvested literals per decoded field, also in records whose other fields take rare paths (unknown syscall / ABI, SECCOMP); every socket address length 16..128; every architecture code x errnos 1..34.",
    PARSE_NOTE, "DESIGN.md §5 C12")

RULE_NOTE = "Trusted: refdata transcription of linux/audit.h / errno / stat constants; the harness's fixed-offset decoder of struct audit_rule_data and its structural knowledge of the rule it rendered; amd64 little-endian host (b64=x86_64, b32=i386); complete inside the stated menus, silent outside them."
add("C06", EX, "enum-rule",
    "bounded-exhaustive enumeration of structurally generated rules, bytes decoded at fixed UAPI offsets by an independent decoder and compared word for word with an expectation built from refdata",
    "Every list x action x -a/-A x 0-3 keys; every field x 8 operators x a value menu per field class x lists; all 121 inter-field pairs x 3 operators; ordered pairs (triples in thorough) of a 16-filter subset; field counts 0..66 with 0/1/3 keys; every syscall number 0..2100 and extremes to 2^64 x {no arch,b64,b32}; number pairs in both -S forms; every name of the syscall tables of all seven ABIs with the expected number taken from gdb's transcription of the kernel's syscall.tbl where it knows the row (refdata/syscalls_gdb.txt); every architecture name x numbers 0..600 and 12 names (gdb tables of 18 ABIs); key filters vs -k keys in every arrangement; the same field twice; path/dir/exe values that exist on disk; shaped syscall sets (whole mask words ...); key lists with empty / comma / dash members; file watches x all 16 permission subsets x file/dir/missing x 0-2 keys. A rejected rule is always acceptable; an accepted rule must equal the expectation in flags, action, every (field,operator,value) triple in order, joined keys, buffer layout, buflen, padding, total length and mask bits.",
    RULE_NOTE, "DESIGN.md §5 C06")
add("C07", EX, "enum-rule",
    "bounded-exhaustive round trip Build -> ToCommandLine -> Parse+Build -> ToCommandLine over the C06 domain restricted to the stated C07 domain",
    "The C06 enumeration restricted to the property's domain (no whitespace/quotes in strings, watch-shaped rules agreeing with a scratch filesystem, resolveIds=false, amd64) plus every watch-shaped syscall rule (perm + path/dir + key in every order, !=, never, no path), watches through every kind of symlink, rules carrying up to 33 KiB of strings in total, multi-byte text and every printable ASCII character in names of existing files / keys: the listed text must be accepted, re-encode to byte-identical wire data and list to the same text again.",
    RULE_NOTE, "DESIGN.md §5 C07")
add("C13", EX, "enum-rule",
    "bounded-exhaustive enumeration of hostile Rule structs, byte slices (all prefixes, all <=2-word boundary corruptions of valid rules) and rule lines, with crash-isolated workers under ulimit -v and a per-call allocation meter",
    "Rule structs over invalid lists/actions/filters/syscall strings (across 2047/2048, 2^31, 2^32, 2^63), up to 200 filters, over-long keys and paths, every AccessType, foreign and nil rules; every prefix of 13 valid wire rules; every one of the 260 header words replaced by 26 boundary values (deviation 1) and pairs of 15 structural words x 16 values (deviation 2); all token sequences <=3/4 over 43 line tokens; watches on every kind of link (loop, dangling, below a file), a FIFO nobody writes to, a socket, /dev and /proc files; odd words (brackets, signs) for every name/number field; words of 63..65536 bytes of 15 byte classes in 13 positions; guard-page placements of the decoder input. Oracle: value xor error, no panic / hang / worker death, allocation <= 1 MiB + 64 x input, ToCommandLine success implies field_count <= 64 and string lengths within buflen within the slice.",
    RULE_NOTE + " Workers run under ulimit -v 6 GiB; a worker that dies is re-run in trace mode to name the case.", "DESIGN.md §5 C13")
add("C14", EX, "enum-rule",
    "bounded-exhaustive enumeration of flag-group sequences against a reference reader of the token list",
    "All sequences of <=3 (quick, 9.3e4) / <=4 (thorough, 4.2e6) flag groups in any order over a 52-group menu, plus all sequences of <=3 groups in every spelling the flag package accepts (-f arg, -f=arg, --f arg, --f=arg, booleans with explicit values), arguments that exist on disk / go through links, the multi-byte menu inside every kind of argument, the empty word, every string of <=5 characters over {a,b,=,comma,!,>} as -F value, values that are literals in some notation (Go/JSON/C/shell/URL/HTML), and the same lines joined by LF / TAB / CR LF / several blanks; the harness shell-quotes the tokens it chose, a small reference reader of those tokens yields MustReject (mixed kinds, both/neither -a/-A, repeated -a/-A/-w, positional words, -F/-C text without a complete field/operator/value) or the Expected rule (complete text before/at/after the first operator; comma-split lists in order). An error is always acceptable; an accepted line must equal Expected.",
    RULE_NOTE, "DESIGN.md §5 C14")

add("C09", EX, "enum-coalesce",
    "bounded-exhaustive enumeration of record groups rendered from structured descriptions with unique tagged values; complete over all 2^16 st_mode values and all 2^16 record types",
    "(a) all 65536 st_mode values on the PATH record selected for an open event: File block mirrors the PATH, Mode == %04o(mode&07777), object type agrees with S_IFMT for the 7 valid types; (b) every order of every subset of <=3 (quick) / <=4 (thorough) of 8 auxiliary records with the SYSCALL at every position x 6 syscalls x 3 collision modes x with/without EOE: identity from the first record, every (k,v) of every record's own Data() (separate parse) is a leaf of the JSON-flattened event or named by a warning, File block mirrors one PATH consistently; (c) every record type as a single record; (d) error-side groups yield (nil, error); (e) for every record type, 2 and 3 records of that type in one compound event; (f) file names / cwd from the multi-byte menu hex-encoded as the kernel does, relative names (File.Path mirrors the bytes); (g) every native syscall x hex argument sets x success yes/no x two modes; for every record type a group without SYSCALL is an error; (h) SYSCALL records lacking a field another record carries, path shapes a cleaning step would alter; (i) edge header times and hand-made messages.",
    "Trusted: the harness's record renderer and reflective flattening of the listed places; refdata S_IF* constants; values are unique tags so containment is exact (short format-constrained values can coincide with other leaves, which only weakens detection).", "DESIGN.md §5 C09")
add("C15", MC, "seqx-coalesce",
    "explicit enumeration of all call histories over a pool of persistent message groups with differential and snapshot oracles + schedule exploration of concurrent coalescing/ID resolution through the shared caches + free-running -race pass",
    "Every history of <=3 (quick) / <=4 (thorough) ops over {CoalesceMessages(g), CoalesceMessages(g)+ResolveIDsFromCaches for 12 pooled groups (compound events sharing a record-type normalisation, user and group ALIAS names, a multi-key tag list with a repeat), ResolveIDsFromCaches on an earlier event} against a simulated non-injective account database behind an os/user seam; the per-call clauses over every group of the C09 enumerations (8e5 groups); a visiting-order sweep (every record type x every native syscall, three orders, fresh processes: the outcome for one group does not depend on what was coalesced before); a sweep over every record type of normalizations.yaml; 70000/300000 unrelated events through the global caches: after every op the inputs' Data/Tags/ToMapStr are unchanged, the event equals the one from a fresh parse (differential), every earlier event equals its snapshot, ResolveIDs equals ResolveIDs on a fresh equal event; whole schedule trees (else preemption-bounded) of 2-3 threads x 1-2 events resolving IDs through the global caches (scheduler points at the cache mutex) equals the sequential result; data races sampled by a -race pass.",
    "Trusted: shim fidelity; JSON view of Event plus sorted warnings as the equality; account lookups answered by the simulated database (engine/vshim/vuser); single-record one-id events in the concurrent part so that Go's random map iteration cannot perturb the step trace.", "DESIGN.md §5 C15")
add("C20", EX, "enum-tables",
    "complete enumeration of every table row and of all 65536 record type codes",
    "All 65536 codes String->GetAuditMessageType and text marshalling; every errno row (alias-safe, numbers vs asm-generic); every arch name/code through Build and ToCommandLine (codes vs linux/audit.h); every name of every per-arch syscall table (duplicates; Build by name sets exactly the table's bit); every rule field x operator and every inter-field pair through Build -> code (= linux/audit.h) -> ToCommandLine -> same name; every record_types / syscalls / has_fields entry of the tree's normalizations.yaml (resolvable, deterministic across loads and across qualifier-field subsets); GetAuditEventType over all types twice and in four visiting orders in fresh processes; nine entry points each as the FIRST library call of a fresh process (digest equals that of a process that has done everything); MarshalText after the caller overwrote the bytes it was given; every errno spelling through -F exit=-NAME; every architecture name x syscall numbers 0..600 listed and rebuilt; every table name also behind a negated arch filter.",
    "Trusted: refdata transcriptions; the tree's normalizations.yaml is read from the repository and compared with the embedded copy through three spot events.", "DESIGN.md §5 C20")

# round 7 (DESIGN.md §12.6): what was added per property, appended to the level text
R7 = {
 "C01": "Round 7: a Stream that owns the slice it is handed (fills spare capacity, clears elements); sequences congruent modulo k*(maxInFlight+d) and powers of two; a panic inside an API call is a violation; type-width scale scenarios (2^8, 2^16 buffered events).",
 "C02": "Round 7: buffers of 2^8+500 and 2^16+500 events (fill, middle insert, one-Maintain flush) with logarithmic shadow bookkeeping; raw headers whose sequence numbers are decimal prefixes of one another.",
 "C03": "Round 7: aged objects (2^16-20 delivered events with gaps) and type-width scale scenarios also under the loss monitor.",
 "C10": "Round 7: records with the text a kernel writes (SYSCALL items=2, PATH, EXECVE argc=3, PROCTITLE) through both entry points; decimal-prefix headers.",
 "C19": "Round 7: aged objects (2^8-20, 2^16-20 delivered events, then a chain of 40 incomplete events 3 ticks apart with Maintain after each); whole schedule trees of a pushing and a closing goroutine (what Close itself delivers is ascending, nothing twice, loss accounting).",
 "C11": "Round 7: the driver programs free-running on a GOARCH=386 build (crash = violation); counter acceleration (integer fields that move under Close/Maintain on a closed object set next to the limits of their type).",
 "C08": "Round 7: process-identity seam (uid/euid/pid/environment), receive latency and rotating receive buffers in the simulated kernel, socket-stack pass over descriptor numbers and port ids.",
 "C16": "Round 7: setters under other process identities; socket-stack pass.",
 "C17": "Round 7: ops 'time passes' and 'effective uid changes'; socket-stack pass.",
 "C18": "Round 7: descriptors 0..65535, caller buffers at every alignment.",
 "C04": "Round 7: 40 complete multi-byte control sequences (CSI/OSC/C1, overstrike, mark-up, escapes) in bodies; the exported Timestamp re-zoned to 21 zones before ToMapStr.",
 "C05": "Round 7: every token / harvested literal in front of the parenthesised header; messages snapshot, handed to aucoalesce.CoalesceMessages (+ResolveIDs, twice, reversed) and compared again (2200 groups).",
 "C12": "Round 7: every (arch, nr) x a0..a3 over 0..0x28 and pointer-like values; values after the message was handed to the coalescer equal those of an untouched copy.",
 "C06": "Round 7: 'all' at every position of syscall lists (genuine defect found and fixed: 22b0837); watches with no free file descriptor; file-system histories (a name changes kind while the process lives); string/numeric/key filter interleavings.",
 "C07": "Round 7: file-system histories; 64 literal-looking words as keys, values and watch paths; big rules up to 256 KiB.",
 "C13": "Round 7: the whole C06 rule-spec domain under the totality oracle; big rules (64 strings x 4096 bytes) decoded under guard-page placements.",
 "C14": "Round 7: references to every environment variable of the process in 19 notations, ~, format verbs; all list x action pairs for -a/-A alone and as ordered pairs.",
 "C09": "Round 7: every known record type first/second with res= in six spellings against succeeded/failed SYSCALLs; pairs of record types sharing a key; pieced EXECVE arguments.",
 "C15": "Round 7: cold-cache concurrent harness (caches per execution, scheduling point inside the account database, channel operations of the code under test modelled by vshim/vchan); six repetitions in the recoalesce oracle; the C09 round-7 groups.",
 "C20": "Round 7: the errno table through its consumers (SYSCALL/SECCOMP exit=-N, ToCommandLine -F exit=-N) for N=1..4200.",
}

# round 8 (DESIGN.md §12.7)
R8 = {
 "C01": "Round 8: one event with k records for every k<=1100 leaving by overflow/timeout/Close/EOE; package-level counters of the tree set next to the limits of their type.",
 "C02": "Round 8: complete and incomplete events arriving below the whole buffer (fixed sizes and every harvested threshold).",
 "C03": "Round 8: whole-history invariant (nothing between the first and the highest delivered event goes missing unreported) under a re-entrant Stream.",
 "C10": "Round 8: below-head arrivals at every harvested threshold; package-level counters.",
 "C19": "Round 8: package-level integer variables exposed by the instrumenter and accelerated across their wrap; records lost at Close reported under this property too.",
 "C11": "Round 8: two Reassemblers at a time in the free-running race pass; a Stream that is a sync.Locker and locks itself in its callbacks.",
 "C08": "Round 8: rule dumps with coinciding payloads; acknowledgements whose echoed request is renumbered / zero-filled / all ones; exported constructors over the socket seam; ParseNetlinkError for every short length, 140 verdict words, guard-page placements.",
 "C16": "Round 8: FromWireFormat decoding in place (buffer aliasing the receiver); SetPID under /proc/self views of nested PID namespaces (file seam).",
 "C17": "Round 8: afterlife pass (client closed, dropped, three garbage-collection rounds: no further kernel-side activity); k<=100 (failure, event) pairs before every acknowledgement.",
 "C18": "Round 8: clients with a multicast subscription that send; self-describing payloads; afterlife pass.",
 "C04": "Round 8: records stamped around the present; Unicode digits and every multi-byte fragment inserted at every header position; caller's line unchanged and parsed from read-only memory.",
 "C05": "Round 8: caller's text unchanged after every parse; EXECVE with up to 131073 present arguments; lower-case type names.",
 "C12": "Round 8: visiting-order pass (16 byte strings x 12 decoding contexts x 13 orders, fresh processes); 17 IPv6 address classes x 10 scope ids; SECCOMP compat values.",
 "C06": "Round 8: shared backing arrays (Build does not write behind the length of a slice it was given); unclean watch path spellings.",
 "C07": "Round 8: key lists around the joined-length limit; every printable character at the edges of a key.",
 "C14": "Round 8: requoted line pairs parsed one after the other; one flag repeated 2..65536 times next to a flag of another operation.",
 "C15": "Round 8: account database disagreeing with the built-in root entries, op 'two hours pass', direct LookupID/LookupName ops.",
 "C09": "Round 8: related values across fields and records (comm a prefix of the exe's file name, title a prefix of the EXECVE arguments, PATH names vs cwd vs exe).",
 "C20": "Round 8: foreign normalisation configurations loaded through the exported loader leave the built-in selection unchanged; per-architecture syscall tables through SYSCALL and SECCOMP records (compat 0/1/absent).",
 "C13": "Round 8: (both changes caught by the round-7 rule-spec and empty-string generators).",
}

# round 9 (DESIGN.md §12.8)
R9 = {
 "C04": "Round 9: bodies that repeat the record's own header.",
 "C05": "Round 9: every sequence <=5 over the tokens of the AVC head.",
 "C12": "Round 9: unnamed / abstract unix sockets (the path key is present and empty).",
 "C14": "Round 9: words the flag package treats specially (-h, --help ...) at every position.",
 "C09": "Round 9: groups without SYSCALL whose later records carry no fields; a value and its hex spelling under one key in two records.",
 "C20": "Round 9: exported tables unchanged by use (digest before/after, unknown inputs through every consumer); 16 repetitions of the selection check.",
 "C08": "Round 9: reply nlmsg_pid changing per reply, nlmsg_len understating/overstating the datagram; package-level counters.",
 "C16": "Round 9: GetStatus replies announcing more than arrived after a longer reply; GetStatus naming this process then every setter.",
 "C17": "Round 9: transports that panic once in Close / in the n-th Send (caller recovers); package-level counters.",
}
# rounds 10 and 11 (DESIGN.md §12.9, §12.10)
R10 = {
 "C01": "Rounds 10/11: a Stream that pushes a lower complete event from a callback; a caller that overwrites Sequence after pushing; Streams with every method of every interface the tree declares; old objects (clock advanced up to 2^31 s); terminating record at positions 2^8 / 2^16.",
 "C02": "Rounds 10/11: a Stream that pushes a lower complete event from a callback (the order clause applies as stated); a caller that overwrites the Sequence field of its struct after PushMessage returned.",
 "C03": "Rounds 10/11: Streams that also have every method of every interface type the tree's root package declares (generated at check time), so that an optional interface cannot divert the loss reports.",
 "C10": "Rounds 10/11: the terminating record (or EOE) as exactly the n-th record of its event for n around 2^8, 2^16 and their multiples.",
 "C19": "Rounds 10/11: objects aged by an hour ... 2^31 seconds of virtual time before the first push (deadline resolution does not depend on age); time.Location is no longer treated as shared mutable storage.",
 "C11": "Rounds 10/11: schedules explored from non-initial states (events buffered before the threads start, above / below the racing sequences, list at and below capacity), also in the free-running -race pass.",
 "C18": "Rounds 10/11: every preset Header.Len around the true and the aligned length for every payload length.",
 "C13": "Rounds 10/11: decode histories in one process (the whole rule, then its prefixes, alternating); every string of <=3 units over byte classes as the value of 14 fields.",
 "C15": "Rounds 10/11: every subset of PATH keys, PATH pairs agreeing / differing in every combination of inode, dev, name x name types; records repeating k-1 SYSCALL fields.",
 "C09": "Rounds 10/11: PATH key subsets and PATH pairs; auxiliary records repeating k-1 SYSCALL fields verbatim (k = 2..27, 16 repetitions); records re-stamped with sub-millisecond instants.",
 "C07": "Rounds 10/11: every field x every list together with an explicit syscall list.",
 "C06": "Rounds 10/11: every field x every list together with an explicit syscall list (mask = exactly the requested bits).",
 "C04": "Rounds 10/11: headers whose seconds / sequences differ by 2^k parsed and rendered back to back; one line buffer reused for the next line (same address and length) for every pair of type names of equal length.",
 "C05": "Rounds 10/11: every address family 0..46 (thorough 0..255) x 9 lengths x one byte anywhere set to each of 8 values.",
 "C12": "Rounds 10/11: success= and res= (and look-alike keys) in one record, both orders.",
 "C14": "Rounds 10/11: zero-length -w / -p values on the line in every combination.",
 "C16": "Rounds 10/11: the setter pass repeated under the UNAME26 personality (uname reports a 2.6 release).",
 "C17": "Rounds 10/11: acknowledgements of another type inside WaitForPendingACKs followed by a second wait; the n-th Send failing with each of 20 Go error values (os.ErrClosed, net.ErrClosed, io.EOF, wrapped, opaque ...): the socket is closed exactly once.",
 "C20": "Rounds 10/11: every arch name x every errno name through builder and printer.",
}

def emit():
    out = {
        "version": 1,
        "setup_cmd": "./setup.sh",
        "hooks": {
            "guard": "verif",
            "enable": "no in-repo hooks: check-time AST rewrite of the current working tree (engine/instr) + `go build -overlay` that swaps sync/atomic/channel/time/socket/os-user-lookup/os-identity calls for scheduler, clock, socket, account-database and process-identity seams adds (in the overlay only) a generated accessor for package-level integer variables and a generated Stream wrapper (VerifFullStream) with every method of every interface the root package declares, and maps virtual shim packages under <repo>/vshim (DESIGN.md §3.1, §4); the tag `verif` is reserved and passed to no file in the repository",
            "baseline_off_cmd": "cd /repo && GOFLAGS=-mod=mod go test -vet=off -count=1 -timeout 25m ./...",
            "source_commits": [],
            "add_only": True,
        },
        "engines": [
            {"name": "instr", "path": "engine/instr", "serves_properties": ids, "kind_free_text": "check-time instrumenter: AST rewrite + go build -overlay, no files added to /repo"},
            {"name": "guard", "path": "engine/guard", "serves_properties": ["C08", "C16", "C17"], "kind_free_text": "buffers flush against PROT_NONE pages + SetPanicOnFault: an access outside the buffer faults"},
            {"name": "collide", "path": "engine/collide", "serves_properties": ["C04"], "kind_free_text": "deterministic birthday search for equal-length texts that collide under common 32-bit hashes / weak keys"},
            {"name": "harvest", "path": "engine/harvest", "serves_properties": ["C01", "C02", "C03", "C04", "C05", "C10", "C11", "C12", "C17", "C19"], "kind_free_text": "reads string literals, folded integer constants and AUDIT_ identifiers from the tree under test at check time; generators turn them into tokens, record types and scale scenarios"},
            {"name": "sched", "path": "engine/vshim/sched", "serves_properties": ["C01", "C08", "C11", "C15", "C17", "C18", "C19"], "kind_free_text": "controlled cooperative scheduler + stateless DFS over schedules with iterative preemption bounding; channel operations of the code under test are scheduling points (engine/vshim/vchan); stuck-thread watchdog"},
            {"name": "seams", "path": "engine/vshim", "serves_properties": ["C06", "C07", "C08", "C14", "C15", "C16", "C17", "C18"], "kind_free_text": "seams the instrumenter routes to: virtual clock (vtime), socket layer (vsys), account database (vuser), process identity, environment and files the process reads about itself (vos)"},
            {"name": "sched-conc", "path": "checks/conc", "serves_properties": ["C11"], "kind_free_text": "schedule exploration of Reassembler driver programs + free-running race pass"},
            {"name": "envdfs-client", "path": "checks/client", "serves_properties": ["C08", "C17"], "kind_free_text": "deviation-bounded environment DFS over a simulated kernel (engine/ksim, engine/envdfs)"},
            {"name": "enum-client", "path": "checks/client", "serves_properties": ["C16"], "kind_free_text": "exhaustive enumeration of setter arguments / reply buffers"},
            {"name": "enum-netlink", "path": "checks/netlink", "serves_properties": ["C18"], "kind_free_text": "enumeration over a simulated socket layer + schedule exploration of concurrent Send"},
            {"name": "enum-parse", "path": "checks/parse", "serves_properties": ["C04", "C05", "C12"], "kind_free_text": "bounded-exhaustive input enumeration with crash isolation (engine/enumx)"},
            {"name": "enum-rule", "path": "checks/rulechk", "serves_properties": ["C06", "C07", "C13", "C14"], "kind_free_text": "bounded-exhaustive rule enumeration against an independent audit_rule_data decoder and a token-list reference reader"},
            {"name": "enum-coalesce", "path": "checks/coalesce", "serves_properties": ["C09"], "kind_free_text": "tagged-value record group enumeration"},
            {"name": "seqx-coalesce", "path": "checks/coalesce", "serves_properties": ["C15"], "kind_free_text": "call-history enumeration + schedule exploration of the ID caches"},
            {"name": "enum-tables", "path": "checks/tables", "serves_properties": ["C20"], "kind_free_text": "complete table enumeration"},
            {"name": "seqx-reasm", "path": "checks/reasm", "serves_properties": ["C01", "C02", "C03", "C10", "C19"], "kind_free_text": "explicit-state BFS/DFS over op sequences on the real Reassembler with property monitors"},
        ],
        "checks": [],
        "not_applicable": [],
        "notes": "All checks run against /repo's current working tree (VERIF_REPO overrides). Exit 0 held / 1 VIOLATION / 2 infrastructure error. known_findings.json lists recorded and fixed defects.",
    }
    for pid in ids:
        if pid in checks:
            c = checks[pid]
            out["checks"].append({
                "property_id": pid,
                "quick_cmd": f"./vcheck {pid} quick",
                "thorough_cmd": f"./vcheck {pid} thorough",
                "evidence_file": f"/verif/evidence/{pid}.json",
                "replay_cmd_template": f"./vcheck {pid} --replay {{path}}",
                "engine": c["engine"],
                "level_claimed": {"category": c["level"], "text": c["text"] + " " + R7.get(pid, "") + " " + R8.get(pid, "") + " " + R9.get(pid, "") + " " + R10.get(pid, ""), "design_ref": c["design"] + ", §12.6, §12.7, §12.8, §12.9, §12.10"},
                "level_note": c["note"],
                "technique": c["technique"],
            })
        else:
            out["not_applicable"].append({"property_id": pid, "reason": "check not built yet in this revision (planned: see DESIGN.md §5); model checking applies, nothing is claimed until the check exists"})
    json.dump(out, open(os.path.join(ROOT, "MANIFEST.json"), "w"), indent=1)
    print("checks:", len(out["checks"]), "not_applicable:", len(out["not_applicable"]))
emit()
