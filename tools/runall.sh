#!/bin/bash
# tools/runall.sh [quick|thorough] — runs every claimed check, validates every evidence file against the schema.
cd "$(dirname "$0")/.."
tier="${1:-quick}"
fail=0
for p in $(jq -r '.checks[].property_id' MANIFEST.json); do
  s=$(date +%s)
  out=$(timeout 7200 ./vcheck "$p" "$tier" 2>&1); rc=$?
  e=$(( $(date +%s) - s ))
  echo "$p rc=$rc ${e}s :: $(echo "$out" | grep -c '^KNOWN-FINDING') known :: $(echo "$out" | tail -1 | cut -c1-110)"
  if [ $rc -ne 0 ]; then fail=1; echo "$out" | grep -E "VIOLATION|ERROR|signature" | head -5; fi
done
python3-vt - <<'PY'
import json,jsonschema,glob
jsonschema.validate(json.load(open('/verif/MANIFEST.json')), json.load(open('/root/.vp/MANIFEST.schema.json')))
s=json.load(open('/root/.vp/EVIDENCE.schema.json'))
m=json.load(open('/verif/MANIFEST.json'))
for c in m['checks']:
    e=json.load(open(c['evidence_file'])); jsonschema.validate(e,s)
    assert e['level']==c['level_claimed']['category'], (c['property_id'], e['level'])
print('manifest + evidence schema ok')
PY
exit $fail
