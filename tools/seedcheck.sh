#!/bin/bash
# tools/seedcheck.sh <Cnn> <worktree> [name]
# Confirms a seeded change independently (suite green with patch, demo fails with / passes without),
# runs the property's checks against it in /repo, records everything under seeded/<name>/.
set -u
prop="$1"; wt="$2"; name="${3:-$prop}"
export GOFLAGS=-mod=mod GOPROXY=off GOSUMDB=off GOTOOLCHAIN=local
cd /verif
mkdir -p .work
exec 9>.work/repo.lock
flock 9
out="seeded/$name"; mkdir -p "$out"
[ -f "$wt/patch.diff" ] || { echo "no patch.diff in $wt"; exit 2; }
cp "$wt/patch.diff" "$out/patch.diff"
[ -f "$wt/meta.json" ] && cp "$wt/meta.json" "$out/agent_meta.json"
demo=$(cd "$wt" && git status --porcelain | grep '^??' | awk '{print $2}' | grep '_test.go$' | head -1)
[ -n "$demo" ] || { echo "no demo test found"; exit 2; }
cp "$wt/$demo" "$out/$(basename "$demo").txt"
demodir=$(dirname "$demo")
# 1. state: patch applied?
cd "$wt"
if git apply --check -R patch.diff 2>/dev/null; then :; else git apply patch.diff || { echo "cannot apply patch in worktree"; exit 2; }; fi
pkgs=$(git diff --name-only | xargs -n1 dirname | sort -u | sed 's#^#./#' | tr '\n' ' ')
echo "== touched packages: $pkgs ; demo: $demo"
build_ok=no; go build ./... >/dev/null 2>&1 && build_ok=yes
# suite with patch, demo excluded
mv "$demo" "$demo.off"
suite=RED
if echo "$pkgs" | grep -qw '\./\.'; then
  flock /tmp/roottest.lock go test -vet=off -count=1 $pkgs >/tmp/seed-suite-$name.log 2>&1 && suite=green
else
  go test -vet=off -count=1 $pkgs >/tmp/seed-suite-$name.log 2>&1 && suite=green
fi
mv "$demo.off" "$demo"
# demo with patch (only the demo's tests)
tests=$(grep -ho '^func Test[A-Za-z0-9_]*' "$demo" | sed 's/func //' | paste -sd'|')
runtest() { if [ "$demodir" = "." ]; then flock /tmp/roottest.lock go test -vet=off -count=1 -run "^($tests)\$" "./$demodir" ; else go test -vet=off -count=1 -run "^($tests)\$" "./$demodir"; fi; }
with=passes; runtest >/tmp/seed-demo-with-$name.log 2>&1 || with=fails
git apply -R patch.diff
without=fails; runtest >/tmp/seed-demo-without-$name.log 2>&1 && without=passes
git apply patch.diff
echo "== build=$build_ok suite_with_patch=$suite demo_with_patch=$with demo_without_patch=$without"
# 2. our checks
cd /verif
git -C /repo diff --quiet || { echo "repo dirty"; exit 2; }
git -C /repo apply "$PWD/$out/patch.diff" || { echo "patch does not apply to /repo"; exit 2; }
trap 'git -C /repo checkout -- . 2>/dev/null' EXIT
q=$(timeout 1800 ./vcheck "$prop" quick 2>&1); qrc=$?
qsig=$(echo "$q" | grep -m3 'signature:' | sed 's/^ *signature: //' | paste -sd';')
echo "== quick rc=$qrc :: $qsig"
trc=-; tsig=
if [ $qrc -ne 1 ] && [ "${THOROUGH:-1}" = 1 ]; then
  t=$(timeout 7200 ./vcheck "$prop" thorough 2>&1); trc=$?
  tsig=$(echo "$t" | grep -m3 'signature:' | sed 's/^ *signature: //' | paste -sd';')
  echo "== thorough rc=$trc :: $tsig"
  [ $trc -ne 1 ] && echo "$t" | tail -3 | cut -c1-300
fi
git -C /repo checkout -- .
trap - EXIT
python3 - "$out" "$prop" "$build_ok" "$suite" "$with" "$without" "$qrc" "$qsig" "$trc" "$tsig" "$pkgs" "$demo" <<'PY'
import json,sys,os
out,prop,build,suite,w,wo,qrc,qsig,trc,tsig,pkgs,demo=sys.argv[1:]
am={}
p=os.path.join(out,'agent_meta.json')
if os.path.exists(p):
    try: am=json.load(open(p))
    except Exception: am={}
meta={"property":prop,"summary":am.get("summary"),"needs_to_manifest":am.get("needs_to_manifest"),"files_touched":am.get("files_touched"),
 "origin":"written by an independent sub-agent that saw only the property text and its own scratch worktree",
 "confirmed_by_us":{"builds":build,"existing_suite_with_patch":suite,"packages_tested":pkgs.split(),"demo_file":demo,"demo_with_patch":w,"demo_without_patch":wo,
   "commands":["go build ./...","go test -vet=off -count=1 <touched packages> (demo excluded)","go test -run <demo tests> with patch","git apply -R patch.diff; go test -run <demo tests>"]},
 "our_checks":{"quick":{"cmd":f"./vcheck {prop} quick","exit":int(qrc),"signatures":qsig},"thorough":({"cmd":f"./vcheck {prop} thorough","exit":int(trc),"signatures":tsig} if trc!='-' else "not needed")},
 "kept": build=="yes" and suite=="green" and w=="fails" and wo=="passes",
 "caught": qrc=="1" or trc=="1"}
json.dump(meta,open(os.path.join(out,'meta.json'),'w'),indent=1)
print("== kept:",meta["kept"],"caught:",meta["caught"])
PY
