#!/bin/bash
# tools/pselftest.sh <jobs> <pattern>...  — the self-test of ./selftest, in parallel and without touching /repo:
# every worker owns a scratch git worktree of /repo's HEAD (under /root, removed at the end), applies one
# mutants/*.patch or seeded/*/patch.diff there, runs the property's quick check with VERIF_REPO=<worktree>,
# expects "VIOLATION property=<id>" with exit 1, and reverts.  The evidence files the runs write are those of
# patched trees: run tools/runall.sh quick afterwards.
cd "$(dirname "$0")/.."
export GOFLAGS=-mod=mod GOPROXY=off GOSUMDB=off GOTOOLCHAIN=local
jobs="${1:-3}"; shift; tag=$$  # several runs may be active at once (different snapshots): worktree names carry the pid
list=""
for pat in "${@:-}"; do
  list="$list $(ls mutants/*${pat}*.patch 2>/dev/null) $(ls -d seeded/*${pat}*/patch.diff 2>/dev/null)"
done
list=$(echo $list | tr ' ' '\n' | sort -u)
mkdir -p .work/pst; rm -f .work/pst/queue.*; i=0
for p in $list; do echo "$p" >> ".work/pst/queue.$((i % jobs))"; i=$((i+1)); done
worker() {
  k=$1; wt=/root/pst-wt-$tag-$k
  git -C /repo worktree remove --force "$wt" 2>/dev/null; git -C /repo worktree add --detach "$wt" HEAD -q || exit 2
  while read -r p; do
    case "$p" in
      seeded/*) n="seeded-$(basename "$(dirname "$p")")"; prop=$(basename "$(dirname "$p")"); prop=${prop%%-*}
                if grep -q '"kept": false' "$(dirname "$p")/meta.json" 2>/dev/null; then echo "SKIPPED $n (not kept: see its meta.json)"; continue; fi ;;
      *) n=$(basename "$p" .patch); prop=${n%%-*} ;;
    esac
    git -C "$wt" checkout -q -- .; git -C "$wt" apply "$PWD/$p" || { echo "APPLY-FAIL $n"; continue; }
    out=$(VERIF_REPO="$wt" timeout 900 ./vcheck "$prop" "${TIER:-quick}" 2>&1); rc=$?
    git -C "$wt" checkout -q -- .
    if [ $rc -eq 1 ] && echo "$out" | grep -q "^VIOLATION property=$prop "; then
      echo "CAUGHT  $n :: $(echo "$out" | grep -m1 signature)"
    else
      echo "MISSED  $n rc=$rc :: $(echo "$out" | tail -1 | cut -c1-200)"
    fi
  done < ".work/pst/queue.$k"
  git -C /repo worktree remove --force "$wt"
}
for k in $(seq 0 $((jobs-1))); do [ -f ".work/pst/queue.$k" ] && worker "$k" & done
wait
