#!/bin/bash
# tools/seedcheck2.sh <Cnn> <worktree> <sub A|B> <name>
# Layout of round 4+: <worktree>/<sub>/{patch.diff,demo_test.go (first line "// DEST: path"),meta.json}; worktree clean.
set -u
prop="$1"; wt="$2"; sub="$3"; name="$4"
export GOFLAGS=-mod=mod GOPROXY=off GOSUMDB=off GOTOOLCHAIN=local
cd /verif; mkdir -p .work; if [ "${IN_WORKTREE:-0}" = 1 ]; then exec 9>.work/seedcheck-wt.lock; else exec 9>.work/repo.lock; fi; flock 9
src="$wt/$sub"
[ -f "$src/patch.diff" ] && [ -f "$src/demo_test.go" ] || { echo "missing files in $src"; exit 2; }
out="seeded/$name"; mkdir -p "$out"
cp "$src/patch.diff" "$out/patch.diff"; cp "$src/demo_test.go" "$out/demo_test.go.txt"; [ -f "$src/meta.json" ] && cp "$src/meta.json" "$out/agent_meta.json"
dest=$(head -1 "$src/demo_test.go" | sed -n 's#^// DEST: *##p' | tr -d '\r ')
[ -n "$dest" ] || { echo "no DEST line"; exit 2; }
cd "$wt"; git checkout -q -- . ; git clean -fdq -e A -e B
git apply "$src/patch.diff" || { echo "== patch does not apply in worktree"; exit 2; }
pkgs=$(git diff --name-only | xargs -n1 dirname | sort -u | sed 's#^#./#' | tr '\n' ' ')
build_ok=no; go build ./... >/dev/null 2>&1 && build_ok=yes
suite=RED
if echo "$pkgs" | grep -qw '\./\.'; then flock /tmp/roottest.lock go test -vet=off -count=1 $pkgs >/tmp/seed-suite-$name.log 2>&1 && suite=green; else go test -vet=off -count=1 $pkgs >/tmp/seed-suite-$name.log 2>&1 && suite=green; fi
cp "$src/demo_test.go" "$dest"
demodir=$(dirname "$dest")
tests=$(grep -ho '^func Test[A-Za-z0-9_]*' "$dest" | sed 's/func //' | paste -sd'|')
runtest() { if [ "$demodir" = "." ]; then flock /tmp/roottest.lock go test -vet=off -count=1 -run "^($tests)\$" "./$demodir"; else go test -vet=off -count=1 -run "^($tests)\$" "./$demodir"; fi; }
with=passes; runtest >/tmp/seed-demo-with-$name.log 2>&1 || with=fails
git apply -R "$src/patch.diff"
without=fails; runtest >/tmp/seed-demo-without-$name.log 2>&1 && without=passes
rm -f "$dest"; git checkout -q -- .
echo "== build=$build_ok suite_with_patch=$suite demo_with_patch=$with demo_without_patch=$without pkgs=$pkgs"
cd /verif
if [ "${IN_WORKTREE:-0}" = 1 ]; then
  # first-result measurement without touching /repo (another job holds it): the patched tree is the seed's own worktree
  git -C "$wt" apply "$PWD/$out/patch.diff" || { echo "== patch does not apply in worktree"; exit 2; }
  q=$(VERIF_REPO="$wt" timeout 1800 "${VCHECK_ROOT:-/verif}/vcheck" "$prop" quick 2>&1); qrc=$?
  git -C "$wt" checkout -q -- .
else
git -C /repo diff --quiet || { echo "repo dirty"; exit 2; }
git -C /repo apply "$PWD/$out/patch.diff" || { echo "== patch does not apply to /repo"; exit 2; }
trap 'git -C /repo checkout -- . 2>/dev/null' EXIT
q=$(timeout 1800 "${VCHECK_ROOT:-/verif}/vcheck" "$prop" quick 2>&1); qrc=$?
git -C /repo checkout -- .; trap - EXIT
fi
qsig=$(echo "$q" | grep -m3 'signature:' | sed 's/^ *signature: //' | paste -sd';')
echo "== quick rc=$qrc :: $qsig"
python3 - "$out" "$prop" "$build_ok" "$suite" "$with" "$without" "$qrc" "$qsig" "$pkgs" "$dest" <<'PY'
import json,sys,os
out,prop,build,suite,w,wo,qrc,qsig,pkgs,dest=sys.argv[1:]
am={}
p=os.path.join(out,'agent_meta.json')
if os.path.exists(p):
    try: am=json.load(open(p))
    except Exception: am={}
meta={"property":prop,"round":int(os.environ.get("ROUND","4")),"summary":am.get("summary"),"needs_to_manifest":am.get("needs_to_manifest"),"files_touched":am.get("files_touched"),
 "origin":"written by an independent sub-agent that saw only the property text, summaries of earlier seeded changes and its own scratch worktree",
 "confirmed_by_us":{"builds":build,"existing_suite_with_patch":suite,"packages_tested":pkgs.split(),"demo_destination":dest,"demo_with_patch":w,"demo_without_patch":wo},
 "our_checks":{"quick":{"cmd":f"./vcheck {prop} quick","exit":int(qrc),"signatures":qsig}},
 "kept": build=="yes" and suite=="green" and w=="fails" and wo=="passes","caught": qrc=="1"}
json.dump(meta,open(os.path.join(out,'meta.json'),'w'),indent=1)
print("== kept:",meta["kept"],"caught:",meta["caught"])
PY
