#!/bin/bash
# Builds the framework offline from files on disk and warms the build cache.
set -e
cd "$(dirname "$0")"
export GOFLAGS=-mod=mod GOPROXY=off GOSUMDB=off GOTOOLCHAIN=local CGO_ENABLED=0
export GOCACHE="$(pwd)/.work/gocache"
mkdir -p .work/bin
cp /repo/go.sum go.sum
go build -o .work/bin/instr ./engine/instr
.work/bin/instr -repo /repo -verif "$(pwd)" -out .work/instr-setup >/dev/null
for d in checks/*/; do
  g=$(basename "$d")
  go build -overlay .work/instr-setup/overlay.json -o /dev/null "./checks/$g" || { echo "setup: build of $g failed"; exit 1; }
done
rm -rf .work/instr-setup
echo setup ok
