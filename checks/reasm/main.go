// Command reasm decides C01 C02 C03 C10 C19 (single-goroutine Reassembler
// properties) by explicit-state search over operation sequences on the real,
// instrumented Reassembler (DESIGN.md §3.3, §5).
package main

import (
	"encoding/json"
	"flag"
	"fmt"
	"os"
	"path/filepath"
	"sort"
	"sync/atomic"
	"time"

	libaudit "github.com/elastic/go-libaudit/v2"
	"github.com/elastic/go-libaudit/v2/auparse"
	"github.com/elastic/go-libaudit/v2/vshim/vtime"

	"verif/engine/ev"
	"verif/engine/harvest"
	"verif/engine/par"
)

// Job is one unit of work for a worker process.
type Job struct {
	Mode      string // bfs | dfs | types
	Cfg       Config
	MaxStates int64
	Depth     int
	First     int
	Types     []uint16
	Mons      map[string]bool
	Lits      []string
	N         int    // scale: history size
	Scenario  string // scale: which family
}

var monOf = map[string][]string{
	"C01": {"M01"},
	"C02": {"M02"},
	"C03": {"M03"},
	"C10": {"M10"},
	"C19": {"M19", "M10/evicted-without-cause"}, // the "never delivered on account of time before that" half
}

func main() {
	if par.IsWorker() {
		var j Job
		par.WorkerMain(&j, func() interface{} {
			t0 := time.Now()
			st := runJob(j)
			st.WallSeconds = time.Since(t0).Seconds()
			return st
		})
	}
	prop := flag.String("prop", "", "property id")
	tier := flag.String("tier", "quick", "quick|thorough")
	replayF := flag.String("replay", "", "replay a violation file")
	flag.Parse()
	if *replayF != "" {
		os.Exit(doReplay(*replayF))
	}
	if monOf[*prop] == nil {
		fmt.Println("ERROR unknown property", *prop)
		os.Exit(2)
	}
	os.Exit(check(*prop, *tier))
}

func runJob(j Job) *Stats {
	switch j.Mode {
	case "bfs":
		return bfs(j.Cfg, j.MaxStates, j.Mons)
	case "dfs":
		return dfsAll(j.Cfg, j.Depth, j.First, j.Mons)
	case "types":
		return typesPass(j.Cfg, j.Types, j.Mons)
	case "pileup":
		return pilePass(j.Mons)
	case "closers":
		return closersPass(j.Mons)
	case "pkgvars":
		return pkgVarsPass(j.Mons)
	case "twins":
		return twinsPass(j.Mons, j.Depth)
	case "lits":
		return litsPass(j.Cfg, j.Types, j.Lits, j.Mons)
	case "scale":
		return scalePass(j.Cfg, j.Mons, j.N, j.Scenario)
	}
	return &Stats{Cap: "unknown mode"}
}

// scalePass: long deterministic histories under a large maxInFlight, the selected monitors on.
// Thresholds inside an implementation (batch limits, per-event record limits, pre-allocation
// clamps) sit far above the small configurations; each scenario drives ONE quantity to n.
func scalePass(cfg Config, mons map[string]bool, n int, scenario string) *Stats {
	st := &Stats{Config: cfg.String(), Mode: "scale:" + scenario, Exhaustive: true}
	sigSeen := map[string]bool{}
	mk := func(name string, build func() []Op) {
		hist := build()
		in := replay(cfg, hist)
		st.Executions++
		st.States++
		st.Transitions += int64(len(hist))
		for _, v := range selected(in.viol, mons) {
			sig := v.Mon + "/" + v.Sub
			if !sigSeen[sig] {
				sigSeen[sig] = true
				short := hist
				if len(short) > 12 {
					short = append(append([]Op{}, hist[:4]...), hist[len(hist)-4:]...)
				}
				st.Viol = append(st.Viol, FoundViolation{Mon: v.Mon, Sub: v.Sub, What: fmt.Sprintf("%s (n=%d): %s", name, n, v.What), Config: cfg, History: short})
			}
		}
		st.Samples = append(st.Samples, fmt.Sprintf("%s (n=%d, %d ops) => %d callbacks", name, n, len(hist), in.callbacks))
		st.Outcomes++
	}
	push := func(i int, kind string) Op { return Op{Code: opPush, Seq: cfg.Base + uint32(i), Kind: kind} }
	switch scenario {
	case "mixed":
		// (a) n never-completing events, time passes, ONE Maintain must flush them all; then Close
		mk("n incomplete events; tick; Maintain; Close", func() []Op {
			var h []Op
			for i := 0; i < n; i++ {
				h = append(h, push(i, "mid"))
			}
			h = append(h, Op{Code: opTick, Delta: 5}, Op{Code: opMaintain}, Op{Code: opClose})
			return h
		})
		// (b) n events, every third complete, gaps of 1 every 7th, flushed by Close
		mk("n events with gaps; Close", func() []Op {
			var h []Op
			for i := 0; i < n; i++ {
				if i%7 == 3 {
					continue
				}
				k := "mid"
				if i%3 == 0 {
					k = "fin"
				}
				h = append(h, push(i, k))
			}
			h = append(h, Op{Code: opClose})
			return h
		})
		// (c) interleaved two-record events arriving in reverse order inside blocks of 40, then a push after the timeout
		mk("reversed blocks; tick; push; Close", func() []Op {
			var h []Op
			for b := 0; b < n/40; b++ {
				for i := 39; i >= 0; i-- {
					h = append(h, push(b*40+i, "mid"))
				}
				for i := 0; i < 40; i += 2 {
					h = append(h, push(b*40+i, "path"))
				}
			}
			h = append(h, Op{Code: opTick, Delta: 5}, push(n+10, "mid"), Op{Code: opMaintain}, Op{Code: opClose})
			return h
		})
	case "gaps-one-maintain":
		// (d) a gap in front of EVERY event (sequences step by 2), all flushed by ONE Maintain after the
		// timeout: whatever batch boundary an implementation has, a gap sits on it
		mk("n incomplete events 2 apart; tick; Maintain; Close", func() []Op {
			var h []Op
			for i := 0; i < n; i++ {
				h = append(h, push(2*i, "mid"))
			}
			h = append(h, Op{Code: opTick, Delta: 5}, Op{Code: opMaintain}, Op{Code: opMaintain}, Op{Code: opClose})
			return h
		})
	case "gaps-one-push":
		// (g) n complete events 2 apart queue up behind an incomplete head; the head's EOE releases all of
		// them in ONE PushMessage call
		mk("incomplete head; n complete events 2 apart; EOE of the head; Close", func() []Op {
			h := []Op{push(0, "mid")}
			for i := 1; i <= n; i++ {
				h = append(h, push(2*i, "fin"))
			}
			h = append(h, push(0, "eoe"), Op{Code: opMaintain}, Op{Code: opClose})
			return h
		})
	case "huge-event":
		// (e) ONE event receives n records while a lower sequence is still pending: nothing may be
		// delivered before the lower event's EOE, then both in order
		mk("pending lower event; n records of one event; EOE of the lower; Close", func() []Op {
			h := []Op{push(0, "mid")}
			for i := 0; i < n; i++ {
				h = append(h, push(1, "path"))
			}
			h = append(h, Op{Code: opMaintain}, push(0, "eoe"), Op{Code: opClose})
			return h
		})
	case "old-object":
		// (n) an object that is n SECONDS old (a day, a month, years: the virtual clock is advanced before the first push):
		// deadlines are kept at full resolution whatever the age - with a timeout of 4 ticks an event is neither released by
		// a Maintain 1 or 3 ticks after its first record nor kept by one 5 ticks after it
		mk("clock advanced by n seconds; events created 7 ticks apart, Maintain 1, 3 and 5 ticks after each; Close", func() []Op {
			h := []Op{{Code: opTick, Delta: n * 1000}}
			for i := 0; i < 12; i++ {
				h = append(h, push(i, "mid"), Op{Code: opTick, Delta: 1}, Op{Code: opMaintain}, Op{Code: opTick, Delta: 2}, Op{Code: opMaintain},
					Op{Code: opTick, Delta: 2}, Op{Code: opMaintain}, Op{Code: opTick, Delta: 2})
			}
			return append(h, Op{Code: opClose})
		})
	case "terminator-at":
		// (m) the terminating record is exactly the n-th record of its event (n-1 records before it): the event is complete
		// and leaves in that call, wherever the position falls (positions kept in narrow integers wrap at 2^8 / 2^16)
		for _, fin := range []string{"fin", "eoe"} {
			fin := fin
			mk(fmt.Sprintf("one event: %d records, then %s", n-1, fin), func() []Op {
				h := []Op{push(1, "mid")}
				for i := 1; i < n-1; i++ {
					h = append(h, push(1, "path"))
				}
				h = append(h, push(1, fin), Op{Code: opMaintain}, push(2, "mid"), Op{Code: opClose})
				return h
			})
		}
	case "middle-insert":
		// (h) n incomplete events with ONE number near the head missing, which arrives last: it belongs far
		// from the tail of the sorted list (and not at its head); everything leaves in ascending order
		mk("n incomplete events, number 5 arrives last; Close", func() []Op {
			var h []Op
			for i := 0; i < n; i++ {
				if i != 5 {
					h = append(h, push(i, "mid"))
				}
			}
			h = append(h, push(5, "mid"), Op{Code: opMaintain}, Op{Code: opClose})
			return h
		})
	case "records-sweep":
		// (k) ONE event with k records, for every k from 1 to n, leaves the buffer while INCOMPLETE - pushed out by newer
		// events (over capacity), by its timeout, by Close - or complete (EOE): the k records arrive in one callback
		for k := 1; k <= n; k++ {
			k := k
			for _, how := range []string{"overflow", "timeout", "close", "eoe"} {
				how := how
				mk(fmt.Sprintf("one event with %d records leaves by %s", k, how), func() []Op {
					var h []Op
					for i := 0; i < k; i++ {
						kind := "path"
						if i == 0 {
							kind = "mid"
						}
						h = append(h, push(10, kind))
					}
					switch how {
					case "overflow":
						for i := 0; i <= cfg.MaxInFlight; i++ {
							h = append(h, push(20+i, "mid"))
						}
					case "timeout":
						h = append(h, Op{Code: opTick, Delta: 5}, Op{Code: opMaintain})
					case "eoe":
						h = append(h, push(10, "eoe"))
					}
					h = append(h, Op{Code: opClose})
					return h
				})
			}
		}
	case "below-head":
		// (j) n incomplete events are buffered; then events BELOW all of them arrive: a complete one (delivered at once: it
		// is the oldest and complete), an incomplete one and later its EOE, one more complete one between the two
		mk("n incomplete events; a complete event below them; an incomplete one below that, its EOE; Close", func() []Op {
			var h []Op
			for i := 0; i < n; i++ {
				h = append(h, push(100+i, "mid"))
			}
			h = append(h, push(50, "fin"), push(40, "mid"), push(45, "fin"), push(40, "eoe"), push(60, "mid"), push(60, "eoe"), Op{Code: opMaintain}, Op{Code: opClose})
			return h
		})
	case "aged":
		// (i) an object that has already handled n events (counters of events, records, callbacks have advanced past
		// n) is then driven through a chain of 40 incomplete events created 3 ticks apart with a timeout of 4 ticks and a
		// Maintain 2 ticks after each: the previous event (age 5) is due, the newest (age 2) is not
		mk("n delivered events; chain of 40 incomplete events 3 ticks apart, Maintain 2 ticks after each; Close", func() []Op {
			var h []Op
			s := 0
			for i := 0; i < n; i++ {
				if i%7 == 3 {
					s++ // a gap now and then: the loss counter ages, too
				}
				h = append(h, push(s, "fin"))
				s++
			}
			for i := 0; i < 40; i++ {
				h = append(h, push(s+i, "mid"), Op{Code: opTick, Delta: 2}, Op{Code: opMaintain}, Op{Code: opTick, Delta: 1})
			}
			h = append(h, Op{Code: opClose})
			return h
		})
	case "fill":
		// (f) exactly maxInFlight incomplete events may sit in the buffer: none is delivered before Close
		mk("maxInFlight incomplete events; Maintain; Close", func() []Op {
			var h []Op
			for i := 0; i < n; i++ {
				h = append(h, push(i, "mid"))
			}
			h = append(h, Op{Code: opMaintain}, Op{Code: opClose})
			return h
		})
	}
	return st
}

// litsPass: records of the harvested types whose text is a harvested string literal (code that
// special-cases a record looks at its type and at literal text in it), in histories where such a
// record arrives below, between and above buffered events and next to gaps.
func litsPass(cfg Config, types []uint16, lits []string, mons map[string]bool) *Stats {
	st := &Stats{Config: cfg.String(), Mode: "harvested-literals", Exhaustive: true}
	sigSeen := map[string]bool{}
	outcomes := map[string]struct{}{}
	b := cfg.Base
	mid := func(s uint32) Op { return Op{Code: opPush, Seq: s, Kind: "mid"} }
	for _, t := range types {
		for _, l := range append([]string{""}, lits...) {
			x := func(s uint32) Op { return Op{Code: opPush, Seq: s, Kind: "type", Type: t, Raw: l} }
			hists := [][]Op{
				{mid(b + 7), mid(b + 8), x(b + 5), {Code: opMaintain}, {Code: opClose}},
				{mid(b + 5), x(b + 7), mid(b + 9), {Code: opPush, Seq: b + 5, Kind: "eoe"}, {Code: opMaintain}, {Code: opClose}},
				{x(b), {Code: opPush, Seq: b, Kind: "eoe"}, x(b + 1), {Code: opPush, Seq: b + 1, Kind: "eoe"}, x(b + 2), {Code: opPush, Seq: b + 2, Kind: "eoe"}, {Code: opClose}},
				{{Code: opPush, Seq: b, Kind: "fin"}, x(b + 4), {Code: opPush, Seq: b + 4, Kind: "eoe"}, {Code: opPush, Seq: b + 5, Kind: "fin"}, {Code: opClose}},
			}
			for _, hist := range hists {
				in := replay(cfg, hist)
				st.Executions++
				st.States++
				st.Transitions += int64(len(hist))
				outcomes[fmt.Sprint(in.delivLog)] = struct{}{}
				for _, v := range selected(in.viol, mons) {
					sig := v.Mon + "/" + v.Sub
					if !sigSeen[sig] {
						sigSeen[sig] = true
						st.Viol = append(st.Viol, FoundViolation{Mon: v.Mon, Sub: v.Sub, What: v.What, Config: cfg, History: hist})
					}
				}
			}
		}
	}
	st.Outcomes = int64(len(outcomes))
	st.Samples = append(st.Samples, fmt.Sprintf("%d harvested record types x %d harvested literals x 4 histories", len(types), len(lits)+1))
	return st
}

// typesPass pushes each record type as the first record of an event and lets
// the monitors decide (completion rule, EOE, delivery at Close).
func typesPass(cfg Config, types []uint16, mons map[string]bool) *Stats {
	st := &Stats{Config: cfg.String(), Mode: "record-types", Exhaustive: true}
	sigSeen := map[string]bool{}
	outcomes := map[string]struct{}{}
	a := cfg.Base + cfg.Offsets[0]
	b := cfg.Base + cfg.Offsets[1]
	for _, t := range types {
		hist := []Op{
			{Code: opPush, Seq: a, Kind: "type", Type: t},
			{Code: opPush, Seq: b, Kind: "mid"},
			{Code: opPush, Seq: a, Kind: "mid"},
			{Code: opPush, Seq: b, Kind: "type", Type: t},
			{Code: opMaintain},
			{Code: opClose},
		}
		in := replay(cfg, hist)
		st.Executions++
		st.States++
		st.Transitions += int64(len(hist))
		outcomes[fmt.Sprint(in.delivLog)] = struct{}{}
		for _, v := range selected(in.viol, mons) {
			sig := v.Mon + "/" + v.Sub
			if !sigSeen[sig] {
				sigSeen[sig] = true
				st.Viol = append(st.Viol, FoundViolation{Mon: v.Mon, Sub: v.Sub, What: v.What, Config: cfg, History: hist})
			}
		}
	}
	st.Outcomes = int64(len(outcomes))
	if len(types) > 0 {
		st.Samples = append(st.Samples, fmt.Sprintf("types %d..%d: Push(a,type) Push(b,mid) Push(a,mid) Push(b,type) Maintain Close", types[0], types[len(types)-1]))
	}
	return st
}

func buildJobs(prop, tier string) []interface{} {
	thorough := tier == "thorough"
	var jobs []interface{}
	maxIn := []int{0, 1, 2, 3}
	bases := []uint32{5, 0, 1<<32 - 3}
	offs := []uint32{0, 1, 2, 4}
	kinds := []string{"mid", "midRaw", "fin", "eoe", "nil"}
	maxStates := int64(400_000) // three times the largest closure of the quick tier on the tree as it is
	if thorough {
		maxIn = []int{0, 1, 2, 3, 4}
		bases = []uint32{5, 0, 1<<32 - 3, 1<<24 - 2, 1<<31 - 2, 1<<31 - 5, 1<<16 - 2}
		offs = []uint32{0, 1, 2, 4, 7}
		kinds = []string{"mid", "midRaw", "fin", "user", "eoe", "nil"}
		maxStates = 20_000_000
	}
	timeouts := []int64{farTimeout}
	switch prop {
	case "C10":
		timeouts = []int64{farTimeout, 2}
	case "C19":
		timeouts = []int64{-1, 0, 2, farTimeout}
	default:
		// time interacts with ordering / grouping / loss accounting too (expiry evicts)
		timeouts = []int64{farTimeout, 2}
	}
	edgeBases := []uint32{1<<31 - 2, 1<<24 - 2, 1<<31 - 5, 1<<16 - 2} // windows straddling 2^31, 2^24, 2^16
	for _, to := range timeouts {
		if !thorough && to == farTimeout {
			// quick: the arithmetic edges with the smaller configurations
			for _, m := range []int{1, 2} {
				for _, b := range edgeBases {
					cfg := Config{MaxInFlight: m, TimeoutTicks: to, Base: b, Offsets: []uint32{0, 1, 3, 4}, Kinds: []string{"mid", "fin", "eoe"}, MaxRecs: 2, PostClose: 1}
					jobs = append(jobs, Job{Mode: "bfs", Cfg: cfg, MaxStates: maxStates})
				}
			}
		}
		for _, m := range maxIn {
			for _, b := range bases {
				var tk []int
				o := offs
				k := kinds
				if to != farTimeout {
					// time multiplies the state space: smaller sequence / kind alphabets, first and last base
					tk = []int{1, 3}
					o = []uint32{0, 1, 3}
					k = []string{"mid", "fin", "eoe"}
					if thorough {
						o = []uint32{0, 1, 2, 4}
					}
					if b != bases[0] && b != bases[len(bases)-1] {
						continue
					}
					if m > 3 {
						continue
					}
				}
				if m >= 4 {
					// 3.4e6 states per base with the full alphabets (half an hour per job): the widest buffer
					// gets the smaller sequence / kind alphabets and the first and last base
					o = []uint32{0, 1, 2, 4}
					k = []string{"mid", "fin", "eoe"}
					if b != bases[0] && b != bases[len(bases)-1] {
						continue
					}
				}
				cfg := Config{MaxInFlight: m, TimeoutTicks: to, Base: b, Offsets: o, Kinds: k, Ticks: tk, MaxRecs: 2, PostClose: 2}
				jobs = append(jobs, Job{Mode: "bfs", Cfg: cfg, MaxStates: maxStates})
			}
		}
	}
	// three records per event, more record kinds, small sequence alphabet
	for _, m := range []int{0, 1, 2} {
		if !thorough && m == 0 {
			continue
		}
		k := []string{"mid", "path", "fin", "eoe"}
		if thorough {
			k = []string{"mid", "path", "fin", "finRaw", "anom", "eoe", "nil"}
		}
		cfg := Config{MaxInFlight: m, TimeoutTicks: farTimeout, Base: 1<<32 - 3, Offsets: []uint32{0, 1, 3}, Kinds: k, MaxRecs: 3, PostClose: 2}
		jobs = append(jobs, Job{Mode: "bfs", Cfg: cfg, MaxStates: maxStates})
	}
	// records of one sequence that do NOT share a timestamp (the grouping key is the sequence)
	for _, m := range []int{1, 2} {
		cfg := Config{MaxInFlight: m, TimeoutTicks: farTimeout, Base: 5, Offsets: []uint32{0, 1, 3}, Kinds: []string{"mid", "midTs", "midRawTs", "fin", "finTs", "eoe"}, MaxRecs: 2, PostClose: 1}
		jobs = append(jobs, Job{Mode: "bfs", Cfg: cfg, MaxStates: maxStates})
	}
	// scale: thresholds inside the implementation (batch limits, table sizes) are far above the
	// small configurations; a few long deterministic histories with a large maxInFlight
	jobs = append(jobs, Job{Mode: "scale", Scenario: "mixed", N: 1500, Cfg: Config{MaxInFlight: 3000, TimeoutTicks: 2, Base: 1<<32 - 800, Offsets: []uint32{0}, Kinds: []string{"mid"}, MaxRecs: 3, PostClose: 1}})
	jobs = append(jobs, Job{Mode: "scale", Scenario: "mixed", N: 1500, Cfg: Config{MaxInFlight: 1000, TimeoutTicks: farTimeout, Base: 1<<31 - 900, Offsets: []uint32{0}, Kinds: []string{"mid"}, MaxRecs: 3, PostClose: 1}})
	big := 20000
	if thorough {
		big = 40000
	}
	jobs = append(jobs, Job{Mode: "scale", Scenario: "gaps-one-maintain", N: 3000, Cfg: Config{MaxInFlight: 5000, TimeoutTicks: 2, Base: 5, Offsets: []uint32{0}, Kinds: []string{"mid"}, MaxRecs: 3, PostClose: 1}})
	jobs = append(jobs, Job{Mode: "scale", Scenario: "gaps-one-push", N: 3000, Cfg: Config{MaxInFlight: 5000, TimeoutTicks: farTimeout, Base: 1<<32 - 1000, Offsets: []uint32{0}, Kinds: []string{"mid"}, MaxRecs: 3, PostClose: 1}})
	jobs = append(jobs, Job{Mode: "scale", Scenario: "huge-event", N: big, Cfg: Config{MaxInFlight: 5, TimeoutTicks: farTimeout, Base: 5, Offsets: []uint32{0}, Kinds: []string{"mid"}, MaxRecs: 3, PostClose: 1}})
	jobs = append(jobs, Job{Mode: "scale", Scenario: "fill", N: big, Cfg: Config{MaxInFlight: big, TimeoutTicks: farTimeout, Base: 5, Offsets: []uint32{0}, Kinds: []string{"mid"}, MaxRecs: 3, PostClose: 1}})
	// the widths of small integer types (2^8, 2^16): indexes, counters and offsets kept in a uint8 / uint16 wrap there.
	// No literal names such a limit, so it is part of the fixed menu: buffers just above it, objects aged just below it
	for _, w := range []int{256, 65536} {
		jobs = append(jobs, Job{Mode: "scale", Scenario: "fill", N: w + 500, Cfg: Config{MaxInFlight: w + 1000, TimeoutTicks: farTimeout, Base: 5, Offsets: []uint32{0}, Kinds: []string{"mid"}, MaxRecs: 3, PostClose: 1}})
		jobs = append(jobs, Job{Mode: "scale", Scenario: "aged", N: w - 20, Cfg: Config{MaxInFlight: 5, TimeoutTicks: 4, Base: 5, Offsets: []uint32{0}, Kinds: []string{"mid"}, MaxRecs: 3, PostClose: 1}})
		jobs = append(jobs, Job{Mode: "scale", Scenario: "middle-insert", N: w + 500, Cfg: Config{MaxInFlight: w + 1000, TimeoutTicks: farTimeout, Base: 1<<32 - 700, Offsets: []uint32{0}, Kinds: []string{"mid"}, MaxRecs: 3, PostClose: 1}})
		jobs = append(jobs, Job{Mode: "scale", Scenario: "gaps-one-maintain", N: w + 500, Cfg: Config{MaxInFlight: w + 1000, TimeoutTicks: 2, Base: 5, Offsets: []uint32{0}, Kinds: []string{"mid"}, MaxRecs: 3, PostClose: 1}})
	}
	for _, w := range []int{256, 65536} {
		for _, n := range []int{w - 1, w, w + 1, 2 * w, 3*w + 1} {
			jobs = append(jobs, Job{Mode: "scale", Scenario: "terminator-at", N: n, Cfg: Config{MaxInFlight: 3, TimeoutTicks: farTimeout, Base: 5, Offsets: []uint32{0}, Kinds: []string{"mid"}, MaxRecs: 1 << 20, PostClose: 1}})
		}
	}
	for _, age := range []int{3600, 86400, 30 * 86400, 1 << 26, 1<<26 + 7, 1 << 28, 1 << 30, 1 << 31} {
		jobs = append(jobs, Job{Mode: "scale", Scenario: "old-object", N: age, Cfg: Config{MaxInFlight: 3, TimeoutTicks: 4, Base: 5, Offsets: []uint32{0}, Kinds: []string{"mid"}, MaxRecs: 3, PostClose: 1}})
	}
	jobs = append(jobs, Job{Mode: "scale", Scenario: "records-sweep", N: 1100, Cfg: Config{MaxInFlight: 2, TimeoutTicks: 2, Base: 5, Offsets: []uint32{0}, Kinds: []string{"mid"}, MaxRecs: 1 << 20, PostClose: 1}})
	jobs = append(jobs, Job{Mode: "scale", Scenario: "below-head", N: 3000, Cfg: Config{MaxInFlight: 5000, TimeoutTicks: farTimeout, Base: 1<<32 - 2000, Offsets: []uint32{0}, Kinds: []string{"mid"}, MaxRecs: 3, PostClose: 1}})
	jobs = append(jobs, Job{Mode: "scale", Scenario: "below-head", N: 40, Cfg: Config{MaxInFlight: 100, TimeoutTicks: farTimeout, Base: 5, Offsets: []uint32{0}, Kinds: []string{"mid"}, MaxRecs: 3, PostClose: 1}})
	jobs = append(jobs, Job{Mode: "scale", Scenario: "middle-insert", N: 3000, Cfg: Config{MaxInFlight: 5000, TimeoutTicks: farTimeout, Base: 5, Offsets: []uint32{0}, Kinds: []string{"mid"}, MaxRecs: 3, PostClose: 1}})
	// thresholds written into the tree under test (batch limits, per-event record limits, look-back
	// windows ...): every integer constant 64..100000 found in reassembler.go gets its own scale scenarios
	// just above it
	hv := harvest.Files([]string{filepath.Join(ev.Repo(), "reassembler.go")}, harvest.Options{})
	for _, N := range hv.Thresholds(64, 100000) {
		n := int(N) + 5
		far := Config{MaxInFlight: 5, TimeoutTicks: farTimeout, Base: 5, Offsets: []uint32{0}, Kinds: []string{"mid"}, MaxRecs: 3, PostClose: 1}
		jobs = append(jobs, Job{Mode: "scale", Scenario: "huge-event", N: n, Cfg: far})
		if n <= 25000 {
			wide := far
			wide.MaxInFlight = 2*n + 100
			jobs = append(jobs, Job{Mode: "scale", Scenario: "fill", N: n, Cfg: Config{MaxInFlight: n, TimeoutTicks: farTimeout, Base: 5, Offsets: []uint32{0}, Kinds: []string{"mid"}, MaxRecs: 3, PostClose: 1}})
			jobs = append(jobs, Job{Mode: "scale", Scenario: "gaps-one-push", N: n, Cfg: wide})
			jobs = append(jobs, Job{Mode: "scale", Scenario: "below-head", N: n, Cfg: wide})
			timed := wide
			timed.TimeoutTicks = 2
			jobs = append(jobs, Job{Mode: "scale", Scenario: "gaps-one-maintain", N: n, Cfg: timed})
		}
		if 2*n+10 <= 25000 {
			wide := far
			wide.MaxInFlight = 2*n + 100
			jobs = append(jobs, Job{Mode: "scale", Scenario: "middle-insert", N: 2*n + 10, Cfg: wide})
		}
	}
	// a timeout of 4 ticks (an event created 1 or 3 ticks after another one has a deadline that differs
	// from the other's at reachable instants) and one that is NOT on the grid of reachable instants (2.5)
	for _, c := range []Config{
		{MaxInFlight: 2, TimeoutTicks: 4, Base: 5, Offsets: []uint32{0, 1}, Kinds: []string{"mid", "fin", "eoe"}, Ticks: []int{1, 3}, MaxRecs: 2, PostClose: 1},
		{MaxInFlight: 2, TimeoutTicks: 2, TimeoutHalf: true, Base: 5, Offsets: []uint32{0, 1}, Kinds: []string{"mid", "fin"}, Ticks: []int{1, 3}, MaxRecs: 2, PostClose: 1},
	} {
		jobs = append(jobs, Job{Mode: "bfs", Cfg: c, MaxStates: maxStates})
	}
	// the byte-level entry point for EOE records and headers whose sequence field does not fit 32 bits
	jobs = append(jobs, Job{Mode: "bfs", Cfg: Config{MaxInFlight: 2, TimeoutTicks: farTimeout, Base: 58, Offsets: []uint32{0, 1}, Kinds: []string{"mid", "midRaw", "eoeRaw", "eoeRawWrap", "midRawWrap", "fin"}, MaxRecs: 2, PostClose: 1}, MaxStates: maxStates})
	// sequence numbers about 2^31 away from the delivery position (the stated order treats numbers more
	// than 2^24-1 apart as rolled over); loss counting is only defined inside one window, so not for C03
	if prop != "C03" {
		for _, m := range []int{2, 4} {
			cfg := Config{MaxInFlight: m, TimeoutTicks: farTimeout, Base: 1000, Offsets: []uint32{0, 1<<31 - 2, 1<<31 - 1, 1 << 31, 1<<31 + 1}, Kinds: []string{"mid", "fin", "eoe"}, MaxRecs: 2, PostClose: 1}
			jobs = append(jobs, Job{Mode: "bfs", Cfg: cfg, MaxStates: maxStates})
		}
	}
	// records stamped by the kernel around the (virtual) present and records of one event whose stamps are
	// further apart than the timeout: time-driven logic may not look at them
	for _, m := range []int{1, 2} {
		cfg := Config{MaxInFlight: m, TimeoutTicks: 2, Base: 5, Offsets: []uint32{0, 1}, Kinds: []string{"mid", "midTs", "midNow", "midRawNow", "fin", "eoe"}, Ticks: []int{1, 3}, MaxRecs: 2, PostClose: 1}
		jobs = append(jobs, Job{Mode: "bfs", Cfg: cfg, MaxStates: maxStates})
	}
	// timeouts with a gap in front of an event that is NOT the last one a Maintain releases
	for _, o := range [][]uint32{{0, 2, 3}, {0, 2, 4}} {
		cfg := Config{MaxInFlight: 3, TimeoutTicks: 2, Base: 5, Offsets: o, Kinds: []string{"mid", "fin"}, Ticks: []int{3}, MaxRecs: 2, PostClose: 1}
		jobs = append(jobs, Job{Mode: "bfs", Cfg: cfg, MaxStates: maxStates})
	}
	// records of one event with different kernel timestamps in a window that straddles the 2^32 roll-over (the
	// order is the sequence order, whatever the stamps say), and late arrivals stamped later than the last delivery
	for _, m := range []int{2, 3} {
		cfg := Config{MaxInFlight: m, TimeoutTicks: farTimeout, Base: 1<<32 - 2, Offsets: []uint32{0, 1, 2, 3}, Kinds: []string{"mid", "midTs", "fin", "finTs"}, MaxRecs: 2, PostClose: 1}
		jobs = append(jobs, Job{Mode: "bfs", Cfg: cfg, MaxStates: maxStates})
	}
	jobs = append(jobs, Job{Mode: "bfs", Cfg: Config{MaxInFlight: 3, TimeoutTicks: 2, Base: 5, Offsets: []uint32{0, 1, 2}, Kinds: []string{"mid", "midTs", "fin", "finTs"}, Ticks: []int{3}, MaxRecs: 2, PostClose: 1}, MaxStates: maxStates})
	// timeouts so large that "now + timeout" does not fit a 64-bit nanosecond count (250 years, the largest Duration)
	for _, h := range []int{1, 2} {
		cfg := Config{MaxInFlight: 2, TimeoutTicks: farTimeout, HugeTimeout: h, Base: 5, Offsets: []uint32{0, 1, 3}, Kinds: []string{"mid", "fin", "eoe"}, Ticks: []int{3}, MaxRecs: 2, PostClose: 1}
		jobs = append(jobs, Job{Mode: "bfs", Cfg: cfg, MaxStates: maxStates})
	}
	// a slow Stream: time passes inside a callback, then it calls Maintain (C19: what became stale meanwhile is due)
	if prop == "C19" || prop == "C01" {
		for _, m := range []int{2, 3} {
			cfg := Config{MaxInFlight: m, TimeoutTicks: 2, Base: 5, Offsets: []uint32{0, 1, 2}, Kinds: []string{"mid", "fin", "eoe"}, Ticks: []int{1, 3}, MaxRecs: 2, PostClose: 1, ReenterTickMaintain: 3}
			jobs = append(jobs, Job{Mode: "bfs", Cfg: cfg, MaxStates: maxStates})
		}
	}
	// the caller recycles the structs of delivered messages for later pushes
	for _, m := range []int{1, 2} {
		cfg := Config{MaxInFlight: m, TimeoutTicks: farTimeout, Base: 1000, Offsets: []uint32{0, 1, 5}, Kinds: []string{"mid", "fin", "eoe"}, MaxRecs: 2, PostClose: 1, Recycle: true}
		jobs = append(jobs, Job{Mode: "bfs", Cfg: cfg, MaxStates: maxStates})
	}
	// a Stream that uses the slice it is handed as its own (appends into spare capacity, clears the elements)
	for _, m := range []int{1, 2, 3} {
		cfg := Config{MaxInFlight: m, TimeoutTicks: farTimeout, Base: 5, Offsets: []uint32{0, 1, 2, 4}, Kinds: []string{"mid", "fin", "eoe"}, MaxRecs: 2, PostClose: 1, StreamOwnsSlice: true}
		jobs = append(jobs, Job{Mode: "bfs", Cfg: cfg, MaxStates: maxStates})
	}
	jobs = append(jobs, Job{Mode: "bfs", Cfg: Config{MaxInFlight: 2, TimeoutTicks: 2, Base: 5, Offsets: []uint32{0, 1, 2}, Kinds: []string{"mid", "fin"}, Ticks: []int{3}, MaxRecs: 2, PostClose: 1, StreamOwnsSlice: true}, MaxStates: maxStates})
	// sequence numbers that are congruent modulo a number derived from the configuration (k*(maxInFlight+d), the
	// sizes of tables, rings and bitmaps dimensioned by it) or modulo a power of two: two buffered events that share
	// a slot / bit / bucket
	for _, m := range []int{1, 2, 4} {
		var mods []uint32
		for _, k := range []uint32{1, 2, 8, 16, 32, 64, 128, 256} {
			for d := 0; d <= 2; d++ {
				mods = append(mods, k*uint32(m+d))
			}
		}
		for p := uint(3); p <= 20; p++ {
			mods = append(mods, 1<<p)
		}
		seen := map[uint32]bool{}
		for _, M := range mods {
			if seen[M] || M < 3 {
				continue
			}
			seen[M] = true
			if !thorough && m == 4 && M%uint32(m+1) != 0 && M&(M-1) != 0 {
				continue
			}
			cfg := Config{MaxInFlight: m, TimeoutTicks: farTimeout, Base: 7, Offsets: []uint32{0, 1, M, M + 1, 2 * M}, Kinds: []string{"mid", "eoe"}, MaxRecs: 2, PostClose: 1}
			jobs = append(jobs, Job{Mode: "bfs", Cfg: cfg, MaxStates: maxStates})
		}
	}
	// records with the text a kernel writes (a SYSCALL announcing items=2, PATH records, an EXECVE announcing argc=3,
	// PROCTITLE), through both entry points
	for _, m := range []int{1, 2} {
		jobs = append(jobs, Job{Mode: "bfs", Cfg: Config{MaxInFlight: m, TimeoutTicks: farTimeout, Base: 5, Offsets: []uint32{0, 1}, Kinds: []string{"sysItems", "pathBody", "execveBody", "finBody", "eoe"}, MaxRecs: 3, PostClose: 1}, MaxStates: maxStates})
		jobs = append(jobs, Job{Mode: "bfs", Cfg: Config{MaxInFlight: m, TimeoutTicks: 2, Base: 5, Offsets: []uint32{0, 1}, Kinds: []string{"sysItemsRaw", "pathBodyRaw", "finBodyRaw", "eoeRaw"}, Ticks: []int{3}, MaxRecs: 3, PostClose: 1}, MaxStates: maxStates})
	}
	// raw records whose headers are textually related: same time stamp, one sequence number a decimal prefix of the
	// other (1, 10, 12, 100, 1000), one a suffix (2, 12), equal digits in other positions
	for _, m := range []int{2, 3} {
		jobs = append(jobs, Job{Mode: "bfs", Cfg: Config{MaxInFlight: m, TimeoutTicks: farTimeout, Base: 1, Offsets: []uint32{0, 1, 9, 11, 99}, Kinds: []string{"midRaw", "finRaw", "eoeRaw"}, MaxRecs: 2, PostClose: 1}, MaxStates: maxStates})
	}
	jobs = append(jobs, Job{Mode: "bfs", Cfg: Config{MaxInFlight: 2, TimeoutTicks: farTimeout, Base: 504, Offsets: []uint32{0, 1, 5040 - 504, 50406 - 504}, Kinds: []string{"midRaw", "finRaw"}, MaxRecs: 2, PostClose: 1}, MaxStates: maxStates})
	// a Stream that pushes a complete, lower-numbered event from inside a callback while other events are still
	// undelivered (one goroutine: the order clause applies as stated - the new event is due before them)
	for _, m := range []int{1, 2, 3} {
		cfg := Config{MaxInFlight: m, TimeoutTicks: farTimeout, Base: 5, Offsets: []uint32{1, 2, 3}, Kinds: []string{"mid", "fin", "eoe"}, MaxRecs: 2, PostClose: 1, ReenterPushLow: true}
		jobs = append(jobs, Job{Mode: "bfs", Cfg: cfg, MaxStates: maxStates})
	}
	jobs = append(jobs, Job{Mode: "bfs", Cfg: Config{MaxInFlight: 3, TimeoutTicks: 2, Base: 1<<32 - 2, Offsets: []uint32{1, 2, 3}, Kinds: []string{"mid", "fin"}, Ticks: []int{3}, MaxRecs: 2, PostClose: 1, ReenterPushLow: true}, MaxStates: maxStates})
	// a Stream that also satisfies every interface the tree under test declares (optional interfaces asserted on)
	for _, m := range []int{1, 2} {
		cfg := Config{MaxInFlight: m, TimeoutTicks: farTimeout, Base: 1<<32 - 3, Offsets: []uint32{0, 1, 3, 4}, Kinds: []string{"mid", "fin", "eoe"}, MaxRecs: 2, PostClose: 1, FullStream: true}
		jobs = append(jobs, Job{Mode: "bfs", Cfg: cfg, MaxStates: maxStates})
	}
	jobs = append(jobs, Job{Mode: "bfs", Cfg: Config{MaxInFlight: 2, TimeoutTicks: 2, Base: 5, Offsets: []uint32{0, 1, 3}, Kinds: []string{"mid", "fin"}, Ticks: []int{3}, MaxRecs: 2, PostClose: 1, FullStream: true}, MaxStates: maxStates})
	// a caller that scribbles on the Sequence field of its struct once PushMessage has returned: the number the event
	// is grouped and ordered by is the one it was pushed with
	for _, c := range []Config{
		{MaxInFlight: 2, Base: 5, MutateAfterPush: 3}, {MaxInFlight: 3, Base: 5, MutateAfterPush: 3},
		{MaxInFlight: 3, Base: 1<<32 - 2, MutateAfterPush: 1 << 31}, {MaxInFlight: 4, Base: 1<<32 - 2, MutateAfterPush: 6},
	} {
		c.TimeoutTicks, c.Offsets, c.Kinds, c.MaxRecs, c.PostClose = farTimeout, []uint32{0, 1, 2, 3}, []string{"mid", "fin", "eoe"}, 2, 1
		jobs = append(jobs, Job{Mode: "bfs", Cfg: c, MaxStates: maxStates})
	}
	// two Reassemblers in one process, each with the selected monitor
	twinDepth := 6
	if thorough {
		twinDepth = 7
	}
	jobs = append(jobs, Job{Mode: "twins", Depth: twinDepth})
	jobs = append(jobs, Job{Mode: "pkgvars"})
	// a Stream that re-enters the Reassembler from its callback: exactly-once / grouping (C01) and, after the
	// outermost call has returned, the bound and "no complete event left at the head" (C10)
	if prop == "C10" {
		for _, m := range []int{2, 4} {
			cfg := Config{MaxInFlight: m, TimeoutTicks: farTimeout, Base: 5, Offsets: []uint32{0, 1, 2, 4, 5}, Kinds: []string{"mid", "fin", "eoe"}, MaxRecs: 2, PostClose: 1, Reenter: true}
			jobs = append(jobs, Job{Mode: "bfs", Cfg: cfg, MaxStates: maxStates})
		}
	}
	if prop == "C19" {
		jobs = append(jobs, Job{Mode: "closers"})
	}
	if prop == "C03" {
		// a Stream that re-enters the Reassembler from its callbacks (the nested call releases several events while the outer
		// one is still delivering its batch): per-call accounting is not defined there, the whole-history invariant is -
		// nothing between the first and the highest delivered event goes missing unreported
		only := map[string]bool{"M03/never-delivered-not-reported": true, "M03/panic-in-call": true}
		for _, m := range []int{2, 3, 4} {
			cfg := Config{MaxInFlight: m, TimeoutTicks: farTimeout, Base: 5, Offsets: []uint32{0, 1, 2, 4, 5}, Kinds: []string{"mid", "fin", "eoe"}, MaxRecs: 2, PostClose: 1, Reenter: true}
			jobs = append(jobs, Job{Mode: "bfs", Cfg: cfg, MaxStates: maxStates, Mons: only})
		}
		jobs = append(jobs, Job{Mode: "bfs", Cfg: Config{MaxInFlight: 3, TimeoutTicks: 2, Base: 1<<32 - 3, Offsets: []uint32{0, 1, 2, 4}, Kinds: []string{"mid", "fin"}, Ticks: []int{3}, MaxRecs: 2, PostClose: 1, Reenter: true}, MaxStates: maxStates, Mons: only})
	}
	if prop == "C01" {
		jobs = append(jobs, Job{Mode: "pileup"})
		// Close called from inside a callback while other events are undelivered
		for _, m := range []int{1, 2, 3} {
			cfg := Config{MaxInFlight: m, TimeoutTicks: farTimeout, Base: 5, Offsets: []uint32{0, 1, 2}, Kinds: []string{"mid", "fin", "eoe"}, MaxRecs: 2, PostClose: 1, ReenterClose: true}
			jobs = append(jobs, Job{Mode: "bfs", Cfg: cfg, MaxStates: maxStates})
		}
		// sequence numbers between 2^24 and 2^25 apart in total but pairwise closer: the stated pairwise order is
		// not transitive there, so only exactly-once delivery is decided (M01), for every arrival order
		jobs = append(jobs, Job{Mode: "bfs", Cfg: Config{MaxInFlight: 4, TimeoutTicks: farTimeout, Base: 1000, Offsets: []uint32{0, 3000000, 6000000, 18000000}, Kinds: []string{"mid", "eoe"}, MaxRecs: 2, PostClose: 1}, MaxStates: maxStates})
		jobs = append(jobs, Job{Mode: "bfs", Cfg: Config{MaxInFlight: 4, TimeoutTicks: farTimeout, Base: 1<<32 - 9000000, Offsets: []uint32{0, 3000000, 8000000, 17000000, 20000000}, Kinds: []string{"mid", "eoe"}, MaxRecs: 2, PostClose: 1}, MaxStates: maxStates})
		for _, m := range []int{4} {
			cfg := Config{MaxInFlight: m, TimeoutTicks: farTimeout, Base: 5, Offsets: []uint32{0, 1, 2, 4, 5}, Kinds: []string{"mid", "fin", "eoe"}, MaxRecs: 2, PostClose: 1, Reenter: true}
			jobs = append(jobs, Job{Mode: "bfs", Cfg: cfg, MaxStates: maxStates})
		}
		for _, m := range []int{1, 2, 3} {
			cfg := Config{MaxInFlight: m, TimeoutTicks: farTimeout, Base: 5, Offsets: []uint32{0, 1, 2, 4}, Kinds: []string{"mid", "fin", "eoe"}, MaxRecs: 2, PostClose: 1, Reenter: true}
			jobs = append(jobs, Job{Mode: "bfs", Cfg: cfg, MaxStates: maxStates})
		}
	}
	// all-sequences cross-check (no state merging)
	depth := 6
	if thorough {
		depth = 7
	}
	for _, m := range []int{1, 2} {
		cfg := Config{MaxInFlight: m, TimeoutTicks: farTimeout, Base: 1<<32 - 3, Offsets: []uint32{0, 1, 3}, Kinds: []string{"mid", "fin", "eoe"}, MaxRecs: 3, PostClose: 1}
		if prop == "C19" || prop == "C10" {
			cfg.TimeoutTicks = 2
			cfg.Ticks = []int{1, 3}
			cfg.Offsets = []uint32{0, 2}
		}
		n := len(NewInstance(cfg).Ops())
		for f := 0; f < n; f++ {
			// second-level sharding keeps the jobs balanced
			jobs = append(jobs, Job{Mode: "dfs", Cfg: cfg, Depth: depth, First: f})
		}
	}
	// record types
	var types []uint16
	if thorough {
		for t := 0; t < 65536; t++ {
			types = append(types, uint16(t))
		}
	} else {
		types = []uint16{0, 1, 1000, 1100, 1199, 1298, 1299, 1300, 1301, 1302, 1319, 1320, 1321, 1326, 1327, 1328, 1400, 1799, 2000, 2098, 2099, 2100, 2101, 2999, 65535}
		// record types the tree under test names (AUDIT_xxx identifiers, integer constants that look like
		// record types) and their neighbours
		seen := map[uint16]bool{}
		for _, t := range types {
			seen[t] = true
		}
		add := func(v int64) {
			for d := int64(-1); d <= 1; d++ {
				if x := v + d; x >= 0 && x < 65536 && !seen[uint16(x)] {
					seen[uint16(x)] = true
					types = append(types, uint16(x))
				}
			}
		}
		for _, a := range hv.Audit {
			if t, err := auparse.GetAuditMessageType(a); err == nil {
				add(int64(t))
			}
		}
		for _, v := range hv.Thresholds(1000, 2999) {
			add(v)
		}
	}
	// harvested string literals as the text of records of the harvested types
	var litTypes []uint16
	for _, a := range hv.Audit {
		if t, err := auparse.GetAuditMessageType(a); err == nil {
			litTypes = append(litTypes, uint16(t))
		}
	}
	for _, v := range hv.Thresholds(1000, 2999) {
		litTypes = append(litTypes, uint16(v))
	}
	litTypes = append(litTypes, 1300)
	jobs = append(jobs, Job{Mode: "lits", Cfg: Config{MaxInFlight: 3, TimeoutTicks: farTimeout, Base: 5, Offsets: []uint32{0, 1}, Kinds: []string{"mid"}, MaxRecs: 3, PostClose: 1}, Types: litTypes, Lits: hv.Strings})
	for i := 0; i < len(types); i += 8192 {
		j := i + 8192
		if j > len(types) {
			j = len(types)
		}
		cfg := Config{MaxInFlight: 2, TimeoutTicks: farTimeout, Base: 5, Offsets: []uint32{0, 1}, Kinds: []string{"mid"}, MaxRecs: 3, PostClose: 1}
		jobs = append(jobs, Job{Mode: "types", Cfg: cfg, Types: types[i:j]})
	}
	return jobs
}

func check(prop, tier string) int {
	run := ev.Begin(prop, tier, "model_checking")
	mons := map[string]bool{}
	for _, m := range monOf[prop] {
		mons[m] = true
	}
	jobs := buildJobs(prop, tier)
	for i := range jobs {
		j := jobs[i].(Job)
		if j.Mons == nil {
			j.Mons = mons
		}
		jobs[i] = j
	}
	exhaustive := true
	var caps []string
	var perJob []map[string]interface{}
	// bounded passes first, closures last; once a violation has been reported the jobs not yet started are skipped (a
	// change that makes the state space explode - a counter in the state - would otherwise run every closure into
	// its cap): the run is then not exhaustive and says so
	rank := map[string]int{"scale": 0, "closers": 0, "pkgvars": 0, "pileup": 0, "types": 0, "lits": 0, "twins": 1, "dfs": 2, "bfs": 3}
	sort.SliceStable(jobs, func(a, b int) bool { return rank[jobs[a].(Job).Mode] < rank[jobs[b].(Job).Mode] })
	var found atomic.Bool
	skipped := 0
	par.Skip = func() bool { return found.Load() }
	par.Map("reasm", jobs, 3*time.Hour, nil, func(r par.Result) {
		if r.Skipped {
			skipped++
			exhaustive = false
			return
		}
		if r.Died {
			run.Errorf("worker for job %d died: %s", r.Job, tail(r.Stderr, 600))
			return
		}
		var st Stats
		if err := json.Unmarshal(r.Out, &st); err != nil {
			run.Errorf("job %d: %v", r.Job, err)
			return
		}
		run.Add("states", st.States)
		run.Add("transitions", st.Transitions)
		run.Add("traces_validated_against_impl", st.Executions)
		run.Add("jobs", 1)
		run.Add("violating_states", st.ViolatingStates)
		if !st.Exhaustive {
			exhaustive = false
			caps = append(caps, st.Config+": "+st.Cap)
		}
		if st.Mode == "bfs-closure" && st.Outcomes < 2 && st.States > 10 {
			run.Errorf("vacuous exploration: %s produced %d distinct outcomes", st.Config, st.Outcomes)
		}
		perJob = append(perJob, map[string]interface{}{"config": st.Config, "mode": st.Mode, "states": st.States, "transitions": st.Transitions, "max_depth": st.MaxDepth, "outcomes": st.Outcomes, "exhaustive": st.Exhaustive, "worker_wall_s": float64(int(st.WallSeconds*10)) / 10})
		for _, s := range st.Samples {
			run.Sample(st.Mode + " | " + st.Config + " | " + s)
		}
		if len(st.Viol) > 0 {
			found.Store(true)
		}
		for _, v := range st.Viol {
			run.Report(ev.Violation{
				Sig:    prop + " " + v.Mon + "/" + v.Sub,
				What:   v.What,
				Replay: map[string]interface{}{"config": v.Config, "history": v.History, "history_text": histString(v.History)},
				Test:   goTest(v),
			})
		}
	})
	// property-specific extras
	if prop == "C19" {
		c19Extras(run)
	}
	sort.Slice(perJob, func(i, j int) bool {
		return fmt.Sprint(perJob[i]["mode"], perJob[i]["config"]) < fmt.Sprint(perJob[j]["mode"], perJob[j]["config"])
	})
	run.Set("per_job", perJob)
	run.Set("exhaustive", exhaustive)
	if len(caps) > 0 {
		run.Set("caps_hit", caps)
	}
	if skipped > 0 {
		run.Set("jobs_skipped_after_first_violation", skipped)
	}
	run.Set("explanation", "BFS over canonical keys of (real Reassembler object graph, monitor state) until the frontier empties, successor = replay of the shortest history on a fresh instance + one op; plus every op sequence up to a fixed depth with no state merging; plus a record-type pass. states = distinct canonical states (BFS) + prefixes (DFS); traces_validated_against_impl = executions of the real instrumented code from a fresh instance.")
	run.Assume("virtual clock behind time.Now (instrumented build); single goroutine")
	run.Assume("BFS state key ignores bytes beyond len of slices and message fields other than RecordType/Sequence; the all-sequences pass does not rely on this")
	run.Assume("driver bound: at most MaxRecs records per buffered event; sequences within one 2^24 window")
	return run.Finish()
}

func tail(s string, n int) string {
	if len(s) > n {
		return s[len(s)-n:]
	}
	return s
}

func goTest(v FoundViolation) string {
	s := "// plain reproduction without the explorer (timeouts in ms; Tick = advance the clock)\n"
	s += fmt.Sprintf("// config: %s\n// history: %s\n// expected: %s\n", v.Config.String(), histString(v.History), v.What)
	return s
}

// c19Extras: NewReassembler without a stream, and a real-clock smoke run of the
// time seam (assertion only in the safe direction).
func c19Extras(run *ev.Run) {
	for _, n := range []int{0, 1, 5} {
		for _, to := range []time.Duration{-time.Second, 0, time.Millisecond, time.Hour} {
			r, err := libaudit.NewReassembler(n, to, nil)
			run.Add("transitions", 1)
			if err == nil || r != nil {
				run.Report(ev.Violation{Sig: "C19 M19/new-without-stream", What: fmt.Sprintf("NewReassembler(%d,%v,nil) = (%v,%v), want (nil, error)", n, to, r, err), Replay: map[string]interface{}{"maxInFlight": n, "timeout": to.String()}})
			}
		}
	}
	// real clock smoke
	vtime.Uninstall()
	s := &smokeStream{}
	r, err := libaudit.NewReassembler(5, 5*time.Millisecond, s)
	if err != nil {
		run.Errorf("smoke: %v", err)
		return
	}
	r.PushMessage(&auparse.AuditMessage{RecordType: 1300, Sequence: 77})
	time.Sleep(200 * time.Millisecond)
	if err := r.Maintain(); err != nil {
		run.Errorf("smoke: Maintain: %v", err)
	}
	run.Set("real_clock_smoke_delivered", s.n)
	if s.n != 1 {
		run.Report(ev.Violation{Sig: "C19 M19/real-clock-stale-not-flushed", What: "real clock: event with 5ms timeout not delivered by Maintain after 200ms", Replay: "push(77,SYSCALL); sleep 200ms; Maintain"})
	}
	_ = r.Close()
}

type smokeStream struct{ n int }

func (s *smokeStream) ReassemblyComplete(m []*auparse.AuditMessage) { s.n++ }
func (s *smokeStream) EventsLost(int)                               {}

func doReplay(path string) int {
	b, err := os.ReadFile(path)
	if err != nil {
		fmt.Println("ERROR", err)
		return 2
	}
	var doc struct {
		Property string
		Cases    []struct {
			Replay struct {
				Config  Config
				History []Op
			}
		}
	}
	if err := json.Unmarshal(b, &doc); err != nil {
		fmt.Println("ERROR", err)
		return 2
	}
	bad := 0
	for _, c := range doc.Cases {
		in := replay(c.Replay.Config, c.Replay.History)
		fmt.Printf("config: %s\nhistory: %s\ndelivered: %v\n", c.Replay.Config, histString(c.Replay.History), in.delivLog)
		for _, v := range in.viol {
			fmt.Printf("  %s/%s at step %d: %s\n", v.Mon, v.Sub, v.Step, v.What)
			bad++
		}
	}
	if bad > 0 {
		fmt.Printf("VIOLATION property=%s replay=%s\n", doc.Property, path)
		return 1
	}
	return 0
}
