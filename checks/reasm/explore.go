package main

import (
	"fmt"
)

// Stats of one exploration job.
type Stats struct {
	Config          string
	Mode            string
	States          int64
	Transitions     int64
	Executions      int64 // runs of the real object from a fresh instance
	MaxDepth        int
	Exhaustive      bool
	Cap             string
	Outcomes        int64 // distinct delivery logs seen (vacuity gate)
	Viol            []FoundViolation
	Samples         []string
	ViolatingStates int64
	WallSeconds     float64
}

// FoundViolation is a violation with its replayable history.
type FoundViolation struct {
	Mon     string
	Sub     string
	What    string
	Config  Config
	History []Op
}

func histString(h []Op) string {
	s := ""
	for i, o := range h {
		if i > 0 {
			s += " "
		}
		s += o.String()
	}
	return s
}

// replay runs history on a fresh instance.
func replay(cfg Config, hist []Op) *Instance {
	in := NewInstance(cfg)
	for _, op := range hist {
		in.Apply(op)
	}
	return in
}

// bfs explores the full reachable closure (canonical keys), successor =
// replay of the shortest history + one op.
func bfs(cfg Config, maxStates int64, mons map[string]bool) *Stats {
	st := &Stats{Config: cfg.String(), Mode: "bfs-closure", Exhaustive: true}
	seen := map[[20]byte]struct{}{}
	outcomes := map[string]struct{}{}
	sigSeen := map[string]bool{}
	root := NewInstance(cfg)
	st.Executions++
	seen[root.Key()] = struct{}{}
	frontier := [][]Op{{}}
	depth := 0
	for len(frontier) > 0 {
		var next [][]Op
		for _, hist := range frontier {
			base := replay(cfg, hist)
			st.Executions++
			ops := base.Ops()
			for _, op := range ops {
				in := replay(cfg, hist)
				st.Executions++
				nv := len(in.viol)
				in.Apply(op)
				st.Transitions++
				if newv := selected(in.viol[nv:], mons); len(newv) > 0 {
					st.ViolatingStates++
					for _, v := range newv {
						sig := v.Mon + "/" + v.Sub
						if !sigSeen[sig] {
							sigSeen[sig] = true
							h := append(append([]Op{}, hist...), op)
							st.Viol = append(st.Viol, FoundViolation{Mon: v.Mon, Sub: v.Sub, What: v.What, Config: cfg, History: h})
						}
					}
					continue // do not expand past a violating state
				}
				k := in.Key()
				if _, ok := seen[k]; ok {
					continue
				}
				seen[k] = struct{}{}
				outcomes[fmt.Sprint(in.delivLog)] = struct{}{}
				h := append(append(make([]Op, 0, len(hist)+1), hist...), op)
				next = append(next, h)
				if len(st.Samples) < 3 && len(h) >= 5 && in.callbacks > 1 {
					st.Samples = append(st.Samples, histString(h)+" => delivered(ord:count) "+fmt.Sprint(in.delivLog))
				}
				if int64(len(seen)) >= maxStates {
					st.Exhaustive = false
					st.Cap = fmt.Sprintf("state cap %d hit at depth %d", maxStates, depth+1)
					st.States = int64(len(seen))
					st.MaxDepth = depth + 1
					st.Outcomes = int64(len(outcomes))
					return st
				}
			}
		}
		frontier = next
		if len(next) > 0 {
			depth++
		}
		if len(st.Viol) > 0 {
			// a violation has been found and recorded with its shortest history: finishing
			// the closure of a broken implementation adds nothing (and may not terminate)
			st.Exhaustive = false
			st.Cap = fmt.Sprintf("stopped after the first violating level (depth %d)", depth)
			break
		}
		if depth > 64 {
			st.Exhaustive = false
			st.Cap = "depth cap 64"
			break
		}
	}
	st.States = int64(len(seen))
	st.MaxDepth = depth
	st.Outcomes = int64(len(outcomes))
	return st
}

// dfsAll runs every op sequence of length depth (and therefore checks every
// shorter one as a prefix) on fresh instances, with no state merging.  first
// restricts the first op index (sharding); -1 = all.
func dfsAll(cfg Config, depth int, first int, mons map[string]bool) *Stats {
	st := &Stats{Config: cfg.String(), Mode: fmt.Sprintf("all-sequences depth<=%d", depth), Exhaustive: true, MaxDepth: depth}
	sigSeen := map[string]bool{}
	outcomes := map[string]struct{}{}
	// iterative enumeration by index vector; each leaf is one fresh execution
	idx := make([]int, 0, depth)
	hist := make([]Op, 0, depth)
	var rec func()
	rec = func() {
		// run the current prefix to learn the enabled ops
		in := replay(cfg, hist)
		st.Executions++
		if sel := selected(in.viol, mons); len(sel) > 0 {
			st.ViolatingStates++
			for _, v := range sel {
				sig := v.Mon + "/" + v.Sub
				if !sigSeen[sig] {
					sigSeen[sig] = true
					st.Viol = append(st.Viol, FoundViolation{Mon: v.Mon, Sub: v.Sub, What: v.What, Config: cfg, History: append([]Op{}, hist...)})
				}
			}
			return
		}
		st.States++
		if len(hist) == depth {
			outcomes[fmt.Sprint(in.delivLog)] = struct{}{}
			if len(st.Samples) < 2 && in.callbacks > 2 {
				st.Samples = append(st.Samples, histString(hist)+" => "+fmt.Sprint(in.delivLog))
			}
			return
		}
		ops := in.Ops()
		for i, op := range ops {
			if len(hist) == 0 && first >= 0 && i != first {
				continue
			}
			hist = append(hist, op)
			idx = append(idx, i)
			st.Transitions++
			rec()
			hist = hist[:len(hist)-1]
			idx = idx[:len(idx)-1]
		}
	}
	rec()
	st.Outcomes = int64(len(outcomes))
	return st
}

// selected filters violations down to the monitors of the property being
// checked; other monitors' findings belong to other properties' checks.
func selected(vs []violation, mons map[string]bool) []violation {
	var out []violation
	for _, v := range vs {
		if mons[v.Mon] || mons[v.Mon+"/"+v.Sub] {
			out = append(out, v)
		}
	}
	return out
}
