package main

import (
	"fmt"
	"reflect"
	"strings"

	"github.com/elastic/go-libaudit/v2/auparse"

	"verif/engine/statehash"
)

// zombies: the Reassemblers closed by earlier histories of this process are kept alive, and the op
// "Z.push" pushes one more record to each of them (pushes after Close are accepted).  Whatever a closed
// object gave back to a package-level pool is by now in use by a later object.
var zombies []*Instance
var sharedReported bool
var twinRuns int

// twinsPass: TWO Reassemblers in one process.  Every sequence of <=7 operations over
// {A.push(s,mid|fin), A.close, create B, B.push(s,mid|fin), B.close} - pushes to A after A.close
// included (PushMessage does not refuse them) - with each object's own monitors: what one object
// delivers depends on what was pushed to IT (storage recycled between objects, package-level state).
func twinsPass(mons map[string]bool, maxDepth int) *Stats {
	st := &Stats{Config: "two Reassemblers A and B (B created during the history), maxInFlight 4 each", Mode: fmt.Sprintf("two-objects all-sequences depth<=%d", maxDepth), Exhaustive: true, MaxDepth: maxDepth}
	cfg := Config{MaxInFlight: 4, TimeoutTicks: farTimeout, Base: 10, Offsets: []uint32{0, 1, 2}, Kinds: []string{"mid", "fin"}, MaxRecs: 2, PostClose: 3}
	type op struct {
		obj  int // 0 A, 1 B, 2 create B
		code opCode
		seq  uint32
		kind string
	}
	var alphabet []op
	for obj := 0; obj < 2; obj++ {
		for _, s := range []uint32{10, 11, 12} {
			alphabet = append(alphabet, op{obj, opPush, s, "mid"})
		}
		alphabet = append(alphabet, op{obj, opPush, 12, "fin"})
		if obj == 1 {
			alphabet = append(alphabet, op{obj, opClose, 0, ""})
		}
	}
	// simplest first: A.close and create-B lead the alphabet, so that the first histories of this (fresh)
	// process are "close A, create B, ..." - package-level pools are then still young
	alphabet = append([]op{{obj: 0, code: opClose}, {obj: 2}}, alphabet...)
	alphabet = append(alphabet, op{obj: 3, code: opPush, seq: 12, kind: "mid"})
	sigSeen := map[string]bool{}
	outcomes := map[string]struct{}{}
	var hist []op
	var rec func(depth int)
	run := func() {
		defer func() {
			if p := recover(); p != nil && !sigSeen["panic"] {
				sigSeen["panic"] = true
				for m := range mons {
					mon := strings.SplitN(m, "/", 2)[0]
					st.Viol = append(st.Viol, FoundViolation{Mon: mon, Sub: "panic-with-two-objects", What: fmt.Sprintf("two Reassemblers in one process (plus the ones closed earlier), history of %d ops: panic: %v", len(hist), p), Config: cfg})
				}
			}
		}()
		a := NewInstance(cfg)
		var b *Instance
		for _, o := range hist {
			switch o.obj {
			case 2:
				b = NewInstance(cfg)
				b.clock = a.clock
				// independent objects own disjoint mutable storage (the Stream and shim internals aside)
				skip := func(t reflect.Type) bool {
					return t == reflect.TypeOf(Instance{}) || t.PkgPath() == "sync" || strings.HasSuffix(t.PkgPath(), "/vshim/vsync") || strings.HasSuffix(t.PkgPath(), "/vshim/vatomic") || t.Kind() == reflect.Func
				}
				rb := statehash.Reach(b.r, skip)
				others := []*Instance{a}
				if twinRuns < 400 {
					others = append(others, zombies...) // pools are young early in the process
				} else if n := len(zombies); n > 3 {
					others = append(others, zombies[n-3:]...)
				} else {
					others = append(others, zombies...)
				}
				for _, other := range others {
					if sh := statehash.Shared(statehash.Reach(other.r, skip), rb); sh != "" && !sharedReported {
						sharedReported = true
						a.fail("M01", "objects-share-storage", "a newly created Reassembler shares mutable storage with another one that is still referenced (closed or not): %s", sh)
						a.fail("M02", "objects-share-storage", "a newly created Reassembler shares mutable storage with another one that is still referenced (closed or not): %s", sh)
						a.fail("M03", "objects-share-storage", "a newly created Reassembler shares mutable storage with another one that is still referenced (closed or not): %s", sh)
						a.fail("M10", "objects-share-storage", "a newly created Reassembler shares mutable storage with another one that is still referenced (closed or not): %s", sh)
						a.fail("M19", "objects-share-storage", "a newly created Reassembler shares mutable storage with another one that is still referenced (closed or not): %s", sh)
					}
				}
			case 3:
				for _, z := range zombies {
					z.r.PushMessage(&auparse.AuditMessage{RecordType: 1300, Sequence: o.seq})
				}
			case 0:
				a.Apply(Op{Code: o.code, Seq: o.seq, Kind: o.kind})
			case 1:
				b.Apply(Op{Code: o.code, Seq: o.seq, Kind: o.kind})
			}
		}
		st.Executions++
		twinRuns++
		st.Transitions += int64(len(hist))
		// end: close both (everything each got must come out of it)
		a.Apply(Op{Code: opClose})
		viol := a.viol
		log := fmt.Sprint(a.delivLog)
		if b != nil {
			b.Apply(Op{Code: opClose})
			viol = append(viol, b.viol...)
			log += "|" + fmt.Sprint(b.delivLog)
		}
		outcomes[log] = struct{}{}
		zombies = append(zombies, a)
		if b != nil {
			zombies = append(zombies, b)
		}
		if len(zombies) > 24 {
			zombies = zombies[len(zombies)-24:]
		}
		for _, v := range selected(viol, mons) {
			if v.Sub == "second-close-nil" || v.Sub == "second-close-callback" {
				continue
			}
			sig := v.Mon + "/" + v.Sub
			if !sigSeen[sig] {
				sigSeen[sig] = true
				var hs []string
				for _, o := range hist {
					switch o.obj {
					case 2:
						hs = append(hs, "create-B")
					case 3:
						hs = append(hs, fmt.Sprintf("push(%d) to every Reassembler closed earlier in this process", o.seq))
					default:
						hs = append(hs, fmt.Sprintf("%c.%v", 'A'+o.obj, Op{Code: o.code, Seq: o.seq, Kind: o.kind}))
					}
				}
				st.Viol = append(st.Viol, FoundViolation{Mon: v.Mon, Sub: v.Sub, What: fmt.Sprintf("two Reassemblers in one process, history %v (then both closed): %s", hs, v.What), Config: cfg})
			}
		}
	}
	rec = func(depth int) {
		if len(hist) > 0 {
			run()
		}
		if depth == maxDepth {
			return
		}
		hasB := false
		aClosed, bClosed := 0, 0
		for _, o := range hist {
			if o.obj == 2 {
				hasB = true
			}
			if o.code == opClose && o.obj == 0 {
				aClosed++
			}
			if o.code == opClose && o.obj == 1 {
				bClosed++
			}
		}
		for _, o := range alphabet {
			if (o.obj == 1 || o.obj == 3) && !hasB || o.obj == 2 && hasB {
				continue
			}
			if o.obj == 3 && len(hist) > 0 && hist[len(hist)-1].obj == 3 {
				continue
			}
			if o.code == opClose && (o.obj == 0 && aClosed > 0 || o.obj == 1 && bClosed > 0) {
				continue
			}
			// keep the tree small: B is only interesting once A has been closed or holds something
			if o.obj == 2 && len(hist) == 0 {
				continue
			}
			hist = append(hist, o)
			rec(depth + 1)
			hist = hist[:len(hist)-1]
		}
	}
	rec(0)
	st.States = int64(len(outcomes))
	st.Outcomes = int64(len(outcomes))
	st.Samples = append(st.Samples, "A.Push(10,mid) A.Close create-B B.Push(10,mid) B.Push(11,mid) A.Push(11,mid) => each object delivers exactly what it was given")
	return st
}
