package main

import (
	"container/heap"
	"fmt"
	"reflect"
	"runtime/debug"
	"sort"
	"strings"
	"time"
	"unsafe"

	libaudit "github.com/elastic/go-libaudit/v2"
	"github.com/elastic/go-libaudit/v2/auparse"
	"github.com/elastic/go-libaudit/v2/vshim/vtime"

	"verif/engine/statehash"
)

// ---- alphabet -------------------------------------------------------------

const tick = time.Millisecond

type recKind struct {
	Name string
	Type uint16
	Raw  bool // enter through Push(typ, raw) instead of PushMessage
	Nil  bool
	Wrap bool   // raw records whose header carries sequence + 2^32: not a 32-bit sequence number, Push must refuse it and nothing may happen
	Body string // realistic record text (appended to the raw text / put into RawData)
	TS   int    // timestamp variant: records of one event normally share a timestamp, these do not; -1 = one tick before the virtual present
}

var recKinds = map[string]recKind{
	"mid":      {Name: "mid", Type: 1300},
	"midRaw":   {Name: "midRaw", Type: 1300, Raw: true},
	"path":     {Name: "path", Type: 1302},
	"fin":      {Name: "fin", Type: 1327},
	"finRaw":   {Name: "finRaw", Type: 1327, Raw: true},
	"user":     {Name: "user", Type: 1112},
	"anom":     {Name: "anom", Type: 2100},
	"eoe":      {Name: "eoe", Type: 1320},
	"midTs":    {Name: "midTs", Type: 1300, TS: 1},
	"midRawTs": {Name: "midRawTs", Type: 1300, Raw: true, TS: 1},
	"finTs":    {Name: "finTs", Type: 1327, TS: 2},
	// records stamped by the "kernel" just before the (virtual) present: one tick ago
	"midNow":    {Name: "midNow", Type: 1300, TS: -1},
	"midRawNow": {Name: "midRawNow", Type: 1300, Raw: true, TS: -1},
	"nil":       {Name: "nil", Nil: true},
	// records with the text a kernel writes: a SYSCALL that announces two PATH records, PATH records, an EXECVE that
	// announces three arguments - reassembly goes by type and sequence, not by what a body announces
	"sysItems":    {Name: "sysItems", Type: 1300, Body: "arch=c000003e syscall=257 success=yes exit=3 a0=ffffff9c a1=7ffe a2=0 a3=0 items=2 ppid=1 pid=2 auid=1000 uid=0 gid=0 tty=pts0 ses=1 comm=\"x\" exe=\"/bin/x\" key=(null)"},
	"sysItemsRaw": {Name: "sysItemsRaw", Type: 1300, Raw: true, Body: "arch=c000003e syscall=257 success=yes exit=3 a0=ffffff9c a1=7ffe a2=0 a3=0 items=2 ppid=1 pid=2 auid=1000 uid=0 gid=0 tty=pts0 ses=1 comm=\"x\" exe=\"/bin/x\" key=(null)"},
	"pathBody":    {Name: "pathBody", Type: 1302, Body: "item=0 name=\"/etc/x\" inode=5 dev=fd:00 mode=0100644 ouid=0 ogid=0 rdev=00:00 nametype=NORMAL"},
	"pathBodyRaw": {Name: "pathBodyRaw", Type: 1302, Raw: true, Body: "item=1 name=\"/etc/y\" inode=6 dev=fd:00 mode=0100644 ouid=0 ogid=0 rdev=00:00 nametype=CREATE"},
	"execveBody":  {Name: "execveBody", Type: 1309, Body: "argc=3 a0=\"x\" a1=\"-l\""},
	"finBody":     {Name: "finBody", Type: 1327, Body: "proctitle=2F62696E2F78002D6C"},
	"finBodyRaw":  {Name: "finBodyRaw", Type: 1327, Raw: true, Body: "proctitle=2F62696E2F78002D6C"},
	// the byte-level entry point for EOE records, and headers whose sequence does not fit 32 bits
	"eoeRaw":     {Name: "eoeRaw", Type: 1320, Raw: true},
	"eoeRawWrap": {Name: "eoeRawWrap", Type: 1320, Raw: true, Wrap: true},
	"midRawWrap": {Name: "midRawWrap", Type: 1300, Raw: true, Wrap: true},
}

// terminating is the completion rule named by the property's anchors
// (PROCTITLE, <= AUDIT_LAST_DAEMON, >= AUDIT_ANOM_LOGIN_FAILURES), with the
// numbers from linux/audit.h / libaudit.h (refdata), not from the library.
func terminating(t uint16) bool { return t == 1327 || t <= 1299 || t >= 2100 }

const typeEOE = 1320

type opCode uint8

const (
	opPush opCode = iota
	opMaintain
	opTick
	opClose
)

// Op is one driver operation.
type Op struct {
	Code  opCode
	Seq   uint32 // absolute sequence number
	Kind  string // record kind name (or "type" with Type set)
	Type  uint16
	Delta int    // ticks
	Raw   string // Kind "type": RawData of the pushed message (harvested literals)
}

func (o Op) String() string {
	switch o.Code {
	case opPush:
		if o.Kind == "type" {
			if o.Raw != "" {
				return fmt.Sprintf("Push(%d,type=%d,raw=%q)", o.Seq, o.Type, o.Raw)
			}
			return fmt.Sprintf("Push(%d,type=%d)", o.Seq, o.Type)
		}
		return fmt.Sprintf("Push(%d,%s)", o.Seq, o.Kind)
	case opMaintain:
		return "Maintain"
	case opTick:
		return fmt.Sprintf("Tick(%d)", o.Delta)
	default:
		return "Close"
	}
}

// Config is one Reassembler configuration plus the driver alphabet.
type Config struct {
	MaxInFlight  int
	TimeoutTicks int64 // timeout in ticks; 1<<40 = "1000h"
	TimeoutHalf  bool  // plus half a tick: a configured timeout that is not on the grid of reachable instants
	Base         uint32
	Offsets      []uint32
	Kinds        []string
	Ticks        []int
	MaxRecs      int // driver bound: records per buffered event
	PostClose    int // ops allowed after the first Close
	// Reenter: the Stream re-enters the Reassembler from inside its first callback that
	// happens while other events are still buffered: it pushes the EOE of the oldest buffered
	// event (which can make the nested call deliver several events while the outer call is
	// still walking its own batch).  Only M01 is meaningful for such configurations.
	Reenter bool
	// ReenterClose: the Stream calls Close from inside the first outermost callback that happens while other
	// events are still undelivered (buffered or waiting in the batch being delivered).  M01 only.
	ReenterClose bool
	// Recycle: the caller takes delivered *AuditMessage structs back (a pool) and fills them in again for
	// later pushes - after ReassemblyComplete has returned the structs are the caller's again.
	Recycle bool
	// ReenterTickMaintain: from inside the first outermost callback the Stream lets this many ticks pass (a slow
	// sink) and then calls Maintain: events whose timeout elapses meanwhile are due at that nested call.
	ReenterTickMaintain int
	// HugeTimeout: 0 none, 1 = 250 years, 2 = the largest Duration ("never")
	HugeTimeout int
	// StreamOwnsSlice: the Stream treats the slice it is handed as its own, as a callee may: it appends to it (fills
	// the spare capacity, if there is any, with a foreign message) and clears the elements when it is done.
	StreamOwnsSlice bool
	// ReenterPushLow: from inside its first outermost callback that happens while other events are still undelivered
	// (buffered, or waiting in the batch the call is walking) the Stream pushes a COMPLETE event with a fresh sequence
	// number below everything else: its first record is pushed while higher-numbered events are undelivered, so it
	// is due before them (one goroutine: C02 applies as stated).
	ReenterPushLow bool
	// MutateAfterPush: as soon as PushMessage has returned the caller overwrites the Sequence field of the struct it
	// pushed with this value XORed in (the library was handed the number at push time; what the caller does to its
	// struct afterwards changes neither grouping nor order).  The callback restores the field before the monitors look.
	MutateAfterPush uint32
	// FullStream: the Stream handed to NewReassembler ALSO has every method of every interface type the tree under test
	// declares in its root package (generated at check time by the instrumenter: libaudit.VerifFullStream) - a Stream that
	// happens to satisfy an optional interface the library asserts on still gets every ReassemblyComplete / EventsLost
	FullStream bool
}

const farTimeout = int64(1) << 40

func (c Config) timeout() time.Duration {
	switch c.HugeTimeout {
	case 1:
		return 250 * 365 * 24 * time.Hour
	case 2:
		return time.Duration(1<<63 - 1)
	}
	if c.TimeoutTicks == farTimeout {
		return 1000 * time.Hour
	}
	if c.TimeoutHalf {
		return time.Duration(c.TimeoutTicks)*tick + tick/2
	}
	return time.Duration(c.TimeoutTicks) * tick
}

func (c Config) String() string {
	to := fmt.Sprint(c.TimeoutTicks)
	if c.TimeoutTicks == farTimeout {
		to = "1000h"
	}
	re := ""
	if c.Reenter {
		re = " reentrant-stream"
	}
	if c.TimeoutHalf {
		to += ".5"
	}
	if c.HugeTimeout > 0 {
		to = []string{"", "250y", "maxDuration"}[c.HugeTimeout]
	}
	if c.ReenterClose {
		re += " stream-closes-from-callback"
	}
	if c.Recycle {
		re += " recycled-message-structs"
	}
	if c.StreamOwnsSlice {
		re += " stream-appends-to-and-clears-its-slice"
	}
	if c.FullStream {
		re += " stream-with-every-declared-interface-method"
	}
	if c.ReenterPushLow {
		re += " stream-pushes-a-lower-complete-event-from-callback"
	}
	if c.MutateAfterPush != 0 {
		re += fmt.Sprintf(" caller-overwrites-Sequence-after-push(xor %d)", c.MutateAfterPush)
	}
	if c.ReenterTickMaintain > 0 {
		re += fmt.Sprintf(" slow-stream(%d ticks)-then-Maintain", c.ReenterTickMaintain)
	}
	return fmt.Sprintf("maxInFlight=%d timeout=%s base=%d offs=%v kinds=%v ticks=%v maxrecs=%d%s", c.MaxInFlight, to, c.Base, c.Offsets, c.Kinds, c.Ticks, c.MaxRecs, re)
}

// ---- instance: real Reassembler + shadow + monitors ------------------------

type msgRec struct {
	ptr  *auparse.AuditMessage // for PushMessage
	tag  string                // for Push(raw): unique text inside RawData
	typ  uint16
	step int
}

type shadowEvent struct {
	seq       uint32
	msgs      []*msgRec
	created   time.Time
	complete  bool
	overtaken bool
	bornAt    int // wide mode: number of deliveries made before this event's first record was pushed
}

type violation struct {
	Mon  string // M01 M02 M03 M10 M19
	Sub  string
	What string
	Step int
}

// Instance is one fresh Reassembler with its shadow state.
type Instance struct {
	cfg   Config
	r     *libaudit.Reassembler
	clock *vtime.Clock

	pending                map[uint32]*shadowEvent
	hw                     uint32 // high-water ord
	hasHW                  bool
	closed                 int // number of Close calls that returned nil
	closedAt               int // ops executed since first successful close
	step                   int
	nextTag                int
	rawBuf                 []byte
	closeFromCB, cbChecked bool
	free                   []*auparse.AuditMessage // Recycle: delivered structs the caller may fill in again
	mutated                map[*auparse.AuditMessage]uint32 // MutateAfterPush: scribbled structs -> the number they were pushed with
	reentered              bool
	nesting                int

	// per-call observation
	inCall       bool
	callLost     []int
	callExpected int64
	callDeliv    []uint32 // sequences delivered in this call
	callIsClose  bool
	callbacks    int

	viol []violation
	dead bool // an API call panicked

	// whole-history loss accounting (valid under re-entrancy too): what was reported in total, which ords were delivered
	totalLost  int64
	delivered  map[uint32]bool
	firstDeliv uint32
	hasFirst   bool

	// wide mode (scale scenarios: thousands of buffered events, all inside one window so that the stated order is the
	// order of ord()): the same monitors with logarithmic bookkeeping instead of a walk over every pending event -
	// a lazily cleaned min-heap for "the oldest buffered event", a decreasing stack of deliveries for "a higher
	// sequence was delivered while this one was pending"
	heapMin  evHeap
	delivN   int
	delStack []delivMark

	// outcome digest pieces (for the vacuity gate)
	delivLog []string
}

func (in *Instance) ord(s uint32) uint32 { return s - in.cfg.Base }

func (in *Instance) wide() bool { return in.cfg.MaxInFlight >= 1000 }

type delivMark struct {
	idx int
	ord uint32
}

type evHeap struct {
	evs []*shadowEvent
	ord func(uint32) uint32
}

func (h *evHeap) Len() int           { return len(h.evs) }
func (h *evHeap) Less(i, j int) bool { return h.ord(h.evs[i].seq) < h.ord(h.evs[j].seq) }
func (h *evHeap) Swap(i, j int)      { h.evs[i], h.evs[j] = h.evs[j], h.evs[i] }
func (h *evHeap) Push(x interface{}) { h.evs = append(h.evs, x.(*shadowEvent)) }
func (h *evHeap) Pop() interface{}   { n := len(h.evs); x := h.evs[n-1]; h.evs = h.evs[:n-1]; return x }

// before is the order the property states: numbers that differ by more than 2^24-1 are
// ordered as a uint32 roll-over (the larger one is the older one), otherwise numerically.
// Inside one 2^24 window starting at cfg.Base it coincides with comparing ord().
func before(a, b uint32) bool {
	d := int64(a) - int64(b)
	if d < 0 {
		d = -d
	}
	if d > 1<<24-1 {
		return a > b
	}
	return a < b
}

// stamp returns the record timestamp for a kind.
func (in *Instance) stamp(k recKind) time.Time {
	switch {
	case k.TS < 0:
		if k.Raw {
			return in.clock.T.Add(-tick).UTC() // text form has millisecond resolution
		}
		// strictly between two instants the virtual clock can show, so a deadline derived
		// from it differs from the stated one at an observable instant (not only at the boundary)
		return in.clock.T.Add(-tick - tick/2).UTC()
	case k.TS > 0:
		return time.Unix(int64(1700000000+77*k.TS), 123000000).UTC()
	}
	return time.Time{}
}

func (in *Instance) fail(mon, sub, format string, a ...interface{}) {
	in.viol = append(in.viol, violation{Mon: mon, Sub: sub, What: fmt.Sprintf(format, a...), Step: in.step})
}

// stream callbacks -----------------------------------------------------------

func (in *Instance) ReassemblyComplete(msgs []*auparse.AuditMessage) {
	in.callbacks++
	if !in.inCall {
		in.fail("M01", "callback-outside-call", "callback outside any API call")
	}
	if len(msgs) == 0 {
		in.fail("M01", "empty-callback", "ReassemblyComplete with no messages")
		return
	}
	if in.cfg.MutateAfterPush != 0 {
		for _, m := range msgs {
			if o, ok := in.mutated[m]; ok {
				m.Sequence = o
				delete(in.mutated, m)
			}
		}
	}
	s := msgs[0].Sequence
	for _, m := range msgs {
		if m.Sequence != s {
			in.fail("M01", "mixed-sequences", "callback mixes sequences %d and %d", s, m.Sequence)
			return
		}
	}
	ev := in.pending[s]
	if ev == nil {
		in.fail("M01", "unknown-or-redelivered", "callback for sequence %d which has no undelivered pushed records (never pushed, EOE only, or delivered before)", s)
		return
	}
	ok := len(msgs) == len(ev.msgs)
	if ok {
		for i, m := range msgs {
			if !ev.msgs[i].is(m) {
				ok = false
				break
			}
		}
	}
	if !ok {
		in.fail("M01", "group-mismatch", "callback for sequence %d delivered %s but the undelivered pushed records are %s (extra/missing/reordered/split)", s, descMsgs(msgs), descRecs(ev.msgs))
	}
	in.delivLog = append(in.delivLog, fmt.Sprintf("%d:%d", in.ord(s), len(msgs)))
	if in.delivered == nil {
		in.delivered = map[uint32]bool{}
	}
	if !in.hasFirst {
		in.hasFirst, in.firstDeliv = true, in.ord(s)
	}
	in.delivered[in.ord(s)] = true

	// M10 cause check (outside Close).
	if !in.callIsClose {
		n := len(in.pending) // pending count when this eviction happened
		now := in.clock.T
		expiredStrict := now.After(ev.created.Add(in.cfg.timeout()))
		boundary := now.Equal(ev.created.Add(in.cfg.timeout()))
		if !(ev.complete || n > in.cfg.MaxInFlight || expiredStrict || boundary) {
			in.fail("M10", "evicted-without-cause", "sequence %d delivered although not complete, buffered=%d <= maxInFlight=%d and timeout not elapsed", s, n, in.cfg.MaxInFlight)
		}
	}

	// M02
	if in.wide() {
		// the highest ord delivered since this event was born: the first mark at or after bornAt
		i := sort.Search(len(in.delStack), func(i int) bool { return in.delStack[i].idx >= ev.bornAt })
		if i < len(in.delStack) && in.delStack[i].ord > in.ord(s) {
			ev.overtaken = true
		}
		for len(in.delStack) > 0 && in.delStack[len(in.delStack)-1].ord <= in.ord(s) {
			in.delStack = in.delStack[:len(in.delStack)-1]
		}
		in.delStack = append(in.delStack, delivMark{in.delivN, in.ord(s)})
		in.delivN++
	}
	if ev.overtaken {
		in.fail("M02", "delivered-after-higher", "sequence %d (ord %d) delivered after a higher sequence although its first record was pushed before that delivery", s, in.ord(s))
	}
	if !in.wide() {
		for _, p := range in.pending {
			if p != ev && before(p.seq, s) {
				p.overtaken = true
			}
		}
	}
	// Close must deliver ascending
	if in.callIsClose && len(in.callDeliv) > 0 {
		last := in.callDeliv[len(in.callDeliv)-1]
		if before(s, last) {
			in.fail("M19", "close-not-ascending", "Close delivered %d after %d", s, last)
		}
	}
	in.callDeliv = append(in.callDeliv, s)

	// M03 expectation
	if !in.hasHW {
		in.hasHW = true
		in.hw = in.ord(s)
	} else if in.ord(s) > in.hw {
		in.callExpected += int64(in.ord(s)-in.hw) - 1
		in.hw = in.ord(s)
	}
	delete(in.pending, s)

	if in.cfg.Recycle {
		for _, m := range msgs {
			in.free = append(in.free, m)
		}
	}
	if in.cfg.StreamOwnsSlice {
		full := msgs[:cap(msgs)]
		for i := len(msgs); i < len(full); i++ {
			full[i] = foreignMsg
		}
		for i := range msgs {
			msgs[i] = nil
		}
	}
	if in.cfg.ReenterTickMaintain > 0 && in.nesting == 0 && in.closed == 0 && !in.callIsClose && !in.reentered {
		in.reentered = true
		in.clock.Advance(time.Duration(in.cfg.ReenterTickMaintain) * tick)
		in.nesting++
		if err := in.r.Maintain(); err != nil {
			in.fail("M19", "maintain-error", "Maintain called from inside a callback on an open Reassembler returned %v", err)
		}
		in.nesting--
	}
	if in.cfg.ReenterClose && in.nesting == 0 && in.closed == 0 && !in.callIsClose && !in.reentered && len(in.pending) > 0 {
		in.reentered = true
		in.nesting++
		cbBefore := in.callbacks
		wasClose := in.callIsClose
		in.callIsClose = true
		err := in.r.Close()
		in.callIsClose = wasClose
		in.nesting--
		if err != nil {
			in.fail("M19", "close-error", "Close called from inside a callback returned %v", err)
		} else {
			in.closed++
			in.closeFromCB = true
		}
		_ = cbBefore
	}
	if in.cfg.ReenterPushLow && in.nesting == 0 && in.closed == 0 && !in.callIsClose && !in.reentered && len(in.pending) > 0 {
		in.reentered = true
		low := in.cfg.Base + in.cfg.Offsets[0] - 1
		rec := &msgRec{typ: 1327, step: in.step, ptr: &auparse.AuditMessage{RecordType: 1327, Sequence: low}}
		in.pending[low] = &shadowEvent{seq: low, created: in.clock.T, bornAt: in.delivN, complete: true, msgs: []*msgRec{rec}}
		in.nesting++
		in.r.PushMessage(rec.ptr)
		in.nesting--
	}
	if in.cfg.Reenter && in.nesting == 0 && in.closed == 0 && !in.callIsClose {
		// every outermost callback re-enters (a deterministic function of the state)
		// the oldest INCOMPLETE undelivered event (complete ones may already sit in the batch the
		// outer call is walking)
		var o *shadowEvent
		for _, p := range in.pending {
			if !p.complete && (o == nil || before(p.seq, o.seq)) {
				o = p
			}
		}
		if o != nil {
			in.nesting++
			o.complete = true
			in.r.PushMessage(&auparse.AuditMessage{RecordType: typeEOE, Sequence: o.seq})
			in.nesting--
		}
	}
}

// foreignMsg is what a Stream with StreamOwnsSlice appends to the slices it is handed; it is never pushed.
var foreignMsg = &auparse.AuditMessage{RecordType: 1300, Sequence: 0x7eadbeef, RawData: "appended by the stream"}

func (in *Instance) EventsLost(count int) {
	in.callbacks++
	in.totalLost += int64(count)
	if !in.inCall {
		in.fail("M03", "lost-outside-call", "EventsLost outside any API call")
	}
	in.callLost = append(in.callLost, count)
}

func (m *msgRec) is(a *auparse.AuditMessage) bool {
	if m.ptr != nil {
		return m.ptr == a
	}
	return strings.Contains(a.RawData, m.tag) && uint16(a.RecordType) == m.typ
}

func descMsgs(ms []*auparse.AuditMessage) string {
	var s []string
	for _, m := range ms {
		s = append(s, fmt.Sprintf("%d/%d/%p", m.Sequence, m.RecordType, m))
	}
	return "[" + strings.Join(s, " ") + "]"
}

func descRecs(ms []*msgRec) string {
	var s []string
	for _, m := range ms {
		s = append(s, fmt.Sprintf("%d@step%d/%p%s", m.typ, m.step, m.ptr, m.tag))
	}
	return "[" + strings.Join(s, " ") + "]"
}

// NewInstance creates a fresh Reassembler under a fresh virtual clock.
func NewInstance(cfg Config) *Instance {
	in := &Instance{cfg: cfg, pending: map[uint32]*shadowEvent{}}
	in.heapMin.ord = in.ord
	in.clock = vtime.Install()
	var stream libaudit.Stream = in
	if cfg.FullStream {
		stream = &libaudit.VerifFullStream{Stream: in}
	}
	r, err := libaudit.NewReassembler(cfg.MaxInFlight, cfg.timeout(), stream)
	if err != nil || r == nil {
		in.fail("M19", "new-failed", "NewReassembler with a stream failed: %v", err)
		return in
	}
	in.r = r
	return in
}

func (in *Instance) beginCall(isClose bool) {
	in.inCall = true
	in.callIsClose = isClose
	in.callLost = in.callLost[:0]
	in.callDeliv = in.callDeliv[:0]
	in.callExpected = 0
}

func (in *Instance) endCall(op Op) {
	in.inCall = false
	if in.closeFromCB && !in.cbChecked && in.nesting == 0 {
		// the Stream closed the Reassembler from inside a callback of this call: when the call has returned,
		// everything pushed so far has been delivered (Close flushed the buffer, the call finished its batch)
		in.cbChecked = true
		if len(in.pending) != 0 {
			var seqs []string
			for s, p := range in.pending {
				seqs = append(seqs, fmt.Sprintf("%d(%d recs)", s, len(p.msgs)))
			}
			sort.Strings(seqs)
			in.fail("M01", "not-delivered-after-close-from-callback", "Close was called from inside a callback of %v; after that call returned these pushed records were never delivered: %v", op, seqs)
		}
	}
	// M03: per-call accounting
	var sum int64
	for _, c := range in.callLost {
		sum += int64(c)
		if c <= 0 {
			in.fail("M03", "nonpositive-count", "%v reported EventsLost(%d)", op, c)
		}
	}
	if sum != in.callExpected {
		sub := "sum-mismatch"
		in.fail("M03", sub, "%v: EventsLost total %d (calls %v) but %d sequence numbers were skipped between in-order deliveries (delivered %v, high-water ord now %d)", op, sum, in.callLost, in.callExpected, in.callDeliv, in.hw)
	}
	if in.callExpected == 0 && len(in.callLost) > 0 && sum == 0 {
		in.fail("M03", "spurious-call", "%v: EventsLost called with nothing lost", op)
	}
}

// oldest returns the pending event with the smallest ord.
func (in *Instance) oldest() *shadowEvent {
	if in.wide() {
		for in.heapMin.Len() > 0 {
			top := in.heapMin.evs[0]
			if in.pending[top.seq] == top {
				return top
			}
			heap.Pop(&in.heapMin)
		}
		return nil
	}
	var o *shadowEvent
	for _, p := range in.pending {
		if o == nil || before(p.seq, o.seq) {
			o = p
		}
	}
	return o
}

// Apply performs one op on the real object and runs the monitors.
func (in *Instance) Apply(op Op) {
	if in.dead {
		return
	}
	// a panic inside an API call ends the process of a real caller: nothing pushed so far is delivered any more, no
	// later call happens - no guarantee of any of the reassembler properties survives it.  Reported under every monitor;
	// the instance (whose locks may be held) is not used again.
	defer func() {
		if r := recover(); r != nil {
			if s, ok := r.(string); ok && strings.HasPrefix(s, "harness:") {
				panic(r)
			}
			in.dead = true
			st := string(debug.Stack())
			if i := strings.Index(st, "panic("); i >= 0 {
				st = st[i:]
			}
			if len(st) > 900 {
				st = st[:900]
			}
			for _, m := range []string{"M01", "M02", "M03", "M10", "M19"} {
				in.fail(m, "panic-in-call", "%v panicked: %v\n%s", op, r, st)
			}
		}
	}()
	in.applyOp(op)
}

func (in *Instance) applyOp(op Op) {
	in.step++
	if in.r == nil {
		return
	}
	if in.closed > 0 {
		in.closedAt++
	}
	switch op.Code {
	case opTick:
		in.clock.Advance(time.Duration(op.Delta) * tick)
		return
	case opPush:
		k, known := recKinds[op.Kind]
		if !known && op.Kind != "type" {
			panic("harness: unknown record kind " + op.Kind)
		}
		if op.Kind == "type" {
			k = recKind{Type: op.Type}
		}
		in.beginCall(false)
		if k.Nil {
			in.r.PushMessage(nil)
			in.endCall(op)
			in.afterPush(op)
			return
		}
		if k.Wrap {
			// the header's sequence field is seq + 2^32: no 32-bit sequence number; the call must
			// fail and change nothing (monitors run as for any call)
			raw := fmt.Sprintf("audit(1700000000.123:%d): wrapped a=b", uint64(op.Seq)+1<<32)
			cb := in.callbacks
			err := in.r.Push(auparse.AuditMessageType(k.Type), []byte(raw))
			in.endCall(op)
			if err == nil {
				in.fail("M01", "overflowing-sequence-accepted", "Push(%d, %q) returned nil: the sequence field does not fit 32 bits", k.Type, raw)
			}
			if in.callbacks != cb {
				in.fail("M10", "evicted-without-cause", "Push(%d, %q) (rejected header) made %d callbacks", k.Type, raw, in.callbacks-cb)
			}
			in.afterPush(op)
			return
		}
		rec := &msgRec{typ: k.Type, step: in.step}
		// shadow bookkeeping before the call (callbacks happen inside it)
		if k.Type != typeEOE {
			ev := in.pending[op.Seq]
			if ev == nil {
				ev = &shadowEvent{seq: op.Seq, created: in.clock.T, bornAt: in.delivN}
				in.pending[op.Seq] = ev
				if in.wide() {
					heap.Push(&in.heapMin, ev)
				}
			}
			ev.msgs = append(ev.msgs, rec)
			if terminating(k.Type) {
				ev.complete = true
			}
		} else if ev := in.pending[op.Seq]; ev != nil {
			ev.complete = true
		}
		if k.Raw {
			in.nextTag++
			rec.tag = fmt.Sprintf("tag=<%d>", in.nextTag)
			ts := in.stamp(k)
			if k.TS == 0 {
				ts = time.Unix(1700000000, 123000000)
			}
			raw := fmt.Sprintf("audit(%d.%03d:%d): %s a=b", ts.Unix(), ts.Nanosecond()/1e6, op.Seq, rec.tag)
			if k.Body != "" {
				raw += " " + k.Body
			}
			// the caller's buffer is REUSED for every Push and overwritten as soon as Push has
			// returned (what a receive loop with one read buffer does): Push must have copied it
			in.rawBuf = append(in.rawBuf[:0], raw...)
			err := in.r.Push(auparse.AuditMessageType(k.Type), in.rawBuf)
			for i := range in.rawBuf {
				in.rawBuf[i] = 'Z'
			}
			if err != nil {
				in.fail("M01", "push-error", "Push(%d, %q) returned %v", k.Type, raw, err)
			}
		} else {
			if in.cfg.Recycle && len(in.free) > 0 {
				// the struct of an already delivered message, filled in again
				rec.ptr = in.free[len(in.free)-1]
				in.free = in.free[:len(in.free)-1]
				*rec.ptr = auparse.AuditMessage{RecordType: auparse.AuditMessageType(k.Type), Sequence: op.Seq, RawData: op.Raw}
			} else {
				rec.ptr = &auparse.AuditMessage{RecordType: auparse.AuditMessageType(k.Type), Sequence: op.Seq, RawData: op.Raw}
			}
			if k.TS != 0 {
				rec.ptr.Timestamp = in.stamp(k)
			}
			if k.Body != "" {
				rec.ptr.RawData = fmt.Sprintf("audit(1700000000.123:%d): %s", op.Seq, k.Body)
				rec.ptr.Timestamp = time.Unix(1700000000, 123000000).UTC()
			}
			in.r.PushMessage(rec.ptr)
			if x := in.cfg.MutateAfterPush; x != 0 && k.Type != typeEOE {
				if ev := in.pending[op.Seq]; ev != nil && len(ev.msgs) > 0 && ev.msgs[len(ev.msgs)-1] == rec {
					// still undelivered: the struct is scribbled on (restored in the callback, where identity is by pointer)
					if in.mutated == nil {
						in.mutated = map[*auparse.AuditMessage]uint32{}
					}
					in.mutated[rec.ptr] = rec.ptr.Sequence
					rec.ptr.Sequence ^= x
				}
			}
		}
		in.endCall(op)
		in.afterPush(op)
	case opMaintain:
		in.beginCall(false)
		cb := in.callbacks
		err := in.r.Maintain()
		in.endCall(op)
		if in.closed > 0 {
			if err == nil {
				in.fail("M19", "maintain-after-close-nil", "Maintain after Close returned nil")
			}
			if in.callbacks != cb {
				in.fail("M19", "maintain-after-close-callback", "Maintain after Close made callbacks")
			}
		} else {
			if err != nil {
				in.fail("M19", "maintain-error", "Maintain on an open Reassembler returned %v", err)
			}
			in.checkStale(op)
		}
	case opClose:
		in.beginCall(true)
		cb := in.callbacks
		err := in.r.Close()
		in.endCall(op)
		if in.closed == 0 {
			if err != nil {
				in.fail("M19", "close-error", "first Close returned %v", err)
			} else {
				in.closed++
			}
			if len(in.pending) != 0 {
				var seqs []string
				for s, p := range in.pending {
					seqs = append(seqs, fmt.Sprintf("%d(%d recs)", s, len(p.msgs)))
				}
				sort.Strings(seqs)
				in.fail("M01", "not-delivered-by-close", "after Close these pushed records were never delivered: %v", seqs)
				in.fail("M19", "not-delivered-by-close", "after Close these buffered events were never delivered: %v", seqs)
			}
			// whole-history accounting: every sequence number between the FIRST delivered event and the highest delivered one
			// that was never delivered has been reported lost (numbers delivered late were reported, too: the total may be
			// larger, never smaller).  Holds whatever the Stream does from its callbacks.
			if in.hasFirst && len(in.delivered) < 1<<20 {
				var hi uint32
				for o := range in.delivered {
					if int32(o-in.firstDeliv) > 0 && (hi == 0 || int32(o-hi) > 0) {
						hi = o
					}
				}
				missing := int64(0)
				if hi != 0 && hi-in.firstDeliv < 1<<20 { // one window only (configurations 2^31 apart are not about loss counts)
					for o := in.firstDeliv + 1; o != hi; o++ {
						if !in.delivered[o] {
							missing++
						}
					}
				}
				if in.totalLost < missing {
					in.fail("M03", "never-delivered-not-reported", "after Close: %d sequence numbers between the first delivered event (ord %d) and the highest delivered one (ord %d) were never delivered, but EventsLost reported only %d in total", missing, in.firstDeliv, hi, in.totalLost)
				}
			}
		} else {
			if err == nil {
				in.fail("M19", "second-close-nil", "second Close returned nil")
				in.closed++
			}
			if in.callbacks != cb {
				in.fail("M19", "second-close-callback", "second Close made callbacks")
			}
		}
	}
}

func (in *Instance) afterPush(op Op) {
	if in.closed > 0 {
		return // pushes after Close are outside the stated guarantees
	}
	// M10 bound and head-not-complete
	if len(in.pending) > in.cfg.MaxInFlight {
		in.fail("M10", "over-capacity", "after %v %d events are buffered, maxInFlight=%d", op, len(in.pending), in.cfg.MaxInFlight)
	}
	if o := in.oldest(); o != nil && o.complete {
		in.fail("M10", "complete-head-buffered", "after %v the oldest buffered event %d is complete but was not delivered", op, o.seq)
	}
	in.checkStale(op)
}

// checkStale is M19's "flushed by the first Maintain/Push after the timeout".
func (in *Instance) checkStale(op Op) {
	if o := in.oldest(); o != nil {
		if in.clock.T.After(o.created.Add(in.cfg.timeout())) {
			in.fail("M19", "stale-not-flushed", "after %v the oldest buffered event %d is past its timeout (age %v > %v) but was not delivered", op, o.seq, in.clock.T.Sub(o.created), in.cfg.timeout())
		}
	}
}

// Ops returns the operations enabled in the current driver state.
func (in *Instance) Ops() []Op {
	if in.dead {
		return nil
	}
	c := in.cfg
	var ops []Op
	if in.closed > 0 {
		if in.closedAt >= c.PostClose {
			return nil
		}
		ops = append(ops, Op{Code: opMaintain}, Op{Code: opClose})
		ops = append(ops, Op{Code: opPush, Seq: c.Base + c.Offsets[0], Kind: "fin"})
		ops = append(ops, Op{Code: opPush, Seq: c.Base + c.Offsets[len(c.Offsets)-1], Kind: "mid"})
		if len(c.Offsets) > 1 {
			// a complete event ahead of everything delivered so far: a gap that lies across the Close call
			ops = append(ops, Op{Code: opPush, Seq: c.Base + c.Offsets[len(c.Offsets)-1], Kind: "fin"})
		}
		return ops
	}
	for _, off := range c.Offsets {
		s := c.Base + off
		for _, k := range c.Kinds {
			if rk := recKinds[k]; k != "eoe" && k != "nil" && rk.Type != typeEOE && !rk.Wrap {
				if p := in.pending[s]; p != nil && len(p.msgs) >= c.MaxRecs {
					continue
				}
			}
			if k == "nil" && off != c.Offsets[0] {
				continue // nil carries no sequence: one op is enough
			}
			ops = append(ops, Op{Code: opPush, Seq: s, Kind: k})
		}
	}
	ops = append(ops, Op{Code: opMaintain})
	for _, d := range c.Ticks {
		ops = append(ops, Op{Code: opTick, Delta: d})
	}
	ops = append(ops, Op{Code: opClose})
	return ops
}

// ---- canonical state key ---------------------------------------------------

var auditMsgType = reflect.TypeOf(auparse.AuditMessage{})

// Key is the canonical key of (real object, monitor state).
func (in *Instance) Key() [20]byte {
	c := in.cfg
	clamp := func(d time.Duration) int64 {
		// only the sign and small magnitudes of (expiry - now) matter
		t := int64(d / tick)
		if d < 0 {
			return -1
		}
		if t > 8 {
			return 9
		}
		return t
	}
	opts := &statehash.Opts{
		Now:       in.clock.T,
		TimeClamp: clamp,
		SkipType: func(t reflect.Type) bool {
			// the harness's own Stream (reachable through Reassembler.stream) and
			// shim mutex internals carry no library state
			return t == reflect.TypeOf((*Instance)(nil)) || t.PkgPath() == "sync" ||
				strings.HasSuffix(t.PkgPath(), "/vshim/vsync")
		},
		Custom: func(v reflect.Value, w *statehash.Writer) bool {
			if v.Type() == auditMsgType {
				// the Reassembler looks only at RecordType and Sequence
				w.U64(v.FieldByName("RecordType").Uint())
				w.U64(v.FieldByName("Sequence").Uint())
				if ts := v.FieldByName("Timestamp"); ts.IsValid() && ts.CanAddr() {
					tm := *(*time.Time)(unsafe.Pointer(ts.UnsafeAddr()))
					switch d := in.clock.T.Sub(tm); {
					case tm.IsZero():
						w.U64(0)
					case d >= -16*tick && d <= 16*tick:
						// stamped near the virtual present: its age in ticks is what code could react to
						w.U64(1)
						w.U64(uint64(int64(d/tick) + 16))
					default:
						w.U64(uint64(tm.Unix()))
					}
				}
				return true
			}
			return false
		},
	}
	// monitor state
	type mev struct {
		Ord       uint32
		N         int
		Complete  bool
		Overtaken bool
		Age       int64
	}
	var mevs []mev
	for _, p := range in.pending {
		age := int64(in.clock.T.Sub(p.created) / tick)
		lim := c.TimeoutTicks + 1
		if c.TimeoutTicks == farTimeout || lim < 0 {
			lim = 0
		}
		if age > lim {
			age = lim
		}
		mevs = append(mevs, mev{in.ord(p.seq), len(p.msgs), p.complete, p.overtaken, age})
	}
	sort.Slice(mevs, func(i, j int) bool { return mevs[i].Ord < mevs[j].Ord })
	mon := struct {
		Evs      []mev
		HW       uint32
		HasHW    bool
		Closed   int
		ClosedAt int
		Reent    bool
	}{mevs, in.hw, in.hasHW, in.closed, in.closedAt, in.reentered}
	return statehash.Key(opts, in.r, mon)
}
