package main

import (
	"fmt"
	"sort"
	"strings"
	"sync"
	"time"

	libaudit "github.com/elastic/go-libaudit/v2"
	"github.com/elastic/go-libaudit/v2/auparse"
	"github.com/elastic/go-libaudit/v2/vshim/sched"

	"verif/engine/explore"
)

// pileHarness: k goroutines, each pushing two records of its OWN sequence; afterwards Close.
// "Any series of PushMessage calls followed by Close" is not restricted to one goroutine
// (C02 is, explicitly): every pushed record is delivered exactly once, unsplit per callback
// sequence.  Explored with the pile-up schedules of engine/explore (every thread driven to
// the same scheduling point, for every point), which reach k-way pile-ups between any two
// steps of PushMessage.
type pileHarness struct {
	k, maxInFlight int
	r              *libaudit.Reassembler
	mu             sync.Mutex
	got            map[*auparse.AuditMessage]int
	all            []*auparse.AuditMessage
	viol           []explore.Finding
}

func (h *pileHarness) ReassemblyComplete(msgs []*auparse.AuditMessage) {
	h.mu.Lock()
	defer h.mu.Unlock()
	for _, m := range msgs {
		if m.Sequence != msgs[0].Sequence {
			h.viol = append(h.viol, explore.Finding{Sig: "M01/mixed-sequences", What: "callback mixes sequences"})
		}
		h.got[m]++
	}
}
func (h *pileHarness) EventsLost(int) {}

func (h *pileHarness) Body(x *sched.Exec) {
	x.Prime = true
	h.got = map[*auparse.AuditMessage]int{}
	r, err := libaudit.NewReassembler(h.maxInFlight, 1000*time.Hour, h)
	if err != nil {
		panic(err)
	}
	h.r = r
	for i := 0; i < h.k; i++ {
		a := &auparse.AuditMessage{RecordType: 1300, Sequence: uint32(100 + 2*i)}
		b := &auparse.AuditMessage{RecordType: 1302, Sequence: uint32(100 + 2*i)}
		h.all = append(h.all, a, b)
		x.Go(fmt.Sprintf("t%d", i), func() {
			sched.Yield("call-push")
			h.r.PushMessage(a)
			sched.Yield("call-push-2")
			h.r.PushMessage(b)
		})
	}
}

func (h *pileHarness) Finish(res *sched.Result) (string, []explore.Finding) {
	if res != nil && (res.Deadlock || res.Panic != nil || res.Horizon) {
		return "aborted", h.viol
	}
	if err := h.r.Close(); err != nil {
		h.viol = append(h.viol, explore.Finding{Sig: "M19/close-error", What: fmt.Sprintf("Close returned %v", err)})
	}
	var bad []string
	for _, m := range h.all {
		if h.got[m] != 1 {
			bad = append(bad, fmt.Sprintf("seq %d type %d: %d times", m.Sequence, m.RecordType, h.got[m]))
		}
	}
	if len(bad) > 0 {
		sort.Strings(bad)
		h.viol = append(h.viol, explore.Finding{Sig: "M01/not-delivered-exactly-once-concurrent-pushers", What: fmt.Sprintf("%d goroutines pushed two records each of their own sequence (maxInFlight=%d), then Close: %s", h.k, h.maxInFlight, strings.Join(bad, "; "))})
	}
	return fmt.Sprint(len(bad)), h.viol
}

// pilePass runs the pile-up schedules for several (maxInFlight, k).
func pilePass(mons map[string]bool) *Stats {
	st := &Stats{Config: "k goroutines x 2 records of their own sequence; Close", Mode: "pile-up-schedules", Exhaustive: true}
	sigSeen := map[string]bool{}
	for _, mk := range [][2]int{{0, 5}, {0, 8}, {1, 9}, {2, 13}, {1, 5}, {5, 25}} {
		mk := mk
		e := &explore.Explorer{Bound: -1, Horizon: 20000, NewHarness: func() explore.Harness { return &pileHarness{k: mk[1], maxInFlight: mk[0]} }}
		r := e.PileUps()
		st.Executions += r.Executions
		st.States += int64(len(r.Outcomes))
		st.Transitions += r.Executions * int64(4*mk[1])
		for _, f := range r.Findings {
			parts := strings.SplitN(f.Sig, "/", 2)
			if len(parts) != 2 {
				parts = []string{"M01", f.Sig}
			}
			if !(mons[parts[0]] || mons[f.Sig]) || sigSeen[f.Sig] {
				continue
			}
			sigSeen[f.Sig] = true
			st.Viol = append(st.Viol, FoundViolation{Mon: parts[0], Sub: parts[1], What: f.What, Config: Config{MaxInFlight: mk[0], TimeoutTicks: farTimeout, Base: 100, Offsets: []uint32{0}, Kinds: []string{"mid"}}})
		}
	}
	st.Samples = append(st.Samples, "5..25 goroutines all stopped at the same scheduling point of PushMessage, for every point, released ascending / descending / in lock step")
	return st
}
