package main

import (
	"fmt"
	"reflect"
	"sort"

	libaudit "github.com/elastic/go-libaudit/v2"
)

// Package-level counters: state that belongs to no object (a serial number shared by every Reassembler of the process, a
// statistics word) is out of reach of reflection on objects and of ageing one object.  The instrumenter generates an
// accessor for the package-level integer variables of the tree under test (VerifPackageVars); every one that MOVES when a
// short history runs is set next to the limits of its type (signed and unsigned, by its width), and short histories -
// complete events, events leaving by overflow, by timeout, by Close - run across the wrap with all monitors on.

type intVar struct {
	name string
	bits int
	get  func() uint64
	set  func(uint64)
}

func packageIntVars() []intVar {
	var out []intVar
	m := libaudit.VerifPackageVars()
	var names []string
	for n := range m {
		names = append(names, n)
	}
	sort.Strings(names)
	for _, n := range names {
		pv := reflect.ValueOf(m[n])
		if pv.Kind() != reflect.Ptr {
			continue
		}
		v := pv.Elem()
		switch v.Kind() {
		case reflect.Int, reflect.Int8, reflect.Int16, reflect.Int32, reflect.Int64:
			v := v
			out = append(out, intVar{n, v.Type().Bits(), func() uint64 { return uint64(v.Int()) }, func(x uint64) { v.SetInt(int64(x) << (64 - v.Type().Bits()) >> (64 - v.Type().Bits())) }})
		case reflect.Uint, reflect.Uint8, reflect.Uint16, reflect.Uint32, reflect.Uint64, reflect.Uintptr:
			v := v
			out = append(out, intVar{n, v.Type().Bits(), func() uint64 { return v.Uint() }, func(x uint64) { v.SetUint(x & (1<<uint(v.Type().Bits()) - 1)) }})
		case reflect.Struct:
			// an atomic integer type: Load / Store methods on the pointer
			ld, st := pv.MethodByName("Load"), pv.MethodByName("Store")
			if !ld.IsValid() || !st.IsValid() || ld.Type().NumOut() != 1 {
				continue
			}
			t := ld.Type().Out(0)
			bits := t.Bits()
			out = append(out, intVar{n, bits, func() uint64 {
				r := ld.Call(nil)[0]
				if r.CanInt() {
					return uint64(r.Int())
				}
				return r.Uint()
			}, func(x uint64) {
				a := reflect.New(t).Elem()
				if a.CanInt() {
					a.SetInt(int64(x) << (64 - bits) >> (64 - bits))
				} else {
					a.SetUint(x & (1<<uint(bits) - 1))
				}
				st.Call([]reflect.Value{a})
			}})
		}
	}
	return out
}

func pkgVarsPass(mons map[string]bool) *Stats {
	st := &Stats{Config: "package-level integer variables of the tree under test", Mode: "package-counters", Exhaustive: true}
	vars := packageIntVars()
	cfg := Config{MaxInFlight: 2, TimeoutTicks: 2, Base: 5, Offsets: []uint32{0}, Kinds: []string{"mid"}, MaxRecs: 3, PostClose: 1}
	push := func(i int, kind string) Op { return Op{Code: opPush, Seq: cfg.Base + uint32(i), Kind: kind} }
	hists := [][]Op{
		{push(0, "fin"), push(1, "fin"), push(2, "fin"), push(3, "fin"), push(4, "fin"), push(5, "fin"), {Code: opMaintain}, {Code: opClose}},
		{push(0, "mid"), push(1, "mid"), push(2, "mid"), push(3, "mid"), push(4, "mid"), push(5, "mid"), {Code: opClose}},
		{push(0, "mid"), push(1, "mid"), {Code: opTick, Delta: 5}, {Code: opMaintain}, push(2, "mid"), push(3, "mid"), {Code: opTick, Delta: 5}, push(4, "mid"), {Code: opMaintain}, {Code: opClose}},
		{push(0, "mid"), push(0, "path"), push(0, "eoe"), push(1, "mid"), push(1, "eoe"), push(3, "mid"), push(2, "fin"), push(3, "eoe"), {Code: opClose}},
	}
	before := map[string]uint64{}
	for _, v := range vars {
		before[v.name] = v.get()
	}
	for _, h := range hists {
		replay(cfg, h)
		st.Executions++
	}
	sigSeen := map[string]bool{}
	moved := 0
	for _, v := range vars {
		if v.get() == before[v.name] {
			continue
		}
		moved++
		var limits []uint64
		for _, b := range []int{8, 16, 32, 64} {
			if b <= v.bits {
				limits = append(limits, 1<<uint(b)-3, 1<<uint(b-1)-3) // just below the unsigned and the signed limit of each width
			}
		}
		limits = append(limits, ^uint64(0)-2) // -3
		for _, lim := range limits {
			for hi, h := range hists {
				v.set(lim)
				in := replay(cfg, h)
				st.Executions++
				st.Transitions += int64(len(h))
				for _, x := range selected(in.viol, mons) {
					sig := x.Mon + "/" + x.Sub
					if !sigSeen[sig] {
						sigSeen[sig] = true
						st.Viol = append(st.Viol, FoundViolation{Mon: x.Mon, Sub: x.Sub, What: fmt.Sprintf("with the package-level variable %s (%d bits; it moves when events are pushed) set to %#x before history %d: %s", v.name, v.bits, lim, hi, x.What), Config: cfg, History: h})
					}
				}
			}
		}
		v.set(before[v.name])
	}
	st.States = int64(len(vars))
	st.Outcomes = int64(moved)
	st.Samples = append(st.Samples, fmt.Sprintf("%d package-level integer variables, %d of them move under pushes", len(vars), moved))
	return st
}
