package main

import (
	"fmt"
	"strings"
	"sync"
	"time"

	libaudit "github.com/elastic/go-libaudit/v2"
	"github.com/elastic/go-libaudit/v2/auparse"
	"github.com/elastic/go-libaudit/v2/vshim/sched"

	"verif/engine/explore"
)

// closeHarness: what Close promises ("delivers every buffered event once, in order, with loss accounting") does not
// depend on who else is calling: one goroutine pushes records (an older event after a newer one), another calls
// Close - at every point between and INSIDE the pusher's calls (every schedule of the two threads, whole tree).
// Observed per execution: the events the Close call itself delivers are ascending; every record whose PushMessage
// call returned before Close was called is delivered exactly once by the end; when everything delivered forms one
// contiguous run of sequence numbers delivered in ascending order, no loss is reported.
type closeHarness struct {
	maxInFlight int
	pushes      []uint32
	r           *libaudit.Reassembler
	mu          sync.Mutex
	closer      int // thread id of the closing goroutine
	byCloser    []uint32
	order       []uint32
	got         map[*auparse.AuditMessage]int
	lost        int
	msgs        []*auparse.AuditMessage
	closeErr    error
	viol        []explore.Finding
}

func (h *closeHarness) ReassemblyComplete(msgs []*auparse.AuditMessage) {
	id := -1
	if t := sched.Cur(); t != nil {
		id = t.ID
	}
	h.mu.Lock()
	defer h.mu.Unlock()
	for _, m := range msgs {
		h.got[m]++
	}
	if len(msgs) > 0 {
		h.order = append(h.order, msgs[0].Sequence)
		if id == h.closer {
			h.byCloser = append(h.byCloser, msgs[0].Sequence)
		}
	}
}

func (h *closeHarness) EventsLost(n int) {
	h.mu.Lock()
	h.lost += n
	h.mu.Unlock()
}

func (h *closeHarness) Body(x *sched.Exec) {
	x.Prime = true
	h.got = map[*auparse.AuditMessage]int{}
	r, err := libaudit.NewReassembler(h.maxInFlight, 1000*time.Hour, h)
	if err != nil {
		panic(err)
	}
	h.r = r
	for _, s := range h.pushes {
		h.msgs = append(h.msgs, &auparse.AuditMessage{RecordType: 1300, Sequence: s})
	}
	x.Go("pusher", func() {
		for _, m := range h.msgs {
			sched.Yield("call-push")
			h.r.PushMessage(m)
		}
	})
	h.closer = 1
	x.Go("closer", func() {
		sched.Yield("call-close")
		h.closeErr = h.r.Close()
	})
}

func (h *closeHarness) Finish(res *sched.Result) (string, []explore.Finding) {
	if res != nil && (res.Deadlock || res.Panic != nil || res.Horizon) {
		return "aborted", h.viol
	}
	desc := fmt.Sprintf("maxInFlight=%d; one goroutine pushes single-record events %v, another calls Close", h.maxInFlight, h.pushes)
	if h.closeErr != nil {
		h.viol = append(h.viol, explore.Finding{Sig: "M19/close-error", What: fmt.Sprintf("%s: the first Close returned %v", desc, h.closeErr)})
	}
	for i := 1; i < len(h.byCloser); i++ {
		if before(h.byCloser[i], h.byCloser[i-1]) {
			h.viol = append(h.viol, explore.Finding{Sig: "M19/close-not-ascending", What: fmt.Sprintf("%s: the Close call delivered %v", desc, h.byCloser)})
			break
		}
	}
	for _, m := range h.msgs {
		if h.got[m] > 1 {
			h.viol = append(h.viol, explore.Finding{Sig: "M19/delivered-twice-around-close", What: fmt.Sprintf("%s: the record of sequence %d was delivered %d times", desc, m.Sequence, h.got[m])})
		}
	}
	asc, lo, hi := true, uint32(0), uint32(0)
	for i, s := range h.order {
		if i == 0 {
			lo, hi = s, s
			continue
		}
		if before(s, h.order[i-1]) {
			asc = false
		}
		if before(s, lo) {
			lo = s
		}
		if before(hi, s) {
			hi = s
		}
	}
	if asc && len(h.order) > 0 && int(hi-lo)+1 == len(h.order) && h.lost != 0 {
		h.viol = append(h.viol, explore.Finding{Sig: "M19/close-loss-accounting", What: fmt.Sprintf("%s: the sequences %v were delivered in ascending order without a gap, yet %d lost events were reported", desc, h.order, h.lost)})
	}
	return fmt.Sprint(h.order, h.byCloser, h.lost), h.viol
}

func closersPass(mons map[string]bool) *Stats {
	st := &Stats{Config: "one goroutine pushes, one calls Close: every schedule", Mode: "close-vs-push-schedules", Exhaustive: true}
	sigSeen := map[string]bool{}
	for _, c := range []struct {
		m      int
		pushes []uint32
	}{{2, []uint32{9, 8}}, {3, []uint32{7, 9, 8}}, {4, []uint32{7, 9, 8}}, {2, []uint32{7, 9, 8}}, {3, []uint32{1<<32 - 1, 1, 0}}, {4, []uint32{12, 11, 10}}, {1, []uint32{9, 8}}} {
		c := c
		e := &explore.Explorer{Bound: -1, MaxExec: 400000, Horizon: 20000, NewHarness: func() explore.Harness { return &closeHarness{maxInFlight: c.m, pushes: c.pushes} }}
		r := e.Explore()
		st.Executions += r.Executions
		st.States += int64(len(r.Outcomes))
		st.Transitions += r.Executions * int64(r.MaxChoices+1)
		if !r.Exhausted {
			st.Exhaustive = false
			st.Cap = "schedule cap"
		}
		for _, n := range r.Nondeterminism {
			st.Viol = append(st.Viol, FoundViolation{Mon: "ERROR", Sub: "nondeterminism", What: n})
		}
		for _, f := range r.Findings {
			parts := strings.SplitN(f.Sig, "/", 2)
			if len(parts) != 2 {
				parts = []string{"M19", f.Sig}
			}
			if !(mons[parts[0]] || mons[f.Sig]) || sigSeen[f.Sig] {
				continue
			}
			sigSeen[f.Sig] = true
			st.Viol = append(st.Viol, FoundViolation{Mon: parts[0], Sub: parts[1], What: f.What + fmt.Sprintf(" (schedule %v)", f.Schedule), Config: Config{MaxInFlight: c.m, TimeoutTicks: farTimeout, Base: c.pushes[0], Offsets: []uint32{0}, Kinds: []string{"mid"}}})
		}
	}
	st.Samples = append(st.Samples, "pusher [7 9 8] vs Close, maxInFlight=3: every interleaving of the two goroutines at every lock operation")
	return st
}
