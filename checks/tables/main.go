// Command tables decides C20: the generated / hand-edited name-number tables
// are mutually inverse and internally consistent.  Every table is enumerated
// completely (DESIGN.md §5 C20).
package main

import (
	"crypto/sha1"
	"encoding/hex"
	"encoding/json"
	"flag"
	"fmt"
	"os"
	"path/filepath"
	"regexp"
	"sort"
	"strconv"
	"strings"
	"time"

	"github.com/elastic/go-libaudit/v2/aucoalesce"
	"github.com/elastic/go-libaudit/v2/auparse"
	"github.com/elastic/go-libaudit/v2/rule"
	"github.com/elastic/go-libaudit/v2/rule/flags"

	"verif/engine/ev"
	"verif/engine/par"
	"verif/refdata"
)

var (
	run     *ev.Run
	evals   int64
	nontriv int64
)

func rep(sig, format string, a ...interface{}) {
	w := fmt.Sprintf(format, a...)
	run.Report(ev.Violation{Sig: "C20 " + sig, What: w, Replay: w})
}

func eventTypeDigest() string {
	h := sha1.New()
	for t := 0; t < 65536; t++ {
		e := aucoalesce.GetAuditEventType(auparse.AuditMessageType(t))
		fmt.Fprintf(h, "%d:%d:%s;", t, e, e.String())
	}
	return hex.EncodeToString(h.Sum(nil))
}

// orderTable categorises all 65536 types in a given visiting order, in a fresh process.
func orderTable(order string) string {
	tab := make([]byte, 65536)
	visit := func(t int) { tab[t] = byte(aucoalesce.GetAuditEventType(auparse.AuditMessageType(t))) + 1 }
	switch order {
	case "descending":
		for t := 65535; t >= 0; t-- {
			visit(t)
		}
	case "stride":
		for k := 0; k < 65536; k++ {
			visit((k * 40503) & 0xFFFF) // odd multiplier: a permutation
		}
	case "high-first":
		for t := 4096; t < 65536; t++ {
			visit(t)
		}
		for t := 0; t < 4096; t++ {
			visit(t)
		}
	default:
		for t := 0; t < 65536; t++ {
			visit(t)
		}
	}
	h := sha1.Sum(tab)
	return hex.EncodeToString(h[:]) + ":" + string(firstDiffHelper(tab))
}

var ascTable []byte

func firstDiffHelper(tab []byte) []byte { return []byte(hex.EncodeToString(tab)) }

func main() {
	if par.IsWorker() {
		var j struct {
			Order string
			First string
			In    probeInput
		}
		par.WorkerMain(&j, func() interface{} {
			if j.First != "" {
				// the named entry point is the FIRST thing this process does with the library
				first := probes[j.First](j.In)
				out := map[string]string{"first": j.First, "first-digest": first}
				for _, n := range probeNames() {
					out["then:"+n] = probes[n](j.In)
				}
				return out
			}
			// nothing else may call GetAuditEventType in this process before the ordered pass
			return map[string]string{"order": j.Order, "table": orderTable(j.Order)}
		})
	}
	prop := flag.String("prop", "C20", "property id")
	tier := flag.String("tier", "quick", "quick|thorough")
	replayF := flag.String("replay", "", "replay: re-runs the (complete, cheap) check")
	flag.Parse()
	_ = replayF
	run = ev.Begin(*prop, *tier, "exploration")

	tablesAtStart := exportedTablesDigest()
	msgTypes()
	errnos()
	errnoConsumers()
	syscallConsumers()
	arches()
	syscalls()
	syscallNumbersPerArch()
	ruleTables()
	normalizations()
	eventTypes()
	firstCalls()
	// the published tables are data: after everything above - and after the parser, the printers and the stringers have
	// seen codes and names that are in no table - they hold what they held at the start, and the arch tables are still
	// each other's inverse through the rule builder
	unknownInputs()
	if d := exportedTablesDigest(); d != tablesAtStart {
		rep("exported-table-changed-by-use", "the exported tables differ after use:\n%s", diffLines(tablesAtStart, d))
	} else {
		nontriv++
	}
	arches()

	run.Set("evaluations", evals)
	run.Set("distinct_nontrivial", nontriv)
	run.Set("rule", "complete enumeration: all 65536 record type codes (String -> GetAuditMessageType, MarshalText -> UnmarshalText); every row of the errno maps; every arch name/code through rule.Build and ToCommandLine; every name of every per-arch syscall table (duplicates, and Build-by-name sets the table's bit); every rule field / operator / inter-field comparison name through Build -> code (= refdata) -> ToCommandLine -> same name; every record_types / syscalls / has_fields entry of the tree's normalizations.yaml; GetAuditEventType over all 65536 types twice and in a second process. non-trivial = table row that round-tripped / entry that resolved")
	run.Set("exhaustive", true)
	run.Assume("amd64 host: arch names print as b64/b32 for x86_64/i386; codes compared with refdata (linux/audit.h)")
	os.Exit(run.Finish())
}

// ---- every entry point as the FIRST call of a fresh process ----------------------------------
//
// Tables that are built lazily, memoised or primed by another entry point give the same
// answers only if every reader triggers the construction.  Each probe is a deterministic
// digest of one entry point over fixed inputs; for each probe a fresh process runs it first
// (then all the others); the digest must equal the one of a process that has done everything.

type probeInput struct {
	Wires []string // hex wire rules (built by the parent)
	Lines []string // rule lines
	Names []string // record type names
	Logs  []string // audit log lines
}

func dig(parts ...string) string {
	h := sha1.New()
	for _, p := range parts {
		fmt.Fprintf(h, "%d:%s;", len(p), p)
	}
	return hex.EncodeToString(h.Sum(nil))
}

var probes = map[string]func(in probeInput) string{
	"rule.ToCommandLine": func(in probeInput) string {
		var out []string
		for _, w := range in.Wires {
			b, _ := hex.DecodeString(w)
			for _, resolve := range []bool{false} {
				t, err := rule.ToCommandLine(rule.WireFormat(b), resolve)
				out = append(out, t, fmt.Sprint(err))
			}
		}
		return dig(out...)
	},
	"flags.Parse+rule.Build": func(in probeInput) string {
		var out []string
		for _, l := range in.Lines {
			w, err := buildLine(l)
			out = append(out, hex.EncodeToString(w), fmt.Sprint(err))
		}
		return dig(out...)
	},
	"AuditMessageType.String": func(in probeInput) string {
		var out []string
		for t := 0; t < 65536; t++ {
			out = append(out, auparse.AuditMessageType(t).String())
		}
		return dig(out...)
	},
	"GetAuditMessageType": func(in probeInput) string {
		var out []string
		for _, n := range in.Names {
			t, err := auparse.GetAuditMessageType(n)
			out = append(out, fmt.Sprint(t, err))
		}
		return dig(out...)
	},
	"MarshalText": func(in probeInput) string {
		var out []string
		for t := 0; t < 65536; t += 7 {
			b, err := auparse.AuditMessageType(t).MarshalText()
			out = append(out, string(b), fmt.Sprint(err))
		}
		return dig(out...)
	},
	"UnmarshalText": func(in probeInput) string {
		var out []string
		for _, n := range in.Names {
			var t auparse.AuditMessageType
			err := t.UnmarshalText([]byte(strings.ToLower(n)))
			out = append(out, fmt.Sprint(t, err))
		}
		return dig(out...)
	},
	"ParseLogLine+Data": func(in probeInput) string {
		var out []string
		for _, l := range in.Logs {
			m, err := auparse.ParseLogLine(l)
			if err != nil {
				out = append(out, err.Error())
				continue
			}
			d, err := m.Data()
			keys := make([]string, 0, len(d))
			for k := range d {
				keys = append(keys, k)
			}
			sort.Strings(keys)
			for _, k := range keys {
				out = append(out, k, d[k])
			}
			out = append(out, fmt.Sprint(err))
		}
		return dig(out...)
	},
	"CoalesceMessages": func(in probeInput) string {
		var out []string
		for _, l := range in.Logs {
			m, err := auparse.ParseLogLine(l)
			if err != nil {
				continue
			}
			e, err := aucoalesce.CoalesceMessages([]*auparse.AuditMessage{m})
			b, _ := json.Marshal(e)
			out = append(out, string(b), fmt.Sprint(err))
		}
		return dig(out...)
	},
	"GetAuditEventType": func(in probeInput) string { return eventTypeDigest() },
}

func probeNames() []string {
	var n []string
	for k := range probes {
		n = append(n, k)
	}
	sort.Strings(n)
	return n
}

func firstCalls() {
	var in probeInput
	var archNames []string
	for _, n := range auparse.AuditArchNames {
		archNames = append(archNames, n)
	}
	sort.Strings(archNames)
	for _, a := range archNames {
		in.Lines = append(in.Lines, "-a always,exit -F arch="+a, "-a always,exit -F arch="+a+" -S 1 -F auid>=1000 -k k", "-a never,exit -F arch!="+a+" -S open")
	}
	in.Lines = append(in.Lines, "-a always,exit -S open -F uid=0", "-w /etc/passwd -p wa -k w", "-a always,exit -F arch=b64 -S execve -C uid!=euid -F key=x", "-a always,task", "-a never,exclude -F msgtype=SYSCALL", "-a always,exit -F exit=-EPERM -S all", "-D")
	for _, l := range in.Lines {
		if w, err := buildLine(l); err == nil {
			in.Wires = append(in.Wires, hex.EncodeToString(w))
		}
	}
	for t := 0; t < 65536; t += 3 {
		in.Names = append(in.Names, auparse.AuditMessageType(t).String())
	}
	var archCodes []string
	for c := range auparse.AuditArchNames {
		archCodes = append(archCodes, fmt.Sprintf("%x", uint32(c)))
	}
	sort.Strings(archCodes)
	for _, c := range archCodes {
		for _, nr := range []int{0, 1, 2, 59, 191, 322} {
			in.Logs = append(in.Logs, fmt.Sprintf("type=SYSCALL msg=audit(1700000000.123:%d): arch=%s syscall=%d success=no exit=-13 a0=1 a1=2 a2=3 a3=4 items=0 ppid=1 pid=2 auid=4294967295 uid=0 gid=0 euid=0 suid=0 fsuid=0 egid=0 sgid=0 fsgid=0 tty=pts0 ses=4294967295 comm=\"c\" exe=\"/x\" key=(null)", nr, c, nr))
		}
	}
	in.Logs = append(in.Logs, "type=USER_LOGIN msg=audit(1700000000.123:9): pid=1 uid=0 auid=1000 ses=1 msg='op=login id=1000 exe=\"/usr/sbin/sshd\" hostname=h addr=1.2.3.4 terminal=ssh res=failed'",
		"type=SOCKADDR msg=audit(1700000000.123:9): saddr=020001BB0A141E280000000000000000", "type=AVC msg=audit(1700000000.123:9): avc:  denied  { read } for  pid=1 comm=\"x\" scontext=a:b:c:s0 tcontext=d:e:f:s0 tclass=file permissive=0")
	// reference: this process, which has exercised every table already
	ref := map[string]string{}
	for _, n := range probeNames() {
		ref[n] = probes[n](in)
	}
	var jobs []interface{}
	for _, n := range probeNames() {
		jobs = append(jobs, map[string]interface{}{"First": n, "In": in})
	}
	par.Map("tables", jobs, 10*time.Minute, nil, func(r par.Result) {
		if r.Died {
			run.Errorf("first-call worker died: %s", r.Stderr)
			return
		}
		var m map[string]string
		_ = json.Unmarshal(r.Out, &m)
		f := m["first"]
		evals++
		if m["first-digest"] != ref[f] {
			rep("first-call-differs:"+f, "a fresh process whose FIRST use of the library is %s gets other answers from it than a process that has used the other entry points before (tables built lazily / primed by another entry point)", f)
			return
		}
		for _, n := range probeNames() {
			if m["then:"+n] != ref[n] {
				rep("call-history-dependence:"+n, "in a fresh process that started with %s, %s gives other answers than in the reference process", f, n)
				return
			}
		}
		nontriv++
	})
	run.Set("first_call_probes", probeNames())
}

func msgTypes() {
	names := map[string]int{}
	for t := 0; t < 65536; t++ {
		typ := auparse.AuditMessageType(t)
		name := typ.String()
		evals++
		back, err := auparse.GetAuditMessageType(name)
		if err != nil || back != typ {
			rep("msgtype-not-invertible", "record type %d has name %q which maps back to (%d, %v)", t, name, back, err)
			continue
		}
		if prev, dup := names[name]; dup {
			rep("msgtype-duplicate-name", "record types %d and %d share the name %q", prev, t, name)
			continue
		}
		names[name] = t
		txt, err := typ.MarshalText()
		var un auparse.AuditMessageType
		if err != nil || un.UnmarshalText(txt) != nil || un != typ {
			rep("msgtype-text-marshalling", "record type %d marshals to %q which unmarshals to %d", t, txt, un)
			continue
		}
		// the returned bytes belong to the caller (encoding.TextMarshaler): editing them in place
		// may not change what the type marshals to from then on
		keep := string(txt)
		for i := range txt {
			txt[i] = '#'
		}
		again, err := typ.MarshalText()
		var un2 auparse.AuditMessageType
		if err != nil || string(again) != keep || un2.UnmarshalText(again) != nil || un2 != typ {
			rep("msgtype-text-marshalling-shared-buffer", "record type %d marshalled to %q; after the caller overwrote the bytes it had been given, it marshals to %q (unmarshals to %d)", t, keep, again, un2)
			continue
		}
		nontriv++
	}
	run.Sample("1300 -> SYSCALL -> 1300; 1329 -> REPLACE; 9999 -> UNKNOWN[9999] -> 9999; MarshalText lower-case round trip")
}

func errnos() {
	ref := refdata.Errno()
	for name, num := range auparse.AuditErrnoToNum {
		evals++
		back, ok := auparse.AuditErrnoToName[num]
		if !ok {
			rep("errno-number-without-name", "errno name %s maps to %d which has no name", name, num)
			continue
		}
		if n2, ok := auparse.AuditErrnoToNum[back]; !ok || n2 != num {
			rep("errno-alias-inconsistent", "errno %s -> %d -> %s -> %d", name, num, back, n2)
			continue
		}
		if r, ok := ref[name]; ok && int(r) != num {
			rep("errno-number-wrong:"+name, "errno %s = %d in the table, asm-generic says %d", name, num, r)
			continue
		}
		nontriv++
	}
	// every spelling - aliases (EWOULDBLOCK, EDEADLOCK) included, from the tree's map and from asm-generic -
	// through the rule builder: -F exit=-NAME encodes the number the name stands for
	names := map[string]int{}
	for n, v := range auparse.AuditErrnoToNum {
		names[n] = v
	}
	for n, v := range ref {
		if _, ok := names[n]; !ok {
			names[n] = int(v)
		}
	}
	for name, num := range names {
		evals++
		_, inTree := auparse.AuditErrnoToNum[name]
		w, err := buildLine("-a always,exit -S all -F exit=-" + name)
		if err != nil {
			if inTree {
				rep("errno-name-not-accepted-by-builder", "errno name %s (= %d) of the tree's table is rejected in -F exit=-%s: %v", name, num, name, err)
			}
			continue
		}
		if got := int32(u32(w, offValues)); got != int32(-num) {
			rep("errno-name-builds-other-number", "-F exit=-%s encodes %d, the name stands for errno %d", name, got, num)
			continue
		}
		nontriv++
	}
	// the same for a rule that names an architecture first: EVERY arch name x EVERY errno name - the number an errno name
	// stands for is the table's whatever ABI the rule is for, and the printed rule names it again
	for _, aname := range auparse.AuditArchNames {
		for name, num := range auparse.AuditErrnoToNum {
			evals++
			line := "-a always,exit -F arch=" + aname + " -S all -F exit=-" + name
			w, err := buildLine(line)
			if err != nil {
				continue // architectures the builder does not take are reported by arches()
			}
			if got := int32(u32(w, offValues+4)); got != int32(-num) {
				rep("errno-name-builds-other-number", "%s encodes exit=%d, the name stands for errno %d", line, got, num)
				continue
			}
			txt, err := rule.ToCommandLine(rule.WireFormat(w), true)
			want := auparse.AuditErrnoToName[num]
			if err != nil || !strings.Contains(txt, "exit=-"+want) {
				rep("errno-name-not-printed-back", "%s is printed as (%q, %v), want exit=-%s", line, txt, err, want)
				continue
			}
			nontriv++
		}
	}
	for num, name := range auparse.AuditErrnoToName {
		evals++
		if n2, ok := auparse.AuditErrnoToNum[name]; !ok || n2 != num {
			rep("errno-name-not-invertible", "errno %d -> %s -> (%d, %v)", num, name, n2, ok)
			continue
		}
		nontriv++
	}
}

// errnoConsumers: the errno table through the code that USES it - the parser (a SYSCALL record with exit=-N), the rule
// printer (a rule built with -F exit=-N listed by ToCommandLine): whatever name they produce for N maps back to N, for
// every N from 1 to 4200 (a name, or the number itself where there is no name).
func errnoConsumers() {
	for n := 1; n <= 4200; n++ {
		evals++
		ok := true
		check := func(where, got string) {
			if got == "" {
				return
			}
			neg := strings.HasPrefix(got, "-")
			g := strings.TrimPrefix(got, "-")
			if v, err := strconv.Atoi(g); err == nil {
				if v != n {
					rep("errno-consumer-number:"+where, "%s turns errno %d into %q", where, n, got)
					ok = false
				}
				return
			}
			back, found := auparse.AuditErrnoToNum[g]
			if !found || back != n {
				rep("errno-consumer-name-does-not-map-back:"+where, "%s turns errno %d into %q (negative: %v), which the name table maps to (%d, present %v)", where, n, got, neg, back, found)
				ok = false
			}
			if want, has := auparse.AuditErrnoToName[n]; has && g != want {
				rep("errno-consumer-other-name:"+where, "%s turns errno %d into %q, the table names it %q", where, n, got, want)
				ok = false
			}
		}
		for _, typ := range []auparse.AuditMessageType{auparse.AUDIT_SYSCALL, auparse.AUDIT_SECCOMP} {
			raw := fmt.Sprintf("audit(1700000000.123:7): arch=c000003e syscall=2 success=no exit=-%d a0=0 items=0 pid=1 exe=\"/x\"", n)
			m, err := auparse.Parse(typ, raw)
			if err != nil {
				continue
			}
			d, err := m.Data()
			if err != nil {
				continue
			}
			check("auparse Data() exit= of a "+typ.String()+" record", d["exit"])
		}
		if w, err := buildLine(fmt.Sprintf("-a always,exit -S all -F exit=-%d", n)); err == nil {
			if txt, err := rule.ToCommandLine(rule.WireFormat(w), false); err == nil {
				if i := strings.Index(txt, "exit="); i >= 0 {
					v := txt[i+5:]
					if j := strings.IndexByte(v, ' '); j >= 0 {
						v = v[:j]
					}
					check("rule.ToCommandLine -F exit=", v)
				}
			}
		}
		if ok {
			nontriv++
		}
	}
}

// syscallConsumers: the per-architecture syscall tables through the parser: for every architecture code and every number
// of its table, a SYSCALL record and SECCOMP records (compat=0, compat=1, no compat field) name the syscall the way the
// table of THAT architecture does.
func syscallConsumers() {
	for code, aname := range auparse.AuditArchNames {
		table := auparse.AuditSyscalls[aname]
		for nr, name := range table {
			evals++
			ok := true
			for _, rec := range []struct {
				typ  auparse.AuditMessageType
				body string
			}{
				{auparse.AUDIT_SYSCALL, fmt.Sprintf("arch=%x syscall=%d success=yes exit=0 a0=1 a1=2 a2=3 a3=4 items=0 pid=1 exe=\"/x\"", uint32(code), nr)},
				{auparse.AUDIT_SYSCALL, fmt.Sprintf("arch=%x syscall=%d per=400000 success=no exit=-38 a0=1 items=0 pid=1 exe=\"/x\"", uint32(code), nr)},
				{auparse.AUDIT_SECCOMP, fmt.Sprintf("auid=0 uid=0 gid=0 ses=1 pid=1 comm=\"x\" exe=\"/x\" sig=31 arch=%x syscall=%d compat=0 ip=0x7f code=0x0", uint32(code), nr)},
				{auparse.AUDIT_SECCOMP, fmt.Sprintf("auid=0 uid=0 gid=0 ses=1 pid=1 comm=\"x\" exe=\"/x\" sig=31 arch=%x syscall=%d compat=1 ip=0x7f code=0x0", uint32(code), nr)},
				{auparse.AUDIT_SECCOMP, fmt.Sprintf("auid=0 uid=0 gid=0 ses=1 pid=1 comm=\"x\" exe=\"/x\" sig=0 arch=%x syscall=%d ip=0x7f code=0x7ffc0000", uint32(code), nr)},
			} {
				m, err := auparse.Parse(rec.typ, "audit(1700000000.123:7): "+rec.body)
				if err != nil {
					continue
				}
				d, err := m.Data()
				if err != nil {
					continue
				}
				if d["syscall"] != name || d["arch"] != aname {
					rep("syscall-consumer-other-name:"+rec.typ.String(), "%s record %q: arch=%q syscall=%q, the table of %s names number %d %q", rec.typ, rec.body, d["arch"], d["syscall"], aname, nr, name)
					ok = false
					break
				}
			}
			if ok {
				nontriv++
			}
		}
	}
}

// exportedTablesDigest renders the exported lookup maps of auparse in sorted text form.
func exportedTablesDigest() string {
	var out []string
	for k, v := range auparse.AuditArchNames {
		out = append(out, fmt.Sprintf("arch %#x=%s", uint32(k), v))
	}
	for k, v := range auparse.AuditErrnoToName {
		out = append(out, fmt.Sprintf("errno %d=%s", k, v))
	}
	for k, v := range auparse.AuditErrnoToNum {
		out = append(out, fmt.Sprintf("errname %s=%d", k, v))
	}
	for a, t := range auparse.AuditSyscalls {
		out = append(out, fmt.Sprintf("syscalls %s: %d rows", a, len(t)))
		for n, name := range t {
			out = append(out, fmt.Sprintf("sys %s %d=%s", a, n, name))
		}
	}
	sort.Strings(out)
	return strings.Join(out, "\n")
}

func diffLines(a, b string) string {
	am, bm := map[string]bool{}, map[string]bool{}
	for _, l := range strings.Split(a, "\n") {
		am[l] = true
	}
	for _, l := range strings.Split(b, "\n") {
		bm[l] = true
	}
	var out []string
	for l := range am {
		if !bm[l] {
			out = append(out, "- "+l)
		}
	}
	for l := range bm {
		if !am[l] {
			out = append(out, "+ "+l)
		}
	}
	sort.Strings(out)
	if len(out) > 12 {
		out = out[:12]
	}
	return strings.Join(out, "\n")
}

// unknownInputs feeds codes and names that are in no table through every consumer: stringers, the parser (SYSCALL
// records with unknown arch / syscall / errno), the rule printer and builder.
func unknownInputs() {
	for _, a := range []uint32{0xc00000f7, 0x1, 0xffffffff, 0x40000099, 0} {
		_ = auparse.AuditArch(a).String()
		for _, nr := range []int{0, 59, 99999} {
			raw := fmt.Sprintf("audit(1700000000.123:7): arch=%x syscall=%d success=no exit=-4321 a0=1 items=0 pid=1 exe=\"/x\"", a, nr)
			if m, err := auparse.Parse(auparse.AUDIT_SYSCALL, raw); err == nil {
				_, _ = m.Data()
				_ = m.ToMapStr()
			}
		}
		evals++
	}
	for _, l := range []string{"-a always,exit -F arch=unknown[c00000f7] -S 1", "-a always,exit -F arch=3221225719 -S 1", "-a always,exit -F arch=nosucharch -S open", "-a always,exit -F exit=-ENOSUCH", "-a always,exit -S nosuchsyscall"} {
		if w, err := buildLine(l); err == nil {
			_, _ = rule.ToCommandLine(rule.WireFormat(w), false)
		}
		evals++
	}
}

func buildLine(line string) ([]byte, error) {
	r, err := flags.Parse(line)
	if err != nil {
		return nil, err
	}
	w, err := rule.Build(r)
	return []byte(w), err
}

func u32(b []byte, off int) uint32 {
	return uint32(b[off]) | uint32(b[off+1])<<8 | uint32(b[off+2])<<16 | uint32(b[off+3])<<24
}

const (
	offFields = 12 + 256
	offValues = offFields + 256
	offFFlags = offValues + 256
)

func arches() {
	seen := map[string]auparse.AuditArch{}
	au := refdata.Audit()
	for code, name := range auparse.AuditArchNames {
		evals++
		if prev, dup := seen[name]; dup {
			rep("arch-duplicate-name", "arch name %q is used for codes %#x and %#x", name, uint32(prev), uint32(code))
			continue
		}
		seen[name] = code
		if code.String() != name {
			rep("arch-string", "arch %#x String()=%q, table says %q", uint32(code), code.String(), name)
			continue
		}
		w, err := buildLine("-a always,exit -F arch=" + name)
		if err != nil {
			rep("arch-name-not-accepted", "arch name %q from the table is rejected by the rule builder: %v", name, err)
			continue
		}
		if got := u32(w, offValues); got != uint32(code) {
			rep("arch-name-code", "arch name %q encodes as %#x, the table says %#x", name, got, uint32(code))
			continue
		}
		txt, err := rule.ToCommandLine(rule.WireFormat(w), false)
		wantName := name
		switch name {
		case "x86_64":
			wantName = "b64"
		case "i386":
			wantName = "b32"
		}
		if err != nil || !strings.Contains(txt, "arch="+wantName) {
			rep("arch-code-name", "arch %q (%#x) is listed as %q (%v), want arch=%s", name, uint32(code), txt, err, wantName)
			continue
		}
		if ref, ok := au["AUDIT_ARCH_"+strings.ToUpper(name)]; ok && uint32(ref) != uint32(code) {
			rep("arch-code-wrong:"+name, "arch %s = %#x in the table, linux/audit.h says %#x", name, uint32(code), ref)
			continue
		}
		nontriv++
	}
}

func syscalls() {
	var archs []string
	for a := range auparse.AuditSyscalls {
		archs = append(archs, a)
	}
	sort.Strings(archs)
	for _, arch := range archs {
		table := auparse.AuditSyscalls[arch]
		byName := map[string][]int{}
		for nr, name := range table {
			byName[name] = append(byName[name], nr)
		}
		_, archOK := archCodeByName(arch)
		for name, nrs := range byName {
			evals++
			if len(nrs) > 1 {
				sort.Ints(nrs)
				rep("syscall-duplicate-name:"+arch, "in the %s table the name %q maps to numbers %v", arch, name, nrs)
				continue
			}
			if name == "" {
				rep("syscall-empty-name:"+arch, "in the %s table number %d has an empty name", arch, nrs[0])
				continue
			}
			if !archOK || nrs[0] >= 2048 {
				nontriv++
				continue
			}
			w, err := buildLine("-a always,exit -F arch=" + arch + " -S " + name)
			if err != nil {
				rep("syscall-name-not-accepted:"+arch, "syscall name %q of the %s table is rejected by the rule builder: %v", name, arch, err)
				continue
			}
			nr := nrs[0]
			ok := true
			for word := 0; word < 64; word++ {
				want := uint32(0)
				if word == nr/32 {
					want = 1 << uint(nr%32)
				}
				if u32(w, 12+4*word) != want {
					ok = false
				}
			}
			if !ok {
				rep("syscall-reverse-table:"+arch, "building -S %s for %s does not set exactly bit %d", name, arch, nr)
				continue
			}
			// the name belongs to the architecture the rule NAMES, also when the arch filter is negated (auditctl
			// resolves -S names against the last -F arch it saw, whatever the operator)
			if w2, err := buildLine("-a always,exit -F arch!=" + arch + " -S " + name); err == nil {
				for word := 0; word < 64; word++ {
					want := uint32(0)
					if word == nr/32 {
						want = 1 << uint(nr%32)
					}
					if u32(w2, 12+4*word) != want {
						ok = false
					}
				}
				if !ok {
					rep("syscall-reverse-table-negated-arch:"+arch, "building -F arch!=%s -S %s does not set exactly bit %d of the %s table", arch, name, nr, arch)
					continue
				}
			}
			nontriv++
		}
	}
}

// syscallNumbersPerArch: for EVERY architecture name the tree accepts x every number 0..600: the listing of
// "-F arch=A -S n" names the syscall only with a name of A's own table for that number (else the number), and
// the listed text builds the same rule again - a name maps to one number PER ARCHITECTURE.
func syscallNumbersPerArch() {
	var archNames []string
	for _, n := range auparse.AuditArchNames {
		archNames = append(archNames, n)
	}
	sort.Strings(archNames)
	for _, a := range archNames {
		for nr := 0; nr <= 600; nr++ {
			evals++
			line := fmt.Sprintf("-a always,exit -F arch=%s -S %d", a, nr)
			w, err := buildLine(line)
			if err != nil {
				continue
			}
			txt, err := rule.ToCommandLine(rule.WireFormat(w), false)
			if err != nil {
				rep("syscall-number-not-listable", "%q was built but cannot be listed: %v", line, err)
				continue
			}
			w2, err := buildLine(txt)
			if err != nil || string(w2) != string(w) {
				rep("syscall-number-name-not-inverse", "%q is listed as %q which builds (%v) a different rule: for this architecture the printed syscall name does not map back to number %d", line, txt, err, nr)
				continue
			}
			nontriv++
		}
	}
}

func archCodeByName(name string) (uint32, bool) {
	for c, n := range auparse.AuditArchNames {
		if n == name {
			return uint32(c), true
		}
	}
	return 0, false
}

var fieldDefine = map[string]string{
	"pid": "AUDIT_PID", "uid": "AUDIT_UID", "euid": "AUDIT_EUID", "suid": "AUDIT_SUID", "fsuid": "AUDIT_FSUID",
	"gid": "AUDIT_GID", "egid": "AUDIT_EGID", "sgid": "AUDIT_SGID", "fsgid": "AUDIT_FSGID", "auid": "AUDIT_LOGINUID",
	"pers": "AUDIT_PERS", "msgtype": "AUDIT_MSGTYPE", "subj_user": "AUDIT_SUBJ_USER",
	"subj_role": "AUDIT_SUBJ_ROLE", "subj_type": "AUDIT_SUBJ_TYPE", "subj_sen": "AUDIT_SUBJ_SEN", "subj_clr": "AUDIT_SUBJ_CLR",
	"ppid": "AUDIT_PPID", "obj_user": "AUDIT_OBJ_USER", "obj_role": "AUDIT_OBJ_ROLE", "obj_type": "AUDIT_OBJ_TYPE",
	"obj_lev_low": "AUDIT_OBJ_LEV_LOW", "obj_lev_high": "AUDIT_OBJ_LEV_HIGH", "devmajor": "AUDIT_DEVMAJOR", "devminor": "AUDIT_DEVMINOR",
	"inode": "AUDIT_INODE", "exit": "AUDIT_EXIT", "success": "AUDIT_SUCCESS", "path": "AUDIT_WATCH", "dir": "AUDIT_DIR",
	"filetype": "AUDIT_FILETYPE", "obj_uid": "AUDIT_OBJ_UID", "obj_gid": "AUDIT_OBJ_GID", "exe": "AUDIT_EXE", "saddr_fam": "AUDIT_SADDR_FAM",
	"a0": "AUDIT_ARG0", "a1": "AUDIT_ARG1", "a2": "AUDIT_ARG2", "a3": "AUDIT_ARG3", "key": "AUDIT_FILTERKEY", "perm": "AUDIT_PERM",
}

var opDefine = map[string]string{"&": "AUDIT_BIT_MASK", "<": "AUDIT_LESS_THAN", ">": "AUDIT_GREATER_THAN", "!=": "AUDIT_NOT_EQUAL", "=": "AUDIT_EQUAL", "&=": "AUDIT_BIT_TEST", "<=": "AUDIT_LESS_THAN_OR_EQUAL", ">=": "AUDIT_GREATER_THAN_OR_EQUAL"}

func sampleValue(f string) string {
	switch f {
	case "path", "exe":
		return "/bin/true"
	case "dir":
		return "/tmp"
	case "filetype":
		return "fifo"
	case "exit":
		return "7"
	case "msgtype":
		return "1300"
	case "saddr_fam":
		return "2"
	case "perm":
		return "wa"
	case "key", "subj_user", "subj_role", "subj_type", "subj_sen", "subj_clr", "obj_user", "obj_role", "obj_type", "obj_lev_low", "obj_lev_high":
		return "v"
	}
	return "5"
}

func ruleTables() {
	au := refdata.Audit()
	for f, def := range fieldDefine {
		list := "exit"
		if f == "msgtype" {
			list = "user"
		}
		ops := []string{"=", "!=", "<", ">", "<=", ">=", "&", "&="}
		for _, op := range ops {
			evals++
			// an extra a3 filter keeps perm+path rules out of the -w form
			line := fmt.Sprintf("-a always,%s -F '%s%s%s'", list, f, op, sampleValue(f))
			w, err := buildLine(line)
			if err != nil {
				continue // operator not admitted for this field
			}
			if got := u32(w, offFields); uint64(got) != au[def] {
				rep("field-code:"+f, "%q: field code %d, linux/audit.h %s = %d", line, got, def, au[def])
				continue
			}
			if got := u32(w, offFFlags); uint64(got) != au[opDefine[op]] {
				rep("operator-code:"+op, "%q: operator code %#x, linux/audit.h %s = %#x", line, got, opDefine[op], au[opDefine[op]])
				continue
			}
			txt, err := rule.ToCommandLine(rule.WireFormat(w), false)
			if err != nil {
				rep("field-reverse:"+f, "%q cannot be listed: %v", line, err)
				continue
			}
			if !strings.Contains(txt, "-F "+f+op) {
				rep("field-reverse:"+f, "%q is listed as %q: the field/operator names do not come back", line, txt)
				continue
			}
			nontriv++
		}
	}
	// inter-field comparisons: every ordered pair
	inter := []string{"uid", "euid", "suid", "fsuid", "auid", "obj_uid", "gid", "egid", "sgid", "fsgid", "obj_gid"}
	seenCode := map[uint32]string{}
	for _, a := range inter {
		for _, b := range inter {
			for _, op := range []string{"=", "!="} {
				evals++
				line := fmt.Sprintf("-a always,exit -C %s%s%s", a, op, b)
				w, err := buildLine(line)
				if err != nil {
					continue
				}
				code := u32(w, offValues)
				up := func(s string) string { return strings.ToUpper(s) }
				d1, d2 := "AUDIT_COMPARE_"+up(a)+"_TO_"+up(b), "AUDIT_COMPARE_"+up(b)+"_TO_"+up(a)
				v1, ok1 := au[d1]
				v2, ok2 := au[d2]
				if !(ok1 && uint64(code) == v1) && !(ok2 && uint64(code) == v2) {
					rep("comparison-code", "%q: comparison code %d matches neither %s nor %s of linux/audit.h", line, code, d1, d2)
					continue
				}
				pair := a + "," + b
				if b < a {
					pair = b + "," + a
				}
				if prev, ok := seenCode[code]; ok && prev != pair {
					rep("comparison-code-shared", "comparison code %d is produced for %s and for %s", code, prev, pair)
					continue
				}
				seenCode[code] = pair
				if u32(w, offFields) != uint32(au["AUDIT_FIELD_COMPARE"]) {
					rep("comparison-field-code", "%q: field code %d, want AUDIT_FIELD_COMPARE", line, u32(w, offFields))
					continue
				}
				txt, err := rule.ToCommandLine(rule.WireFormat(w), false)
				if err != nil || !(strings.Contains(txt, "-C "+a+op+b) || strings.Contains(txt, "-C "+b+op+a)) {
					rep("comparison-reverse", "%q is listed as %q (%v)", line, txt, err)
					continue
				}
				// and the listed text builds to the same code
				w2, err := buildLine(txt)
				if err != nil || u32(w2, offValues) != code {
					rep("comparison-reverse", "%q is listed as %q which builds to another comparison (%v)", line, txt, err)
					continue
				}
				nontriv++
			}
		}
	}
}

func normalizations() {
	path := filepath.Join(ev.Repo(), "aucoalesce", "normalizations.yaml")
	b, err := os.ReadFile(path)
	if err != nil {
		run.Errorf("cannot read %s: %v", path, err)
		return
	}
	sys1, rec1, err := aucoalesce.LoadNormalizationConfig(b)
	if err != nil {
		rep("normalizations-load", "the tree's normalizations.yaml does not load: %v", err)
		return
	}
	sys2, rec2, err2 := aucoalesce.LoadNormalizationConfig(b)
	if err2 != nil {
		rep("normalizations-load", "second load fails: %v", err2)
		return
	}
	// LoadNormalizationConfig is exported and reads like a parser: loading OTHER configurations (every action renamed and a
	// different catch-all, a catch-all only, no catch-all, an invalid one, nothing) leaves what the built-in table selects
	// for listed, unlisted and unknown syscalls and for record types as it was
	selection := func() string {
		var out []string
		for _, nr := range []int{2, 42, 59, 39, 63, 16, 0, 1, 9999, 101, 257} {
			line := fmt.Sprintf("type=SYSCALL msg=audit(1.002:3): arch=c000003e syscall=%d success=yes exit=0 a0=1 items=0 pid=1 uid=0 auid=0 ses=1 comm=\"x\" exe=\"/x\"", nr)
			if m, err := auparse.ParseLogLine(line); err == nil {
				if e, _ := aucoalesce.CoalesceMessages([]*auparse.AuditMessage{m}); e != nil {
					j, _ := json.Marshal(map[string]interface{}{"summary": e.Summary, "ecs": e.ECS, "category": e.Category.String()})
					out = append(out, fmt.Sprintf("%d=%s", nr, j))
				}
			}
		}
		for _, l := range []string{"type=USER_LOGIN msg=audit(1.002:3): pid=1 uid=0 auid=0 ses=1 msg='op=login acct=\"a\" exe=\"/x\" hostname=? addr=? terminal=ssh res=success'", "type=AVC msg=audit(1.002:3): avc:  denied  { read } for  pid=1 comm=\"x\" scontext=a:b:c:s0 tcontext=a:b:d:s0 tclass=file permissive=0", "type=BPF msg=audit(1.002:3): prog-id=1 op=UNLOAD"} {
			if m, err := auparse.ParseLogLine(l); err == nil {
				if e, _ := aucoalesce.CoalesceMessages([]*auparse.AuditMessage{m}); e != nil {
					j, _ := json.Marshal(map[string]interface{}{"summary": e.Summary, "ecs": e.ECS})
					out = append(out, string(j))
				}
			}
		}
		return strings.Join(out, "\n")
	}
	before := selection()
	renamed := regexp.MustCompile(`(?m)^(\s*-? *action: *)(\S+)`).ReplaceAllString(string(b), "${1}foreign-${2}")
	renamed = strings.Replace(renamed, "  - ecs: *ecs-process\n    syscalls:\n      - '*'", "  - action: foreign-catch-all\n    object_what: foreign\n    ecs: *ecs-file\n    syscalls:\n      - '*'", 1)
	foreign := []string{
		renamed,
		"normalizations:\n  - action: only-catch-all\n    object_what: thing\n    syscalls:\n      - '*'\n",
		"normalizations:\n  - action: only-open\n    syscalls:\n      - open\n  - action: some-record\n    record_types:\n      - USER_LOGIN\n      - AVC\n",
		"normalizations: [\n",
		"",
		"normalizations:\n  - action: dup\n    syscalls: ['*']\n  - action: dup2\n    syscalls: ['*']\n",
	}
	for fi, f := range foreign {
		_, _, ferr := aucoalesce.LoadNormalizationConfig([]byte(f))
		evals++
		if after := selection(); after != before {
			rep("normalization-selection-changed-by-loading-another-config", "after LoadNormalizationConfig of foreign configuration %d (load error: %v) the built-in table selects differently:\n%s\nbefore:\n%s", fi, ferr, after, before)
			break
		}
		nontriv++
	}
	// the table is loaded once per process: whatever order-dependence a load has shows up only
	// across loads (e.g. Go's randomised map iteration) - 200 more loads, candidate order per
	// record type and per syscall compared with the first
	for k := 0; k < 200; k++ {
		sysK, recK, errK := aucoalesce.LoadNormalizationConfig(b)
		evals++
		if errK != nil {
			rep("normalizations-load", "load %d fails: %v", k+3, errK)
			break
		}
		bad := ""
		for r, a1 := range rec1 {
			ak := recK[r]
			if len(ak) != len(a1) {
				bad = r
				break
			}
			for i := range a1 {
				if a1[i].Action != ak[i].Action || fmt.Sprint(a1[i].HasFields.Values) != fmt.Sprint(ak[i].HasFields.Values) {
					bad = r
				}
			}
		}
		for sname, n1 := range sys1 {
			if nk := sysK[sname]; nk == nil || nk.Action != n1.Action {
				bad = "syscall " + sname
			}
		}
		if bad != "" {
			rep("normalization-order-differs-between-loads", "load %d of the same normalizations.yaml orders / selects the candidates for %s differently from the first load, so which normalisation an event gets depends on the process", k+3, bad)
			break
		}
		nontriv++
	}
	known := map[string]bool{"*": true}
	for _, t := range auparse.AuditSyscalls {
		for _, n := range t {
			known[n] = true
		}
	}
	var names []string
	for s := range sys1 {
		names = append(names, s)
	}
	sort.Strings(names)
	for _, s := range names {
		evals++
		if !known[s] {
			rep("normalization-syscall-unknown:"+s, "normalizations.yaml names syscall %q which is in no published syscall table, so the parser can never produce it", s)
			continue
		}
		if sys2[s] == nil || sys2[s].Action != sys1[s].Action {
			rep("normalization-syscall-nondeterministic", "syscall %q selects action %q in one load and %v in another", s, sys1[s].Action, sys2[s])
			continue
		}
		nontriv++
	}
	var rts []string
	for r := range rec1 {
		rts = append(rts, r)
	}
	sort.Strings(rts)
	for _, r := range rts {
		evals++
		t, err := auparse.GetAuditMessageType(r)
		if err != nil || t.String() != r {
			rep("normalization-record-type-unknown:"+r, "normalizations.yaml names record type %q which the parser cannot produce (GetAuditMessageType: %v, canonical name %q)", r, err, t.String())
			continue
		}
		a1, a2 := rec1[r], rec2[r]
		if len(a1) != len(a2) {
			rep("normalization-record-type-nondeterministic", "record type %q has %d normalisations in one load and %d in another", r, len(a1), len(a2))
			continue
		}
		same := true
		for i := range a1 {
			if a1[i].Action != a2[i].Action {
				same = false
			}
		}
		if !same {
			rep("normalization-record-type-nondeterministic", "record type %q: normalisation order differs between loads", r)
			continue
		}
		// multi-entry record types: every subset of the qualifier fields selects deterministically
		if len(a1) > 1 {
			var quals []string
			for _, n := range a1 {
				quals = append(quals, n.HasFields.Values...)
			}
			for mask := 0; mask < 1<<uint(len(quals)); mask++ {
				body := "pid=1 uid=0 auid=0 ses=1"
				for i, q := range quals {
					if mask&(1<<uint(i)) != 0 {
						body += " " + q + "=x"
					}
				}
				line := "type=" + r + " msg=audit(1.002:3): " + body
				var actions [16]string
				for k := 0; k < 16; k++ {
					m, err := auparse.ParseLogLine(line)
					if err != nil {
						continue
					}
					e, _ := aucoalesce.CoalesceMessages([]*auparse.AuditMessage{m})
					if e != nil {
						actions[k] = e.Summary.Action
					}
				}
				evals++
				differs := ""
				for k := 1; k < 16; k++ {
					if actions[k] != actions[0] {
						differs = actions[k]
					}
				}
				if differs != "" {
					rep("normalization-selection-nondeterministic:"+r, "record %q selects action %q and, coalesced again, %q", line, actions[0], differs)
				} else {
					nontriv++
				}
			}
		}
		nontriv++
	}
	// the embedded table is the one in the tree: a SYSCALL event picks the same action as the loaded table says
	for _, s := range []string{"open", "connect", "execve"} {
		evals++
		nr := map[string]int{"open": 2, "connect": 42, "execve": 59}[s]
		line := fmt.Sprintf("type=SYSCALL msg=audit(1.002:3): arch=c000003e syscall=%d success=yes exit=0 pid=1 uid=0 auid=0 ses=1 exe=\"/x\"", nr)
		m, _ := auparse.ParseLogLine(line)
		e, _ := aucoalesce.CoalesceMessages([]*auparse.AuditMessage{m})
		if e == nil || sys1[s] == nil || e.Summary.Action != sys1[s].Action {
			rep("normalization-embedded-differs", "syscall %s: embedded table gives %v, the tree's file says %v", s, e, sys1[s])
			continue
		}
		nontriv++
	}
	run.Sample("normalizations.yaml: record_types entry ANOM_MK_EXEC must satisfy GetAuditMessageType(x).String()==x; syscalls entry openat must be in a published table")
}

func eventTypes() {
	d1 := eventTypeDigest()
	d2 := eventTypeDigest()
	evals += 2 * 65536
	if d1 != d2 {
		rep("event-type-nondeterministic", "GetAuditEventType over all 65536 types gives different digests on two passes")
		return
	}
	var other string
	tables := map[string]string{}
	jobs := []interface{}{map[string]string{"Order": "ascending"}, map[string]string{"Order": "descending"}, map[string]string{"Order": "stride"}, map[string]string{"Order": "high-first"}}
	par.Map("tables", jobs, 10*time.Minute, nil, func(r par.Result) {
		if r.Died {
			run.Errorf("digest worker died: %s", r.Stderr)
			return
		}
		var m map[string]string
		_ = json.Unmarshal(r.Out, &m)
		evals += 2 * 65536
		tables[m["order"]] = m["table"]
	})
	for _, o := range []string{"descending", "stride", "high-first"} {
		if tables[o] == "" || tables["ascending"] == "" {
			run.Errorf("missing category table for order %s", o)
			continue
		}
		if tables[o] != tables["ascending"] {
			a := tables["ascending"][41:]
			b := tables[o][41:]
			first := -1
			for i := 0; i+1 < len(a) && i+1 < len(b); i += 2 {
				if a[i:i+2] != b[i:i+2] {
					first = i / 2
					break
				}
			}
			rep("event-type-depends-on-call-history", "GetAuditEventType categorises record type %d differently when the 65536 types are visited in %s order than in ascending order (each in a fresh process)", first, o)
		} else {
			nontriv += 65536
		}
	}
	_ = other
	// every type gets a named category
	for t := 0; t < 65536; t++ {
		e := aucoalesce.GetAuditEventType(auparse.AuditMessageType(t))
		if e.String() == "" {
			rep("event-type-unnamed", "record type %d has an unnamed category %d", t, e)
			return
		}
	}
	nontriv += 65536
}
