package main

import (
	"crypto/sha1"
	"encoding/hex"
	"encoding/json"
	"fmt"
	"os"
	"os/user"
	"reflect"
	"sort"
	"strings"
	"sync"
	"sync/atomic"
	"time"

	"github.com/elastic/go-libaudit/v2/aucoalesce"
	"github.com/elastic/go-libaudit/v2/auparse"
	"github.com/elastic/go-libaudit/v2/vshim/sched"
	"github.com/elastic/go-libaudit/v2/vshim/vtime"
	"github.com/elastic/go-libaudit/v2/vshim/vuser"

	"verif/engine/enumx"
	"verif/engine/ev"
	"verif/engine/explore"
	"verif/engine/par"
)

// the pool of message groups (log lines)
var pool = [][]string{
	{ // g0: execve with paths
		`type=SYSCALL msg=audit(1492037291.036:59): arch=c000003e syscall=59 success=yes exit=0 a0=1 a1=2 a2=3 a3=4 items=2 ppid=1000 pid=1001 auid=1000 uid=0 gid=0 euid=0 suid=0 fsuid=0 egid=0 sgid=0 fsgid=0 tty=pts0 ses=7 comm="grep" exe="/usr/bin/grep" subj=u:r:t:s0 key="exec"`,
		`type=EXECVE msg=audit(1492037291.036:59): argc=3 a0="grep" a1="--color=auto" a2="x"`,
		`type=CWD msg=audit(1492037291.036:59):  cwd="/home/a"`,
		`type=PATH msg=audit(1492037291.036:59): item=0 name="/usr/bin/grep" inode=2512 dev=08:01 mode=0100755 ouid=0 ogid=0 rdev=00:00 obj=u:o:bin_t:s0 nametype=NORMAL`,
		`type=PATH msg=audit(1492037291.036:59): item=1 name="/lib64/ld-linux-x86-64.so.2" inode=24 dev=08:01 mode=0100755 ouid=0 ogid=0 rdev=00:00 nametype=NORMAL`,
		`type=PROCTITLE msg=audit(1492037291.036:59): proctitle=67726570002D2D636F6C6F723D6175746F0078`,
	},
	{ // g1: connect with sockaddr
		`type=SYSCALL msg=audit(1492037298.883:61): arch=c000003e syscall=42 success=no exit=-115 a0=3 a1=7ffd a2=10 a3=0 items=0 ppid=1 pid=2000 auid=4294967295 uid=1000 gid=1000 euid=1000 suid=1000 fsuid=1000 egid=1000 sgid=1000 fsgid=1000 tty=(none) ses=4294967295 comm="curl" exe="/usr/bin/curl" key=(null)`,
		`type=SOCKADDR msg=audit(1492037298.883:61): saddr=020001BB0A141E280000000000000000`,
		`type=PROCTITLE msg=audit(1492037298.883:61): proctitle="curl"`,
	},
	{ // g2: USER_LOGIN single
		`type=USER_LOGIN msg=audit(1492037300.000:70): pid=500 uid=0 auid=1000 ses=9 msg='op=login id=1000 exe="/usr/sbin/sshd" hostname=h addr=10.0.0.9 terminal=ssh res=success'`,
	},
	{ // g3: AVC-first compound with open + path
		`type=AVC msg=audit(1492037301.000:71): avc:  denied  { read write } for  pid=3000 comm="httpd" name="shadow" dev="sda1" ino=99 scontext=system_u:system_r:httpd_t:s0 tcontext=system_u:object_r:shadow_t:s0 tclass=file permissive=0`,
		`type=SYSCALL msg=audit(1492037301.000:71): arch=c000003e syscall=2 success=no exit=-13 a0=7 a1=0 a2=0 a3=0 items=1 ppid=1 pid=3000 auid=4294967295 uid=48 gid=48 euid=48 suid=48 fsuid=48 egid=48 sgid=48 fsgid=48 tty=(none) ses=4294967295 comm="httpd" exe="/usr/sbin/httpd" subj=system_u:system_r:httpd_t:s0 key="shadow"`,
		`type=CWD msg=audit(1492037301.000:71):  cwd="/"`,
		`type=PATH msg=audit(1492037301.000:71): item=0 name="/etc/shadow" inode=99 dev=08:01 mode=0100000 ouid=0 ogid=42 rdev=00:00 obj=system_u:object_r:shadow_t:s0 nametype=NORMAL`,
	},
	{ // g4: arbitrary text
		`type=UNKNOWN[1999] msg=audit(1492037302.000:72): this is = not "really ' a record key= =value a=b`,
	},
	{ // g5: error group (no SYSCALL)
		`type=CWD msg=audit(1492037303.000:73):  cwd="/x"`,
		`type=PATH msg=audit(1492037303.000:73): item=0 name="/x/y" inode=1 dev=08:01 mode=040755 ouid=0 ogid=0 rdev=00:00 nametype=NORMAL`,
	},
	{ // g6: CONFIG_CHANGE-first compound with sendto: the record-type normalisation has ECS categories and the syscall's are appended to them
		`type=CONFIG_CHANGE msg=audit(1492037304.000:74): auid=1000 ses=3 op=add_rule key="k" list=4 res=1`,
		`type=SYSCALL msg=audit(1492037304.000:74): arch=c000003e syscall=44 success=yes exit=1056 a0=3 a1=7ffd a2=420 a3=0 items=0 ppid=1 pid=3001 auid=1000 uid=0 gid=0 euid=0 suid=0 fsuid=0 egid=0 sgid=0 fsgid=0 tty=pts0 ses=3 comm="auditctl" exe="/sbin/auditctl" key=(null)`,
		`type=PROCTITLE msg=audit(1492037304.000:74): proctitle="auditctl"`,
	},
	{ // g7: CONFIG_CHANGE-first compound with open (same record-type normalisation, other syscall categories appended)
		`type=CONFIG_CHANGE msg=audit(1492037305.000:75): auid=1000 ses=3 op=remove_rule key="k2" list=4 res=1`,
		`type=SYSCALL msg=audit(1492037305.000:75): arch=c000003e syscall=2 success=yes exit=3 a0=7 a1=0 a2=0 a3=0 items=0 ppid=1 pid=3002 auid=1000 uid=0 gid=0 euid=0 suid=0 fsuid=0 egid=0 sgid=0 fsgid=0 tty=pts0 ses=3 comm="auditctl" exe="/sbin/auditctl" key=(null)`,
	},
	{ // g8: CONFIG_CHANGE-first compound with execve
		`type=CONFIG_CHANGE msg=audit(1492037306.000:76): auid=1000 ses=3 op=add_rule key="k3" list=4 res=0`,
		`type=SYSCALL msg=audit(1492037306.000:76): arch=c000003e syscall=59 success=no exit=-13 a0=7 a1=0 a2=0 a3=0 items=0 ppid=1 pid=3003 auid=1000 uid=0 gid=0 euid=0 suid=0 fsuid=0 egid=0 sgid=0 fsgid=0 tty=pts0 ses=3 comm="sh" exe="/bin/sh" key=(null)`,
	},
	{ // g9: a login under the ALIAS name of uid 1000 (name -> id lookup)
		`type=USER_AUTH msg=audit(1492037307.000:77): pid=600 uid=0 auid=4294967295 ses=4294967295 msg='op=PAM:authentication acct="al" exe="/usr/sbin/sshd" hostname=h addr=10.0.0.9 terminal=ssh res=success'`,
	},
	{ // g10: a syscall by uid/gid 1000 (id -> name lookups) whose key field holds several keys, one of them twice in a row (0x01 separated)
		`type=SYSCALL msg=audit(1492037308.000:78): arch=c000003e syscall=159 success=yes exit=0 a0=1 a1=1 a2=0 a3=0 items=0 ppid=1 pid=1075 auid=1000 uid=1000 gid=1000 euid=1000 suid=1000 fsuid=1000 egid=1000 sgid=1000 fsgid=1000 tty=(none) ses=4 comm="ntpd" exe="/usr/sbin/ntpd" key=6101610162`,
	},
	{ // g12: logins under the primary name and under a spelling the database does not know (it is case sensitive)
		`type=USER_AUTH msg=audit(1492037310.000:80): pid=600 uid=0 auid=4294967295 ses=4294967295 msg='op=PAM:authentication acct="alice" exe="/usr/sbin/sshd" hostname=h addr=10.0.0.9 terminal=ssh res=success'`,
	},
	{ // g13
		`type=USER_AUTH msg=audit(1492037311.000:81): pid=600 uid=0 auid=4294967295 ses=4294967295 msg='op=PAM:authentication acct="Alice" exe="/usr/sbin/sshd" hostname=h addr=10.0.0.9 terminal=ssh res=failed'`,
	},
	{ // g11: a group deleted under the ALIAS name of gid 1000 (group name -> id lookup)
		`type=DEL_GROUP msg=audit(1492037309.000:79): pid=700 uid=0 auid=1000 ses=3 msg='op=delete-group acct="st" exe="/usr/sbin/groupdel" hostname=h addr=10.0.0.9 terminal=pts/0 res=success'`,
	},
}

// accountDB is the simulated account database behind the os/user seam (engine/vshim/vuser):
// like a real passwd/group file it is NOT one-to-one - uid 1000 has a primary name and an
// alias, gid 1000 likewise - and some ids / names are unknown.  Every answer is a pure
// function of the question, so the outcome of resolving one message may not depend on what
// else went through the caches before.
func accountDB() *vuser.DB {
	return &vuser.DB{
		Users: []user.User{
			// the account database DISAGREES with the caches' built-in 0 <-> root pair (first row wins): the built-in
			// answer is the one that counts, for as long as the cache lives
			{Uid: "0", Gid: "0", Username: "admin"},
			{Uid: "0", Gid: "0", Username: "root"},
			{Uid: "1000", Gid: "1000", Username: "alice"},
			{Uid: "1000", Gid: "1000", Username: "al"},
			{Uid: "1001", Gid: "1001", Username: "bob"},
			{Uid: "48", Gid: "48", Username: "apache"},
		},
		Groups: []user.Group{
			{Gid: "0", Name: "wheel"},
			{Gid: "0", Name: "root"},
			{Gid: "1000", Name: "staff"},
			{Gid: "1000", Name: "st"},
			{Gid: "1001", Name: "ops"},
			{Gid: "42", Name: "shadow"},
		},
	}
}

func init() { vuser.Install(accountDB()) }

func parseGroup(lines []string) []*auparse.AuditMessage {
	var out []*auparse.AuditMessage
	for _, l := range lines {
		m, err := auparse.ParseLogLine(l)
		if err != nil {
			panic(fmt.Sprintf("harness line %q: %v", l, err))
		}
		out = append(out, m)
	}
	return out
}

// msgSnap captures what a message reports.
func msgSnap(m *auparse.AuditMessage) string {
	d, derr := m.Data()
	t, terr := m.Tags()
	ms := m.ToMapStr()
	b, _ := json.Marshal([]interface{}{d, fmt.Sprint(derr), t, fmt.Sprint(terr), ms})
	return string(b)
}

// evSnap is a deep, order-insensitive snapshot of an event (warnings sorted:
// some are produced in map iteration order).
func evSnap(e *aucoalesce.Event, err error) string {
	if e == nil {
		return "nil event; err=" + fmt.Sprint(err)
	}
	b, _ := json.Marshal(e)
	var w []string
	for _, x := range e.Warnings {
		w = append(w, x.Error())
	}
	sort.Strings(w)
	return string(b) + " warnings=" + strings.Join(w, "|") + " err=" + fmt.Sprint(err)
}

type c15Op struct {
	Kind string // coalesce | resolve
	Arg  int    // group index | event index
}

func (o c15Op) String() string { return fmt.Sprintf("%s(%d)", o.Kind, o.Arg) }

type c15Viol struct {
	Sig, What string
	History   []c15Op
}

// runC15History executes one call history on a fresh pool.
func runC15History(hist []c15Op) (viol []c15Viol, outcome string) {
	vtime.Install() // a fresh virtual clock per history
	fail := func(sig, format string, a ...interface{}) {
		viol = append(viol, c15Viol{Sig: sig, What: fmt.Sprintf(format, a...), History: append([]c15Op{}, hist...)})
	}
	msgs := make([][]*auparse.AuditMessage, len(pool))
	snaps := make([][]string, len(pool))
	for i, g := range pool {
		msgs[i] = parseGroup(g)
		for _, m := range msgs[i] {
			snaps[i] = append(snaps[i], msgSnap(m))
		}
	}
	users := aucoalesce.NewUserCache(time.Hour)
	groups := aucoalesce.NewGroupCache(time.Hour)
	type held struct {
		e        *aucoalesce.Event
		snap     string
		from     int
		resolved bool
	}
	var events []*held
	var log []string
	for step, op := range hist {
		var panicked interface{}
		func() {
			defer func() { panicked = recover() }()
			switch op.Kind {
			case "coalesce":
				e, err := aucoalesce.CoalesceMessages(msgs[op.Arg])
				// differential: a fresh parse of the same lines
				fe, ferr := aucoalesce.CoalesceMessages(parseGroup(pool[op.Arg]))
				got, want := evSnap(e, err), evSnap(fe, ferr)
				if got != want {
					fail("C15 recoalesce-differs", "step %d %v: coalescing the pool's messages (possibly coalesced before) gives\n  %s\nbut a fresh parse of the same lines gives\n  %s", step, op, got, want)
				}
				if e != nil {
					events = append(events, &held{e: e, snap: evSnap(e, nil), from: op.Arg})
				}
				log = append(log, fmt.Sprintf("%v=%d", op, len(got)))
			case "tick":
				// two hours pass (the caches of a history keep entries for one hour; built-in entries never expire)
				if c := vtime.Installed(); c != nil {
					c.Advance(2 * time.Hour)
				}
				log = append(log, "tick")
			case "lookup":
				// the caches' own entry points: an answer is a pure function of the question and of the account database
				// (first matching row), whatever went through the caches before - and asking changes nothing for later resolutions
				q := directLookups[op.Arg]
				c := users
				if q.group {
					c = groups
				}
				got := ""
				if q.byName {
					got = c.LookupName(q.arg)
				} else {
					got = c.LookupID(q.arg)
				}
				if got != q.want {
					fail("C15 direct-lookup-answer", "step %d %v: %s = %q, the account database says %q", step, op, q.desc, got, q.want)
				}
				log = append(log, fmt.Sprintf("%v=%s", op, got))
			case "resolve", "cr":
				var h *held
				if op.Kind == "cr" {
					e, _ := aucoalesce.CoalesceMessages(msgs[op.Arg])
					if e == nil {
						return
					}
					h = &held{e: e, snap: evSnap(e, nil), from: op.Arg}
					events = append(events, h)
				} else {
					if op.Arg >= len(events) {
						return
					}
					h = events[op.Arg]
				}
				aucoalesce.ResolveIDsFromCaches(h.e, users, groups)
				// the same on a fresh equal event
				fe, _ := aucoalesce.CoalesceMessages(parseGroup(pool[h.from]))
				if fe != nil {
					aucoalesce.ResolveIDsFromCaches(fe, aucoalesce.NewUserCache(time.Hour), aucoalesce.NewGroupCache(time.Hour))
					if evSnap(h.e, nil) != evSnap(fe, nil) {
						fail("C15 resolve-differs", "step %d %v: ResolveIDs on a held event gives\n  %s\nbut on a fresh equal event\n  %s", step, op, evSnap(h.e, nil), evSnap(fe, nil))
					}
				}
				h.snap = evSnap(h.e, nil)
				h.resolved = true
				log = append(log, op.String())
			}
		}()
		if panicked != nil {
			fail("C15 panic", "step %d %v panicked: %v", step, op, panicked)
			return
		}
		// inputs intact
		for gi := range msgs {
			for mi, m := range msgs[gi] {
				if s := msgSnap(m); s != snaps[gi][mi] {
					fail(fmt.Sprintf("C15 input-mutated:%s", m.RecordType), "after step %d %v, message %d of group %d (%s) reports\n  %s\nbefore it reported\n  %s", step, op, mi, gi, m.RecordType, s, snaps[gi][mi])
					snaps[gi][mi] = s
				}
			}
		}
		// previously returned events untouched
		for ei, h := range events {
			if s := evSnap(h.e, nil); s != h.snap {
				fail("C15 earlier-event-altered", "after step %d %v, event %d (from group %d) changed from\n  %s\nto\n  %s", step, op, ei, h.from, h.snap, s)
				h.snap = s
			}
		}
	}
	return viol, strings.Join(log, " ")
}

type directLookup struct {
	group, byName bool
	arg, want     string
	desc          string
}

// directLookups: EntityCache.LookupID / LookupName for ids and names with one row, two rows (alias), no row.
var directLookups = func() []directLookup {
	var out []directLookup
	db := accountDB()
	for _, id := range []string{"1000", "1001", "48", "77777"} {
		w := ""
		for _, u := range db.Users {
			if u.Uid == id {
				w = u.Username
				break
			}
		}
		out = append(out, directLookup{false, false, id, w, "users.LookupID(" + id + ")"})
	}
	for _, n := range []string{"alice", "al", "bob", "nobody-here"} {
		w := ""
		for _, u := range db.Users {
			if u.Username == n {
				w = u.Uid
				break
			}
		}
		out = append(out, directLookup{false, true, n, w, "users.LookupName(" + n + ")"})
	}
	for _, id := range []string{"1000", "42", "77777"} {
		w := ""
		for _, g := range db.Groups {
			if g.Gid == id {
				w = g.Name
				break
			}
		}
		out = append(out, directLookup{true, false, id, w, "groups.LookupID(" + id + ")"})
	}
	for _, n := range []string{"staff", "st", "ops"} {
		w := ""
		for _, g := range db.Groups {
			if g.Name == n {
				w = g.Gid
				break
			}
		}
		out = append(out, directLookup{true, true, n, w, "groups.LookupName(" + n + ")"})
	}
	return out
}()

type c15Job struct {
	Hists [][]c15Op
}

type c15Result struct {
	Executions int64
	Ops        int64
	Outcomes   int
	Viol       []c15Viol
	Sample     string
}

func c15Worker(j c15Job) *c15Result {
	res := &c15Result{}
	out := map[string]struct{}{}
	seen := map[string]bool{}
	for _, h := range j.Hists {
		h := h
		par.Progress(func() string { return fmt.Sprint(h) })
		v, o := runC15History(h)
		res.Executions++
		res.Ops += int64(len(h))
		out[o] = struct{}{}
		for _, x := range v {
			if !seen[x.Sig] {
				seen[x.Sig] = true
				res.Viol = append(res.Viol, x)
			}
		}
		if res.Sample == "" && len(h) >= 3 {
			res.Sample = fmt.Sprint(h) + " => " + o
		}
	}
	res.Outcomes = len(out)
	return res
}

func c15Histories(maxLen int) [][]c15Op {
	var ops []c15Op
	for g := range pool {
		ops = append(ops, c15Op{"coalesce", g})
	}
	for e := 0; e < 3; e++ {
		ops = append(ops, c15Op{"resolve", e})
	}
	for g := range pool { // coalesce + resolve in one step: reaches "resolved a, then resolved b" within 2 ops
		if g != 5 {
			ops = append(ops, c15Op{"cr", g})
		}
	}
	for i := range directLookups {
		ops = append(ops, c15Op{"lookup", i})
	}
	ops = append(ops, c15Op{"tick", 0})
	var out [][]c15Op
	var rec func(cur []c15Op, nEvents int)
	rec = func(cur []c15Op, nEvents int) {
		if len(cur) > 0 {
			out = append(out, append([]c15Op{}, cur...))
		}
		if len(cur) == maxLen {
			return
		}
		for _, o := range ops {
			ne := nEvents
			if o.Kind == "resolve" && o.Arg >= nEvents {
				continue
			}
			if (o.Kind == "coalesce" || o.Kind == "cr") && o.Arg != 5 {
				ne++
			}
			rec(append(cur, o), ne)
		}
	}
	rec(nil, 0)
	return out
}

// ---- concurrent coalescing / ID resolution through the SHARED global caches ---------

type concHarness struct {
	nThreads  int
	perThread int // events per thread (1 or 2)
	results   []string
	mu        sync.Mutex
	// cold: the threads share caches made for THIS execution (every first lookup of an id is a miss that queries the
	// account database while other threads arrive), instead of the process-wide caches that are warm after the first run
	cold          bool
	users, groups *aucoalesce.EntityCache
}

// concLine: a single-record event with ONE id (uid), so that Go's random map
// iteration over User.IDs cannot permute the lookups of a thread and the step
// trace stays deterministic whatever the lookups lock; threads collide pairwise
// on the uid (1000 / 1001, both resolvable in the simulated account database).
func concLine(i int) string { return concLineUID(70+i, 1000+i%2) }

func concLineUID(seq, uid int) string {
	return fmt.Sprintf(`type=USER_LOGIN msg=audit(1492037300.000:%d): pid=500 uid=%d ses=9 msg='op=login id=%d exe="/usr/sbin/sshd" hostname=h addr=10.0.0.9 terminal=ssh res=success'`, seq, uid, uid)
}

// raceBody: what one free-running goroutine of the -race pass does.  Every call resolves ids nobody has
// asked for before (so every lookup is a cache MISS that stores an entry) next to the shared ones: a cache
// that is read or written outside its lock is then touched concurrently in every repetition, not only in
// the first one.
func raceBody(rep, g int) {
	for k := 0; k < 6; k++ {
		uid := 1000 + (g+k)%2
		if k%2 == 1 {
			uid = 50000 + rep*64 + g*8 + k
		}
		e, _ := aucoalesce.CoalesceMessages(parseGroup([]string{concLineUID(70+k, uid)}))
		if e != nil {
			aucoalesce.ResolveIDs(e)
		}
	}
}

func concBody(i, n int) string { return concBodyWith(i, n, nil, nil) }

func concBodyWith(i, n int, users, groups *aucoalesce.EntityCache) string {
	var out []string
	for k := 0; k < n; k++ {
		e, err := aucoalesce.CoalesceMessages(parseGroup([]string{concLine(i + k)}))
		if e != nil && users != nil {
			aucoalesce.ResolveIDsFromCaches(e, users, groups)
		} else if e != nil {
			aucoalesce.ResolveIDs(e) // global caches
		}
		out = append(out, evSnap(e, err))
	}
	return strings.Join(out, "\n")
}

func (h *concHarness) Body(x *sched.Exec) {
	x.Prime = true
	h.results = make([]string, h.nThreads)
	if h.cold {
		h.users, h.groups = aucoalesce.NewUserCache(time.Hour), aucoalesce.NewGroupCache(time.Hour)
	}
	for i := 0; i < h.nThreads; i++ {
		i := i
		x.Go(fmt.Sprintf("t%d", i), func() {
			r := concBodyWith(i, h.perThread, h.users, h.groups)
			h.mu.Lock()
			h.results[i] = r
			h.mu.Unlock()
		})
	}
}

var seqExpected = map[[2]int]string{}

func (h *concHarness) Finish(res *sched.Result) (string, []explore.Finding) {
	if res != nil && (res.Deadlock || res.Panic != nil) {
		return "aborted", nil
	}
	var f []explore.Finding
	for i, r := range h.results {
		if want := seqExpected[[2]int{i, h.perThread}]; r != want {
			f = append(f, explore.Finding{Sig: "concurrent-result-differs", What: fmt.Sprintf("thread %d's events differ from the sequential ones:\n  %s\nvs\n  %s", i, r, want)})
		}
	}
	if res != nil {
		return fmt.Sprint(len(res.Steps)), f
	}
	return "", f
}

func c15RaceMain() {
	var j struct{ Reps int }
	_ = json.NewDecoder(os.Stdin).Decode(&j)
	var progress int64
	go func() {
		last, idle := int64(-1), 0
		for {
			time.Sleep(time.Second)
			now := atomic.LoadInt64(&progress)
			if now == last {
				idle++
			} else {
				idle = 0
			}
			last = now
			if idle >= 120 {
				fmt.Println("RACE-PASS-HANG")
				os.Exit(4)
			}
		}
	}()
	var it int64
	for rep := 0; rep < j.Reps; rep++ {
		var wg sync.WaitGroup
		start := make(chan struct{})
		for i := 0; i < 8; i++ {
			i := i
			wg.Add(1)
			go func() {
				defer wg.Done()
				<-start
				raceBody(rep, i)
			}()
		}
		close(start)
		wg.Wait()
		it++
		atomic.AddInt64(&progress, 1)
	}
	fmt.Printf("{\"iterations\":%d}\n", it)
}

// tableSweep: for EVERY record type named in the tree's normalizations.yaml, compound
// events "that record first + a SYSCALL" with different syscalls are produced one after
// the other and each earlier event is re-inspected after every later one.  This is what
// exposes table slices with spare capacity (append into the shared global backing array)
// for whichever row has them.
func tableSweep(run *ev.Run) {
	b, err := os.ReadFile(ev.Repo() + "/aucoalesce/normalizations.yaml")
	if err != nil {
		run.Errorf("normalizations.yaml: %v", err)
		return
	}
	_, recs, err := aucoalesce.LoadNormalizationConfig(b)
	if err != nil {
		run.Errorf("normalizations.yaml does not load: %v", err)
		return
	}
	var types []string
	for r := range recs {
		if _, err := auparse.GetAuditMessageType(r); err == nil {
			types = append(types, r)
		}
	}
	sort.Strings(types)
	syscalls := []int{2 /*open*/, 90 /*chmod*/, 42 /*connect*/, 59 /*execve*/, 87 /*unlink*/, 165 /*mount*/, 105 /*setuid*/, 39 /*getpid*/}
	var n, ops int64
	for _, rt := range types {
		type held struct {
			e    *aucoalesce.Event
			snap string
			nr   int
		}
		var evs []*held
		for round := 0; round < 2; round++ {
			for _, nr := range syscalls {
				lines := []string{
					fmt.Sprintf("type=%s msg=audit(1492037400.000:%d): pid=1 uid=0 auid=1000 ses=3 op=x acct=\"a\" exe=\"/x\" hostname=h addr=1.2.3.4 terminal=t res=success", rt, 900+nr),
					fmt.Sprintf("type=SYSCALL msg=audit(1492037400.000:%d): arch=c000003e syscall=%d success=yes exit=0 a0=1 a1=2 a2=3 a3=4 items=0 ppid=1 pid=2 auid=1000 uid=0 gid=0 euid=0 suid=0 fsuid=0 egid=0 sgid=0 fsgid=0 tty=pts0 ses=3 comm=\"c\" exe=\"/x\" key=(null)", 900+nr, nr),
				}
				e, cerr := aucoalesce.CoalesceMessages(parseGroup(lines))
				ops++
				if e == nil {
					continue
				}
				fe, _ := aucoalesce.CoalesceMessages(parseGroup(lines))
				if evSnap(e, cerr) != evSnap(fe, cerr) {
					run.Report(ev.Violation{Sig: "C15 recoalesce-differs", What: fmt.Sprintf("record type %s + syscall %d: two coalesces of the same lines differ:\n  %s\n  %s", rt, nr, evSnap(e, nil), evSnap(fe, nil)), Replay: lines})
				}
				evs = append(evs, &held{e, evSnap(e, nil), nr})
				for _, h := range evs {
					if s := evSnap(h.e, nil); s != h.snap {
						run.Report(ev.Violation{Sig: "C15 earlier-event-altered", What: fmt.Sprintf("record type %s: the event produced with syscall %d changed after a later event with syscall %d was produced:\n  %s\n->\n  %s", rt, h.nr, nr, h.snap, s), Replay: map[string]interface{}{"record_type": rt, "first_syscall": h.nr, "later_syscall": nr}})
						h.snap = s
					}
				}
				n++
			}
		}
	}
	run.Add("traces_validated_against_impl", int64(len(types)))
	run.Add("transitions", ops)
	run.Set("table_sweep_record_types", len(types))
	run.Set("table_sweep_events", n)
}

// longHistory: capacity thresholds inside caches sit far above any small pool.  One event
// that depends on a pinned (hard-coded) cache entry and on uid 0 is resolved, then n unrelated
// events with unique ids go through the SAME global caches, then the first one again.
func longHistory(run *ev.Run, n int) {
	aucoalesce.HardcodeUsers(user.User{Uid: "990001", Username: "svc-verif"})
	aucoalesce.HardcodeGroups(user.Group{Gid: "990002", Name: "grp-verif"})
	line := func(uid, gid int) []string {
		return []string{fmt.Sprintf(`type=SYSCALL msg=audit(1492037500.000:%d): arch=c000003e syscall=2 success=yes exit=3 a0=1 a1=2 a2=3 a3=4 items=0 ppid=1 pid=2 auid=0 uid=%d gid=%d euid=%d suid=0 fsuid=0 egid=%d sgid=0 fsgid=0 tty=pts0 ses=3 comm="c" exe="/x" key=(null)`, uid%100000, uid, gid, uid, gid)}
	}
	resolve := func(uid, gid int) string {
		e, err := aucoalesce.CoalesceMessages(parseGroup(line(uid, gid)))
		if e != nil {
			aucoalesce.ResolveIDs(e)
		}
		return evSnap(e, err)
	}
	first := resolve(990001, 990002)
	for i := 0; i < n; i++ {
		_ = resolve(1000000+i, 2000000+i)
	}
	again := resolve(990001, 990002)
	run.Add("transitions", int64(n+2))
	run.Add("traces_validated_against_impl", 1)
	run.Set("long_history_events_through_the_global_caches", n)
	if first != again {
		run.Report(ev.Violation{Sig: "C15 outcome-depends-on-long-history", What: fmt.Sprintf("resolving the same message before and after %d unrelated events (unique ids) through the global caches gives different events:\n  %s\n->\n  %s", n, first, again), Replay: map[string]interface{}{"unrelated_events": n}})
	}
}

// c15Sweep: for every record type named in the tree's normalizations.yaml x every syscall of the native table,
// the compound event "that record first + a SYSCALL" coalesced ONCE, in a given visiting order, in a fresh
// process; the digests of all (type, syscall) pairs are compared between orders: the outcome for one group of
// messages does not depend on which other groups the process coalesced before.
type c15SweepJob struct{ Order string }

func c15SweepWorker(j c15SweepJob) map[string]string {
	b, err := os.ReadFile(ev.Repo() + "/aucoalesce/normalizations.yaml")
	if err != nil {
		return map[string]string{"ERROR": err.Error()}
	}
	_, recs, err := aucoalesce.LoadNormalizationConfig(b)
	if err != nil {
		return map[string]string{"ERROR": err.Error()}
	}
	var types []string
	for r := range recs {
		if _, err := auparse.GetAuditMessageType(r); err == nil {
			types = append(types, r)
		}
	}
	sort.Strings(types)
	var nrs []int
	for nr := range auparse.AuditSyscalls["x86_64"] {
		nrs = append(nrs, nr)
	}
	sort.Ints(nrs)
	type pair struct {
		rt string
		nr int
	}
	var order []pair
	switch j.Order {
	case "type-major-ascending":
		for _, rt := range types {
			for _, nr := range nrs {
				order = append(order, pair{rt, nr})
			}
		}
	case "type-major-descending":
		for i := len(types) - 1; i >= 0; i-- {
			for k := len(nrs) - 1; k >= 0; k-- {
				order = append(order, pair{types[i], nrs[k]})
			}
		}
	default: // syscall-major, syscalls in a stride order
		for k := range nrs {
			nr := nrs[(k*131)%len(nrs)]
			for _, rt := range types {
				order = append(order, pair{rt, nr})
			}
		}
	}
	out := map[string]string{}
	for _, p := range order {
		lines := []string{
			fmt.Sprintf("type=%s msg=audit(1492037400.000:%d): pid=1 uid=0 auid=1000 ses=3 op=x acct=\"a\" exe=\"/x\" hostname=h addr=1.2.3.4 terminal=t res=success", p.rt, 900+p.nr),
			fmt.Sprintf("type=SYSCALL msg=audit(1492037400.000:%d): arch=c000003e syscall=%d success=yes exit=0 a0=1 a1=2 a2=3 a3=4 items=0 ppid=1 pid=2 auid=1000 uid=0 gid=0 euid=0 suid=0 fsuid=0 egid=0 sgid=0 fsgid=0 tty=pts0 ses=3 comm=\"c\" exe=\"/x\" key=(null)", 900+p.nr, p.nr),
		}
		e, cerr := aucoalesce.CoalesceMessages(parseGroup(lines))
		h := sha1.Sum([]byte(evSnap(e, cerr)))
		out[fmt.Sprintf("%s/%d", p.rt, p.nr)] = hex.EncodeToString(h[:6])
	}
	return out
}

func c15Sweep(run *ev.Run) {
	orders := []string{"type-major-ascending", "type-major-descending", "syscall-major-stride"}
	var jobs []interface{}
	for _, o := range orders {
		jobs = append(jobs, c15SweepJob{Order: o})
	}
	res := map[string]map[string]string{}
	par.Map("c15sweep", jobs, time.Hour, nil, func(r par.Result) {
		if r.Died || r.Hang != "" {
			run.Errorf("sweep worker failed: %s %s", r.Hang, r.Stderr)
			return
		}
		var m map[string]string
		if err := json.Unmarshal(r.Out, &m); err != nil || m["ERROR"] != "" {
			run.Errorf("sweep worker: %v %s", err, m["ERROR"])
			return
		}
		res[orders[r.Job]] = m
	})
	ref := res[orders[0]]
	for _, o := range orders[1:] {
		var diff []string
		for k, v := range res[o] {
			if ref[k] != v {
				diff = append(diff, k)
			}
		}
		sort.Strings(diff)
		if len(diff) > 0 {
			n := len(diff)
			if n > 8 {
				diff = diff[:8]
			}
			run.Report(ev.Violation{Sig: "C15 outcome-depends-on-what-was-coalesced-before", What: fmt.Sprintf("the compound events (record type / syscall) %v ... (%d in all) come out differently when the process visits the %d (type, syscall) groups in %s order instead of %s order (each order in a fresh process)", diff, n, len(ref), o, orders[0]), Replay: map[string]interface{}{"orders": []string{orders[0], o}, "first_differing": diff}})
		}
		run.Add("traces_validated_against_impl", int64(len(res[o])))
	}
	run.Add("traces_validated_against_impl", int64(len(ref)))
	run.Set("order_sweep_groups_per_order", len(ref))
}

func checkC15(tier, raceBin string) int {
	run := ev.Begin("C15", tier, "model_checking")
	tableSweep(run)
	c15Sweep(run)
	if tier == "thorough" {
		longHistory(run, 300000)
	} else {
		longHistory(run, 70000)
	}
	maxLen := 3
	if tier == "thorough" {
		maxLen = 4
	}
	// the per-call clauses (inputs intact, coalescing again / from a fresh parse gives an equal event) over
	// every group the C09 enumerations produce (all st_mode values, all record types single / repeated /
	// without SYSCALL, every native syscall, every arrangement of auxiliary records, non-ASCII and relative names)
	enumx.Run(run, "C15", []string{"c15:c09-modes", "c15:c09-groups", "c15:c09-singles", "c15:c09-repeats", "c15:c09-names", "c15:c09-syscalls", "c15:c09-missing", "c15:c09-times", "c15:c09-outcomes", "c15:c09-relations", "c15:c09-paths", "c15:c09-equalcounts"}, tier, 16, true)
	hs := c15Histories(maxLen)
	var jobs []interface{}
	n := 64
	sz := (len(hs) + n - 1) / n
	for i := 0; i < len(hs); i += sz {
		k := i + sz
		if k > len(hs) {
			k = len(hs)
		}
		jobs = append(jobs, c15Job{Hists: hs[i:k]})
	}
	par.Map("c15", jobs, 6*time.Hour, nil, func(r par.Result) {
		if r.Hang != "" {
			run.Report(ev.Violation{Sig: "C15 hang", What: "no progress on " + r.Hang, Replay: r.Hang})
			return
		}
		if r.Died {
			run.Errorf("worker died: %s", r.Stderr)
			return
		}
		var cr c15Result
		if err := json.Unmarshal(r.Out, &cr); err != nil {
			run.Errorf("%v", err)
			return
		}
		run.Add("traces_validated_against_impl", cr.Executions)
		run.Add("transitions", cr.Ops)
		run.Add("states", int64(cr.Outcomes))
		if cr.Sample != "" {
			run.Sample(cr.Sample)
		}
		for _, v := range cr.Viol {
			run.Report(ev.Violation{Sig: v.Sig, What: v.What, Replay: map[string]interface{}{"history": v.History, "history_text": fmt.Sprint(v.History)}})
		}
	})
	run.Set("histories", len(hs))
	// concurrent part
	vtime.Install()
	for i := 0; i < 5; i++ {
		seqExpected[[2]int{i, 1}] = concBody(i, 1)
		seqExpected[[2]int{i, 2}] = concBody(i, 2)
	}
	var schedules int64
	for _, shape := range [][3]int{{2, 1, 0}, {3, 1, 0}, {2, 2, 0}, {3, 2, 0}, {2, 1, 1}, {3, 1, 1}, {2, 2, 1}, {4, 1, 1}} {
		nt, per, cold := shape[0], shape[1], shape[2] == 1
		// whole schedule tree when it closes within the cap, else every schedule within the preemption bound
		mk := func() explore.Harness { return &concHarness{nThreads: nt, perThread: per, cold: cold} }
		cap := int64(5000)
		if tier == "thorough" {
			cap = 200000
		}
		bound := -1
		e := &explore.Explorer{Bound: -1, MaxExec: cap, Horizon: 20000, NewHarness: mk}
		r := e.Explore()
		if !r.Exhausted && len(r.Findings) == 0 {
			bound = 2
			if tier == "thorough" {
				bound = 3
			}
			e = &explore.Explorer{Bound: bound, MaxExec: 2000000, Horizon: 20000, NewHarness: mk}
			r = e.Explore()
		}
		schedules += r.Executions
		run.Add("traces_validated_against_impl", r.Executions)
		run.Add("transitions", r.Executions*int64(r.MaxChoices+1))
		for _, n := range r.Nondeterminism {
			run.Errorf("nondeterminism: %s", n)
		}
		for _, f := range r.Findings {
			if strings.HasPrefix(f.Sig, "ERROR/") {
				run.Errorf("%s", f.What)
				continue
			}
			run.Report(ev.Violation{Sig: "C15 " + f.Sig, What: f.What, Replay: map[string]interface{}{"threads": nt, "events_per_thread": per, "schedule": f.Schedule}})
		}
		name := fmt.Sprintf("concurrent_%d_threads_%d_events_each", nt, per)
		if cold {
			name += "_cold_caches"
		}
		run.Set(name, map[string]interface{}{"schedules": r.Executions, "max_choice_points": r.MaxChoices, "preemption_bound": bound, "whole_tree": r.Exhausted})
	}
	run.Set("concurrent_schedules", schedules)
	// race pass
	if run.NumSigs() == 0 && raceBin != "" {
		reps := 300
		if tier == "thorough" {
			reps = 3000
		}
		raceRun(run, raceBin, "C15", map[string]int{"Reps": reps})
	}
	run.Set("exhaustive", true)
	run.Set("explanation", fmt.Sprintf("every call history of <=%d ops over {CoalesceMessages(g), CoalesceMessages(g)+ResolveIDsFromCaches for 12 pooled message groups (incl. user and group ALIAS names, ids with two names, a multi-key tag list with a repeated key), ResolveIDsFromCaches(e_i) on a previously returned event} on persistent message objects, per-history caches, against a simulated non-injective account database behind the os/user seam (vuser); ResolveIDs outcome compared with the same event resolved through FRESH caches; after every op: inputs' Data/Tags/ToMapStr unchanged, the event equals the one from a fresh parse of the same lines (differential), every earlier event equals its snapshot; plus every interleaving (2 threads) / every schedule within the preemption bound (3 threads) of threads coalescing and resolving IDs through the shared global caches (scheduler points at the cache mutex), compared with the sequential results; data races sampled by a free-running -race pass. states = distinct observation logs, transitions = ops executed.", maxLen))
	run.Assume("ID lookups are answered by the simulated account database (engine/vshim/vuser) that the instrumenter routes os/user.Lookup* to: first matching row wins, aliases (two names for one id) present, answers never change during a run")
	if d := vuser.Installed(); d != nil {
		run.Set("account_database_lookups_in_main_process", d.Lookups)
	}
	return run.Finish()
}

var _ = reflect.DeepEqual
