package main

import (
	"encoding/hex"
	"fmt"
	"reflect"
	"sort"
	"strconv"
	"strings"
	"time"

	"github.com/elastic/go-libaudit/v2/aucoalesce"
	"github.com/elastic/go-libaudit/v2/auparse"

	"verif/engine/enumx"
	"verif/refdata"
)

const hdrT = "msg=audit(1700000000.123:4242): "

// recDesc is a structured description of one record; every free value is a
// unique tag so that "present somewhere in the event" is a containment test.
type recDesc struct {
	Type string
	Body string
}

func (r recDesc) line() string { return "type=" + r.Type + " " + hdrT + r.Body }

// tagger hands out unique values: textual tags (v17q) or, in numeric mode, unique
// 7-digit numbers - ids, pids and inodes are numbers in real logs and numeric values take
// other paths (ECS id vs name, lookups).
type tagger struct {
	n       int
	numeric bool
}

func (t *tagger) v() string {
	t.n++
	if t.numeric {
		return fmt.Sprintf("%d", 7100000+t.n)
	}
	return fmt.Sprintf("v%dq", t.n)
}

func syscallRec(t *tagger, nr int, extraKey string) recDesc {
	b := fmt.Sprintf("arch=c000003e syscall=%d success=yes exit=0 a0=%s a1=%s a2=%s a3=%s items=2 ppid=%s pid=%s auid=%s uid=%s gid=%s euid=%s suid=%s fsuid=%s egid=%s sgid=%s fsgid=%s tty=%s ses=%s comm=\"%s\" exe=\"/bin/%s\" subj=%s:%s:%s:s0 key=\"%s\"",
		nr, t.v(), t.v(), t.v(), t.v(), t.v(), t.v(), t.v(), t.v(), t.v(), t.v(), t.v(), t.v(), t.v(), t.v(), t.v(), t.v(), t.v(), t.v(), t.v(), t.v(), t.v(), t.v(), t.v())
	if extraKey != "" {
		b += " " + extraKey + "=" + t.v()
	}
	return recDesc{"SYSCALL", b}
}

func pathRec(t *tagger, item int, nametype string, mode string, inodeTag string) recDesc {
	return recDesc{"PATH", fmt.Sprintf("item=%d name=\"/p/%s\" inode=%s dev=%s mode=%s ouid=%s ogid=%s rdev=%s obj=%s:%s:%s:s0 nametype=%s cap_fp=%s",
		item, t.v(), inodeTag, t.v(), mode, t.v(), t.v(), t.v(), t.v(), t.v(), t.v(), nametype, t.v())}
}

func otherRecs(t *tagger, collide string) map[string]recDesc {
	m := map[string]recDesc{
		"CWD":       {"CWD", "cwd=\"/cwd/" + t.v() + "\""},
		"PATH0":     pathRec(t, 0, "NORMAL", "0100644", "ino"+t.v()),
		"PATH1":     pathRec(t, 1, "PARENT", "040755", "ino"+t.v()),
		"PATHC":     {"PATH", "item=1 name=\"/p/" + t.v() + "\" nametype=CREATE"},
		"EXECVE":    {"EXECVE", "argc=2 a0=\"" + t.v() + "\" a1=\"" + t.v() + "\""},
		"SOCKADDR":  {"SOCKADDR", "saddr=020001BB0A141E280000000000000000"},
		"PROCTITLE": {"PROCTITLE", "proctitle=\"" + t.v() + "\""},
		"AVC":       {"AVC", "avc:  denied  { read } for  pid=" + t.v() + " comm=\"" + t.v() + "\" name=\"" + t.v() + "\" dev=\"" + t.v() + "\" ino=" + t.v() + " scontext=" + t.v() + " tcontext=" + t.v() + " tclass=" + t.v() + " permissive=0"},
		"BPRM":      {"BPRM_FCAPS", "fver=" + t.v() + " fp=" + t.v() + " fi=" + t.v() + " fe=" + t.v() + " old_pp=" + t.v() + " new_pp=" + t.v()},
	}
	if collide != "" {
		// a key that also exists in another record of the group
		r := m["CWD"]
		r.Body += " " + collide + "=" + t.v()
		m["CWD"] = r
		r2 := m["BPRM"]
		r2.Body += " " + collide + "=" + t.v()
		m["BPRM"] = r2
	}
	return m
}

// leaves flattens the event (JSON view + tags) to the set of its string leaves.
func leaves(ev *aucoalesce.Event) map[string]bool {
	out := map[string]bool{}
	// only the places the statement lists: Data, Paths, Process, User ids / SELinux labels,
	// Result, Session, Tags, Source / Destination (+ File, which mirrors a PATH).  Summary and
	// ECS hold derived COPIES and must not hide a value that was dropped from its home.
	view := map[string]interface{}{"data": ev.Data, "paths": ev.Paths, "process": ev.Process, "user_ids": ev.User.IDs, "user_selinux": ev.User.SELinux,
		"result": ev.Result, "session": ev.Session, "tags": ev.Tags, "source": ev.Source, "destination": ev.Dest, "file": ev.File}
	// a reflective walk, not a JSON round trip: JSON cannot carry text that is not valid UTF-8
	// (file names in legacy encodings) and would hide or invent differences there
	var walk func(x reflect.Value)
	walk = func(x reflect.Value) {
		switch x.Kind() {
		case reflect.Interface, reflect.Ptr:
			if !x.IsNil() {
				walk(x.Elem())
			}
		case reflect.Map:
			for _, k := range x.MapKeys() {
				walk(x.MapIndex(k))
			}
		case reflect.Slice, reflect.Array:
			for i := 0; i < x.Len(); i++ {
				walk(x.Index(i))
			}
		case reflect.Struct:
			for i := 0; i < x.NumField(); i++ {
				if x.Type().Field(i).IsExported() {
					walk(x.Field(i))
				}
			}
		case reflect.String:
			out[x.String()] = true
		case reflect.Int, reflect.Int8, reflect.Int16, reflect.Int32, reflect.Int64:
			out[fmt.Sprint(x.Int())] = true
		case reflect.Uint, reflect.Uint8, reflect.Uint16, reflect.Uint32, reflect.Uint64:
			out[fmt.Sprint(x.Uint())] = true
		}
	}
	walk(reflect.ValueOf(view))
	return out
}

func parseAll(c *enumx.Ctx, recs []recDesc) ([]*auparse.AuditMessage, bool) {
	var msgs []*auparse.AuditMessage
	for _, r := range recs {
		m, err := auparse.ParseLogLine(r.line())
		if err != nil {
			c.Report("ERROR/harness-line", fmt.Sprintf("harness line does not parse: %q: %v", r.line(), err), nil)
			return nil, false
		}
		msgs = append(msgs, m)
	}
	return msgs, true
}

// containment is the "every key/value is present or a warning names it" oracle.
func containment(c *enumx.Ctx, sigPrefix string, recs []recDesc, ev *aucoalesce.Event, desc string) bool {
	lv := leaves(ev)
	var warn []string
	for _, w := range ev.Warnings {
		warn = append(warn, w.Error())
	}
	wtxt := strings.Join(warn, " | ")
	ok := true
	for _, r := range recs {
		if r.Type == "EOE" {
			continue
		}
		// the record's own Data() from a SEPARATE parse
		m, err := auparse.ParseLogLine(r.line())
		if err != nil {
			continue
		}
		d, err := m.Data()
		if err != nil {
			if !strings.Contains(wtxt, err.Error()) && len(ev.Warnings) == 0 {
				c.Report(sigPrefix+" unparsable-record-without-warning:"+r.Type, fmt.Sprintf("%s: record %q fails Data() (%v) but the event carries no warning", desc, r.line(), err), nil)
				ok = false
			}
			continue
		}
		var keys []string
		for k := range d {
			keys = append(keys, k)
		}
		sort.Strings(keys)
		for _, k := range keys {
			v := d[k]
			if r.Type == "SYSCALL" && k == "items" {
				continue
			}
			if lv[v] {
				continue
			}
			if strings.Contains(wtxt, k) {
				continue
			}
			c.Report(sigPrefix+" field-dropped:"+r.Type+"."+k, fmt.Sprintf("%s: %s field %s=%q is nowhere in the event and no warning names it (warnings: %q)", desc, r.Type, k, v, wtxt), nil)
			ok = false
		}
		// the statement quantifies over what Data() returns; a record's key= is reported by Tags(), not Data().
		// The event's Tags come from the SYSCALL record (or the single record): only that record's tags are
		// looked for - the key= of an auxiliary record (CONFIG_CHANGE ...) is dropped by the original, which the
		// statement does not forbid (DESIGN 12.5)
		tags, _ := m.Tags()
		if r.Type != "SYSCALL" && len(recs) > 1 {
			tags = nil
		}
		for _, tg := range tags {
			if !lv[tg] && !strings.Contains(wtxt, "key") {
				c.Report(sigPrefix+" tag-dropped:"+r.Type, fmt.Sprintf("%s: %s key/tag %q is nowhere in the event", desc, r.Type, tg), nil)
				ok = false
			}
		}
	}
	return ok
}

func identity(c *enumx.Ctx, sigPrefix string, first *auparse.AuditMessage, ev *aucoalesce.Event, desc string) bool {
	if !ev.Timestamp.Equal(first.Timestamp) || ev.Sequence != first.Sequence || ev.Type != first.RecordType {
		c.Report(sigPrefix+" identity", fmt.Sprintf("%s: event identity %v/%d/%v, first record is %v/%d/%v", desc, ev.Timestamp, ev.Sequence, ev.Type, first.Timestamp, first.Sequence, first.RecordType), nil)
		return false
	}
	return true
}

var sIFMT = func() map[uint64]string {
	st := refdata.Stat()
	return map[uint64]string{st["S_IFREG"]: "file", st["S_IFDIR"]: "directory", st["S_IFCHR"]: "character-device", st["S_IFBLK"]: "block-device", st["S_IFIFO"]: "named-pipe", st["S_IFLNK"]: "symlink", st["S_IFSOCK"]: "socket"}
}()

// (a) all 65536 st_mode values on the selected PATH record of an open event
func c09Modes(c *enumx.Ctx) {
	ifmt := refdata.Stat()["S_IFMT"]
	for mode := 0; mode < 65536; mode++ {
		if !c.Mine() {
			continue
		}
		t := &tagger{}
		ino := "ino" + t.v()
		p := pathRec(t, 0, "NORMAL", fmt.Sprintf("%#o", mode), ino)
		recs := []recDesc{syscallRec(t, 2, ""), {"CWD", "cwd=\"/c\""}, p}
		desc := fmt.Sprintf("open event whose PATH has mode=%#o", mode)
		c.Begin(func() string { return desc + ": " + p.line() })
		c.Try(tryProp(), func() {
			msgs, ok := parseAll(c, recs)
			if !ok {
				return
			}
			ev, err := coalesce(c, msgs)
			if oracleC15 {
				return
			}
			if err != nil || ev == nil {
				c.Report("C09 coalesce-error", fmt.Sprintf("%s: %v", desc, err), nil)
				return
			}
			if ev.File == nil {
				c.Report("C09 file-block-missing", fmt.Sprintf("%s: no File block although the normalisation selects a PATH record (warnings %v)", desc, ev.Warnings), nil)
				return
			}
			pd, _ := msgs[2].Data()
			good := true
			if ev.File.Inode != ino || ev.File.Path != pd["name"] || ev.File.Device != pd["rdev"] || ev.File.UID != pd["ouid"] || ev.File.GID != pd["ogid"] {
				c.Report("C09 file-block-mirror", fmt.Sprintf("%s: File=%+v does not mirror the PATH record %v", desc, *ev.File, pd), nil)
				good = false
			}
			wantMode := fmt.Sprintf("%04o", mode&0o7777)
			if ev.File.Mode != wantMode {
				c.Report("C09 file-mode-bits", fmt.Sprintf("%s: File.Mode=%q want %q (mode & 07777)", desc, ev.File.Mode, wantMode), nil)
				good = false
			}
			if want, valid := sIFMT[uint64(mode)&ifmt]; valid {
				if ev.Summary.Object.Type != want {
					c.Report(fmt.Sprintf("C09 object-type: S_IFMT=%#o classified %q want %q", uint64(mode)&ifmt, ev.Summary.Object.Type, want),
						fmt.Sprintf("%s: Summary.Object.Type=%q, the mode's file-type bits %#o say %q", desc, ev.Summary.Object.Type, uint64(mode)&ifmt, want), nil)
					good = false
				}
			}
			if good {
				c.Nontrivial()
			}
		})
	}
	c.Sample("SYSCALL(open)+CWD+PATH mode=040755 => File.Mode=0755, Summary.Object.Type must be directory")
}

// (b) all orders of all subsets of <=k other records around a SYSCALL at every position
func c09Groups(c *enumx.Ctx) {
	names := []string{"CWD", "PATH0", "PATH1", "PATHC", "EXECVE", "SOCKADDR", "PROCTITLE", "AVC", "BPRM"}
	maxK := 3
	if c.Tier == "thorough" {
		maxK = 4
	}
	syscalls := []int{2 /*open*/, 42 /*connect*/, 59 /*execve*/, 39 /*getpid: not normalised*/, 87 /*unlink*/, 45 /*recvfrom*/}
	var rec func(cur []string, used map[string]bool)
	// socket addresses of every kind the parser distinguishes: decoded families
	// (inet, inet6, unix) and families it keeps as raw saddr (netlink, packet, unknown)
	saddrs := []string{"020001BB0A141E280000000000000000", "0A0001BB00000000FE800000000000000000000000000001" + "00000000", "01002F72756E2F782E736F636B00", "100000000000000000000000", "1100000302000000000000000000000000000000", "2800AABBCCDD"}
	visit := func(order []string) {
		hasSock := false
		for _, n := range order {
			if n == "SOCKADDR" {
				hasSock = true
			}
		}
		for _, nr := range syscalls {
			for _, collide := range []string{"", "pid", "foo"} {
				for pos := 0; pos <= len(order); pos++ {
					for si, sa := range saddrs {
						if !hasSock && si > 0 {
							break
						}
						if !c.Mine() {
							continue
						}
						t := &tagger{numeric: (pos+si+nr)%2 == 1}
						extra := ""
						if collide == "foo" {
							extra = "foo"
						}
						sc := syscallRec(t, nr, extra)
						others := otherRecs(t, collide)
						others["SOCKADDR"] = recDesc{"SOCKADDR", "saddr=" + sa}
						var recs []recDesc
						for i, n := range order {
							if i == pos {
								recs = append(recs, sc)
							}
							recs = append(recs, others[n])
						}
						if pos == len(order) {
							recs = append(recs, sc)
						}
						for _, eoe := range []bool{false, true} {
							rs := recs
							if eoe {
								rs = append(append([]recDesc{}, recs...), recDesc{"EOE", ""})
							}
							desc := fmt.Sprintf("group [%s] syscall=%d SYSCALL at %d collide=%q eoe=%v saddr=%s", strings.Join(order, ","), nr, pos, collide, eoe, sa)
							c.Begin(func() string { return desc })
							c.Try(tryProp(), func() {
								msgs, ok := parseAll(c, rs)
								if !ok {
									return
								}
								ev, err := coalesce(c, msgs)
								if oracleC15 {
									return
								}
								if len(rs) == 1 || (len(rs) >= 1 && err == nil && ev != nil) {
									// fine
								}
								if err != nil || ev == nil {
									c.Report("C09 coalesce-error", fmt.Sprintf("%s: CoalesceMessages = (%v, %v) for a group with a SYSCALL record", desc, ev, err), nil)
									return
								}
								a := identity(c, "C09", msgs[0], ev, desc)
								b := containment(c, "C09", rs, ev, desc)
								// the File block, when present, mirrors ONE of the PATH records consistently
								if ev.File != nil {
									mirrored := false
									for _, m := range msgs {
										if m.RecordType != auparse.AUDIT_PATH {
											continue
										}
										pd, _ := m.Data()
										wantMode := ""
										if mv, ok := pd["mode"]; ok {
											if mo, err := strconv.ParseUint(mv, 8, 64); err == nil {
												wantMode = fmt.Sprintf("%04o", mo&0o7777)
											}
										}
										if ev.File.Inode == pd["inode"] && ev.File.Path == pd["name"] && ev.File.Device == pd["rdev"] && ev.File.UID == pd["ouid"] && ev.File.GID == pd["ogid"] && ev.File.Mode == wantMode {
											mirrored = true
										}
									}
									if !mirrored {
										c.Report("C09 file-block-mirror", fmt.Sprintf("%s: File=%+v mirrors none of the event's PATH records", desc, *ev.File), nil)
										b = false
									}
								}
								if a && b {
									c.Nontrivial()
								}
							})
						}
					}
				}
			}
		}
	}
	rec = func(cur []string, used map[string]bool) {
		visit(cur)
		if len(cur) == maxK {
			return
		}
		for _, n := range names {
			if used[n] {
				continue
			}
			used[n] = true
			rec(append(append([]string{}, cur...), n), used)
			used[n] = false
		}
	}
	rec(nil, map[string]bool{})
	c.Sample("group [PATH1,CWD,AVC] syscall=2 SYSCALL at position 1, key pid colliding => every field of every record in the event or named by a warning")
}

// (c) every record type as a single user-space-style record; (d) error side
func c09Singles(c *enumx.Ctx) {
	for typ := 0; typ < 65536; typ++ {
		if !c.Mine() {
			continue
		}
		t := &tagger{numeric: typ%2 == 1}
		name := auparse.AuditMessageType(typ).String()
		var r recDesc
		switch typ {
		case 1300, 1326, 1306, 1309, 1327, 1320:
			continue // need their own shapes; covered by the group generator
		default:
			r = recDesc{name, fmt.Sprintf("pid=%s uid=%s auid=%s ses=%s subj=%s:%s:%s:s0 msg='op=%s acct=\"%s\" exe=\"/usr/sbin/%s\" hostname=%s addr=%s terminal=%s res=success'", t.v(), t.v(), t.v(), t.v(), t.v(), t.v(), t.v(), t.v(), t.v(), t.v(), t.v(), t.v(), t.v())}
		}
		desc := "single " + name + " record"
		c.Begin(func() string { return r.line() })
		c.Try(tryProp(), func() {
			msgs, ok := parseAll(c, []recDesc{r})
			if !ok {
				return
			}
			ev, err := coalesce(c, msgs)
			if oracleC15 {
				return
			}
			if err != nil || ev == nil {
				c.Report("C09 single-record-error", fmt.Sprintf("%s: (%v, %v)", desc, ev, err), nil)
				return
			}
			a := identity(c, "C09", msgs[0], ev, desc)
			b := containment(c, "C09", []recDesc{r}, ev, desc)
			if a && b {
				c.Nontrivial()
			}
		})
	}
	// error side: for EVERY record type, a two-record group of that type and a CWD record (either order) has no
	// SYSCALL record and is an error, never a partial event
	for typ := 0; typ < 65536; typ++ {
		if typ == 1300 || typ == 1320 || !c.Mine() {
			continue
		}
		name := auparse.AuditMessageType(typ).String()
		tt := &tagger{}
		x := recDesc{name, "pid=" + tt.v() + " uid=" + tt.v() + " op=" + tt.v()}
		cw := recDesc{"CWD", "cwd=\"/x\""}
		for oi, rs := range [][]recDesc{{x, cw}, {cw, x}, {x, x}} {
			desc := fmt.Sprintf("group of a %s record and a CWD record (arrangement %d), no SYSCALL", name, oi)
			c.Begin(func() string { return desc })
			c.Try(tryProp(), func() {
				msgs, ok := parseAll(c, rs)
				if !ok {
					return
				}
				ev, err := coalesce(c, msgs)
				if oracleC15 {
					return
				}
				if err == nil || ev != nil {
					c.Report("C09 partial-event-instead-of-error", fmt.Sprintf("%s: CoalesceMessages = (%v, %v), want (nil, error)", desc, ev != nil, err), nil)
					return
				}
				c.Nontrivial()
			})
		}
	}
	// error side
	t := &tagger{}
	o := otherRecs(t, "")
	eoe := recDesc{"EOE", ""}
	bad := [][]recDesc{nil, {}, {eoe}, {o["CWD"], o["PATH0"]}, {o["PATH0"], o["PATH1"], o["CWD"]}, {o["AVC"], o["CWD"], o["PATH0"], o["PROCTITLE"]}, {o["EXECVE"], o["CWD"], eoe}, {o["CWD"], o["PROCTITLE"], eoe}}
	// ... also when the records after the first carry no field at all (placeholders, empty bodies): it is still a
	// multi-record group without a SYSCALL record
	firsts := []recDesc{{"USER_CMD", "pid=1 uid=0 auid=0 ses=1 msg='cwd=\"/\" cmd=6C73 terminal=pts/0 res=success'"}, o["AVC"], o["CWD"], {"LOGIN", "pid=1 uid=0 old auid=4294967295 new auid=0 old ses=4294967295 new ses=1 res=1"}, {"USER_LOGIN", "pid=1 uid=0 auid=0 ses=1 msg='op=login acct=\"a\" exe=\"/x\" hostname=? addr=? terminal=ssh res=success'"}}
	empties := []recDesc{{"CWD", "cwd=(null)"}, {"PROCTITLE", "proctitle=(null)"}, {"PATH", ""}, {"UNKNOWN[1399]", ""}, {"MQ_NOTIFY", "a=?"}, {"CWD", ""}}
	for _, f := range firsts {
		for _, e1 := range empties {
			bad = append(bad, []recDesc{f, e1}, []recDesc{f, e1, eoe}, []recDesc{e1, f})
			for _, e2 := range empties[:3] {
				bad = append(bad, []recDesc{f, e1, e2})
			}
		}
	}
	for i, rs := range bad {
		if !c.Mine() {
			continue
		}
		desc := fmt.Sprintf("error-side group #%d (%d records, no SYSCALL)", i, len(rs))
		if len(rs) > 0 {
			desc += fmt.Sprintf(": %s %q ...", rs[0].Type, rs[0].Body)
			if len(rs) > 1 {
				desc += fmt.Sprintf(" then %s %q", rs[1].Type, rs[1].Body)
			}
		}
		c.Begin(func() string { return desc })
		c.Try(tryProp(), func() {
			msgs, ok := parseAll(c, rs)
			if !ok {
				return
			}
			if rs == nil {
				msgs = nil
			}
			ev, err := coalesce(c, msgs)
			if oracleC15 {
				return
			}
			if err == nil || ev != nil {
				c.Report("C09 partial-event-instead-of-error", fmt.Sprintf("%s: CoalesceMessages = (%v, %v), want (nil, error)", desc, ev, err), nil)
				return
			}
			c.Nontrivial()
		})
	}
}

// (e) the same auxiliary record type two and three times in one compound event (signals to a
// process group produce several OBJ_PID records, renames several PATHs, ...), for EVERY record
// type: whatever a later copy says is in the event or named by a warning.
func c09Repeats(c *enumx.Ctx) {
	for typ := 0; typ < 65536; typ++ {
		if !c.Mine() {
			continue
		}
		switch typ {
		case 1300, 1320, 1309, 1306, 1327, 1326:
			continue // need their own shapes (SYSCALL itself, EOE, EXECVE, SOCKADDR, PROCTITLE, SECCOMP)
		}
		name := auparse.AuditMessageType(typ).String()
		for _, copies := range []int{2, 3} {
			for _, first := range []bool{false, true} {
				t := &tagger{numeric: typ%2 == 1}
				sc := syscallRec(t, 62 /*kill*/, "")
				var aux []recDesc
				for i := 0; i < copies; i++ {
					aux = append(aux, recDesc{name, fmt.Sprintf("opid=%s oauid=%s ouid=%s oses=%s obj=%s:%s:%s:s0 ocomm=\"%s\" xk%d=%s", t.v(), t.v(), t.v(), t.v(), t.v(), t.v(), t.v(), t.v(), i, t.v())})
				}
				var rs []recDesc
				if first {
					rs = append(append([]recDesc{aux[0], sc}, aux[1:]...))
				} else {
					rs = append([]recDesc{sc}, aux...)
				}
				desc := fmt.Sprintf("SYSCALL(kill) with %d %s records (aux first: %v)", copies, name, first)
				c.Begin(func() string { return desc })
				c.Try(tryProp(), func() {
					msgs, ok := parseAll(c, rs)
					if !ok {
						return
					}
					ev, err := coalesce(c, msgs)
					if oracleC15 {
						return
					}
					if err != nil || ev == nil {
						c.Report("C09 coalesce-error", fmt.Sprintf("%s: (%v, %v)", desc, ev, err), nil)
						return
					}
					a := identity(c, "C09", msgs[0], ev, desc)
					b := containment(c, "C09", rs, ev, desc)
					if a && b {
						c.Nontrivial()
					}
				})
			}
		}
	}
	c.Sample("SYSCALL(kill) + OBJ_PID + OBJ_PID => the second target's opid/ocomm are in the event or a warning names them")
}

// (f) file names, working directories and executables that are not plain ASCII: the kernel hex-encodes
// them; the File block mirrors the selected PATH's name byte for byte (legacy encodings are not
// valid UTF-8), and every value is still somewhere in the event.
func c09Names(c *enumx.Ctx) {
	hx := func(s string) string { return strings.ToUpper(hex.EncodeToString([]byte(s))) }
	for _, r := range enumx.HostileRunes {
		for _, shape := range []string{"%s", "a%sb", "%s%s", "dir%s/f%s"} {
			for _, nr := range []int{2 /*open*/, 87 /*unlink*/, 59 /*execve*/} {
				if !c.Mine() {
					continue
				}
				t := &tagger{}
				nm := "/p/" + t.v() + strings.ReplaceAll(shape, "%s", r)
				if nr == 87 {
					nm = nm[1:] // a RELATIVE name (resolved against the CWD record by whoever wants to)
				}
				ino := "ino" + t.v()
				p := recDesc{"PATH", fmt.Sprintf("item=0 name=%s inode=%s dev=%s mode=0100644 ouid=%s ogid=%s rdev=%s nametype=NORMAL", hx(nm), ino, t.v(), t.v(), t.v(), t.v())}
				rs := []recDesc{syscallRec(t, nr, ""), {"CWD", "cwd=" + hx("/c/"+t.v()+r)}, p}
				desc := fmt.Sprintf("syscall %d on a file named %q", nr, nm)
				c.Begin(func() string { return desc })
				c.Try(tryProp(), func() {
					msgs, ok := parseAll(c, rs)
					if !ok {
						return
					}
					pd, err := msgs[2].Data()
					if err != nil || pd["name"] != nm {
						return // the parser's business (C12)
					}
					ev, err := coalesce(c, msgs)
					if oracleC15 {
						return
					}
					if err != nil || ev == nil {
						c.Report("C09 coalesce-error", fmt.Sprintf("%s: (%v, %v)", desc, ev, err), nil)
						return
					}
					good := identity(c, "C09", msgs[0], ev, desc)
					if ev.File != nil && (ev.File.Path != nm || ev.File.Inode != ino) {
						c.Report("C09 file-block-mirror", fmt.Sprintf("%s: File.Path=%q Inode=%q does not mirror the selected PATH record (name %q inode %q)", desc, ev.File.Path, ev.File.Inode, nm, ino), nil)
						good = false
					}
					if !containment(c, "C09", rs, ev, desc) {
						good = false
					}
					if good {
						c.Nontrivial()
					}
				})
			}
		}
	}
	c.Sample("open of a file whose name is Latin-1 (hex-encoded by the kernel) => File.Path holds the same bytes")
}

// (g) EVERY syscall number of the native table x arguments that look like modes / flags / ids (hex) x
// success yes/no, on an event with CWD and one PATH record: whatever the syscall is and whatever its
// arguments say, the File block (when present) mirrors the PATH record - mode bits included.
func c09Syscalls(c *enumx.Ctx) {
	var nrs []int
	for nr := range auparse.AuditSyscalls["x86_64"] {
		nrs = append(nrs, nr)
	}
	sort.Ints(nrs)
	argSets := [][4]string{{"1ed", "1ed", "1ed", "1ed"}, {"ffffff9c", "7ffd1234", "1a4", "0"}, {"3", "1ff", "8000", "241"}, {"0", "0", "0", "0"}}
	for _, nr := range nrs {
		for ai, args := range argSets {
			for _, succ := range []string{"yes", "no"} {
				for _, mode := range []string{"0100644", "040711"} {
					if !c.Mine() {
						continue
					}
					t := &tagger{numeric: ai%2 == 1}
					ino := "ino" + t.v()
					exit := "0"
					if succ == "no" {
						exit = "-13"
					}
					sc := recDesc{"SYSCALL", fmt.Sprintf("arch=c000003e syscall=%d success=%s exit=%s a0=%s a1=%s a2=%s a3=%s items=1 ppid=%s pid=%s auid=%s uid=%s gid=%s euid=%s suid=%s fsuid=%s egid=%s sgid=%s fsgid=%s tty=%s ses=%s comm=\"%s\" exe=\"/bin/%s\" key=\"%s\"",
						nr, succ, exit, args[0], args[1], args[2], args[3], t.v(), t.v(), t.v(), t.v(), t.v(), t.v(), t.v(), t.v(), t.v(), t.v(), t.v(), t.v(), t.v(), t.v(), t.v(), t.v())}
					p := pathRec(t, 0, "NORMAL", mode, ino)
					rs := []recDesc{sc, {"CWD", "cwd=\"/c/" + t.v() + "\""}, p}
					desc := fmt.Sprintf("syscall %d (%s) success=%s args %v on a PATH with mode %s", nr, auparse.AuditSyscalls["x86_64"][nr], succ, args, mode)
					c.Begin(func() string { return desc })
					c.Try(tryProp(), func() {
						msgs, ok := parseAll(c, rs)
						if !ok {
							return
						}
						ev, err := coalesce(c, msgs)
						if oracleC15 {
							return
						}
						if err != nil || ev == nil {
							c.Report("C09 coalesce-error", fmt.Sprintf("%s: (%v, %v)", desc, ev, err), nil)
							return
						}
						good := identity(c, "C09", msgs[0], ev, desc) && containment(c, "C09", rs, ev, desc)
						if ev.File != nil {
							pd, _ := msgs[2].Data()
							mo, _ := strconv.ParseUint(mode, 8, 64)
							wantMode := fmt.Sprintf("%04o", mo&0o7777)
							if ev.File.Inode != ino || ev.File.Path != pd["name"] || ev.File.Device != pd["rdev"] || ev.File.UID != pd["ouid"] || ev.File.GID != pd["ogid"] || ev.File.Mode != wantMode {
								c.Report("C09 file-block-mirror", fmt.Sprintf("%s: File=%+v does not mirror the PATH record %v (mode bits %s)", desc, *ev.File, pd, wantMode), nil)
								good = false
							}
						}
						if good {
							c.Nontrivial()
						}
					})
				}
			}
		}
	}
	c.Sample("chmod(a1=1ed) success=yes on a PATH with mode 0100644 => File.Mode stays 0644 (it mirrors the record)")
}

// oracleC15: the same enumerations decide C15's per-call clauses instead of C09's: the input
// messages report the same before and after, coalescing the same messages again gives an equal
// event, and so does a fresh parse of the same lines.
var oracleC15 bool

func tryProp() string {
	if oracleC15 {
		return "C15"
	}
	return "C09"
}

func coalesce(c *enumx.Ctx, msgs []*auparse.AuditMessage) (*aucoalesce.Event, error) {
	if !oracleC15 {
		return aucoalesce.CoalesceMessages(msgs)
	}
	var before []string
	var lines []string
	for _, m := range msgs {
		before = append(before, msgSnap(m))
		lines = append(lines, "type="+m.RecordType.String()+" msg="+m.RawData)
	}
	e1, err1 := aucoalesce.CoalesceMessages(msgs)
	good := true
	for i, m := range msgs {
		if s := msgSnap(m); s != before[i] {
			c.Report("C15 input-mutated:"+m.RecordType.String(), fmt.Sprintf("after CoalesceMessages the %s message (record %d of %d) reports\n  %s\nbefore it reported\n  %s\ngroup: %q", m.RecordType, i, len(msgs), s, before[i], lines), nil)
			good = false
			break
		}
	}
	s1 := evSnap(e1, err1)
	// several repetitions: an answer that depends on something unordered inside one call (map iteration) differs between
	// calls only now and then
	for rep := 0; rep < 6 && good; rep++ {
		e2, err2 := aucoalesce.CoalesceMessages(msgs)
		if s2 := evSnap(e2, err2); s2 != s1 {
			c.Report("C15 recoalesce-differs", fmt.Sprintf("coalescing the same messages again (repetition %d) gives\n  %s\nthe first time it gave\n  %s\ngroup: %q", rep+2, s2, s1, lines), nil)
			good = false
		}
	}
	var fresh []*auparse.AuditMessage
	handMade := false
	for i, l := range lines {
		if m, err := auparse.ParseLogLine(l); err == nil {
			fresh = append(fresh, m)
			if !m.Timestamp.Equal(msgs[i].Timestamp) || m.Sequence != msgs[i].Sequence {
				handMade = true // not what a parse of its own text gives: no fresh-parse comparison
			}
		}
	}
	if len(fresh) == len(msgs) && len(msgs) > 0 && !handMade {
		e3, err3 := aucoalesce.CoalesceMessages(fresh)
		if s3 := evSnap(e3, err3); s3 != s1 {
			c.Report("C15 recoalesce-differs", fmt.Sprintf("coalescing a fresh parse of the same lines gives\n  %s\nthe first coalesce gave\n  %s\ngroup: %q", s3, s1, lines), nil)
			good = false
		}
	}
	if good {
		c.Nontrivial()
	}
	return e1, err1
}

// (k) outcomes and shared keys across the records of one event: every known record type as the auxiliary record of a
// SYSCALL event (first and second), carrying res= in each spelling, against a SYSCALL that succeeded / failed - two
// outcomes in one event are both kept; pairs of auxiliary records of DIFFERENT types that share a key (absent from the
// SYSCALL record) with different values; EXECVE records whose arguments the kernel wrote in pieces (aN_len= aN[0]= ...).
func c09Outcomes(c *enumx.Ctx) {
	var known []string
	for typ := 1000; typ < 3000; typ++ {
		if n := auparse.AuditMessageType(typ).String(); !strings.HasPrefix(n, "UNKNOWN") {
			switch typ {
			case 1300, 1320, 1309, 1306, 1327, 1326, 1302:
			default:
				known = append(known, n)
			}
		}
	}
	run := func(desc string, rs []recDesc) {
		c.Begin(func() string { return desc })
		c.Try(tryProp(), func() {
			msgs, ok := parseAll(c, rs)
			if !ok {
				return
			}
			ev, err := coalesce(c, msgs)
			if oracleC15 {
				return
			}
			if err != nil || ev == nil {
				c.Report("C09 coalesce-error", fmt.Sprintf("%s: (%v, %v)", desc, ev, err), nil)
				return
			}
			a := identity(c, "C09", msgs[0], ev, desc)
			b := containment(c, "C09", rs, ev, desc)
			if a && b {
				c.Nontrivial()
			}
		})
	}
	sysWith := func(t *tagger, nr int, success string) recDesc {
		sc := syscallRec(t, nr, "")
		if success == "no" {
			sc.Body = strings.Replace(sc.Body, "success=yes exit=0", "success=no exit=-13", 1)
		}
		return sc
	}
	for ti, name := range known {
		if !c.Mine() {
			continue
		}
		for _, res := range []string{"0", "1", "success", "failed", "yes", "no"} {
			for _, success := range []string{"yes", "no"} {
				for _, key := range []string{"res", "result", "success"} {
					if key != "res" && ti%8 != 0 {
						continue
					}
					for _, first := range []bool{true, false} {
						t := &tagger{numeric: ti%2 == 1}
						sc := sysWith(t, 44 /*sendto*/, success)
						aux := recDesc{name, fmt.Sprintf("op=%s xa=%s %s=%s", t.v(), t.v(), key, res)}
						rs := []recDesc{sc, aux}
						if first {
							rs = []recDesc{aux, sc}
						}
						run(fmt.Sprintf("SYSCALL(success=%s) with a %s record carrying %s=%s (aux first: %v)", success, name, key, res, first), rs)
					}
				}
			}
		}
	}
	generic := []string{"IPC", "MQ_OPEN", "MQ_SENDRECV", "MQ_NOTIFY", "CAPSET", "MMAP", "NETFILTER_PKT", "OBJ_PID", "FD_PAIR", "KERN_MODULE", "BPF", "FANOTIFY", "TIME_INJOFFSET", "CONFIG_CHANGE", "INTEGRITY_RULE", "ANOM_LINK", "BPRM_FCAPS", "CWD", "USER_CMD", "TTY"}
	for i, a := range generic {
		for j, b := range generic {
			if i == j || !c.Mine() {
				continue
			}
			for _, key := range []string{"mode", "xk", "res", "op", "name", "perm"} {
				for _, pos := range []int{0, 1, 2} {
					t := &tagger{numeric: (i+j)%2 == 1}
					sc := sysWith(t, 2, "yes")
					ra := recDesc{a, fmt.Sprintf("ka=%s %s=%s", t.v(), key, t.v())}
					rb := recDesc{b, fmt.Sprintf("kb=%s %s=%s", t.v(), key, t.v())}
					rs := []recDesc{ra, rb}
					rs = append(rs[:pos], append([]recDesc{sc}, rs[pos:]...)...)
					run(fmt.Sprintf("SYSCALL at %d with %s and %s records both carrying %s= (different values)", pos, a, b, key), rs)
				}
			}
		}
	}
	// pieced EXECVE arguments
	for argc := 1; argc <= 3; argc++ {
		for pieced := 0; pieced < argc; pieced++ {
			for _, np := range []int{1, 2, 3} {
				if !c.Mine() {
					continue
				}
				t := &tagger{}
				sc := sysWith(t, 59, "yes")
				b := fmt.Sprintf("argc=%d", argc)
				for i := 0; i < argc; i++ {
					if i != pieced {
						b += fmt.Sprintf(" a%d=\"%s\"", i, t.v())
						continue
					}
					b += fmt.Sprintf(" a%d_len=%d", i, 8*np)
					for k := 0; k < np; k++ {
						b += fmt.Sprintf(" a%d[%d]=%s", i, k, strings.ToUpper(hex.EncodeToString([]byte(fmt.Sprintf("p%dq%dzz", i, k)))))
					}
				}
				for _, first := range []bool{false, true} {
					rs := []recDesc{sc, {"EXECVE", b}, {"CWD", "cwd=\"/" + t.v() + "\""}}
					if first {
						rs = []recDesc{rs[1], rs[0], rs[2]}
					}
					run(fmt.Sprintf("SYSCALL(execve) + EXECVE argc=%d with a%d in %d pieces (EXECVE first: %v)", argc, pieced, np, first), rs)
				}
			}
		}
	}
	c.Sample("CONFIG_CHANGE op=add_rule res=0 + SYSCALL(sendto) success=yes => both outcomes are in the event")
}

// (l) values of different fields / records that are RELATED the way real ones are (unique tags never are): the process
// title a prefix of the EXECVE arguments joined by blanks (the kernel cuts titles), comm the first 1..16 bytes of the
// executable's file name (the kernel cuts comm at 15), a PATH name equal to / below / relative to the cwd, exe equal to a
// PATH name: every record's value is still in the event as the record gave it.
func c09Relations(c *enumx.Ctx) {
	run := func(desc string, rs []recDesc) {
		c.Begin(func() string { return desc })
		c.Try(tryProp(), func() {
			msgs, ok := parseAll(c, rs)
			if !ok {
				return
			}
			ev, err := coalesce(c, msgs)
			if oracleC15 {
				return
			}
			if err != nil || ev == nil {
				c.Report("C09 coalesce-error", fmt.Sprintf("%s: (%v, %v)", desc, ev, err), nil)
				return
			}
			a := identity(c, "C09", msgs[0], ev, desc)
			b := containment(c, "C09", rs, ev, desc)
			if a && b {
				c.Nontrivial()
			}
		})
	}
	sysRec := func(t *tagger, nr int, comm, exe string) recDesc {
		return recDesc{"SYSCALL", fmt.Sprintf("arch=c000003e syscall=%d success=yes exit=0 a0=%s a1=%s a2=%s a3=%s items=2 ppid=%s pid=%s auid=%s uid=%s gid=%s euid=%s suid=%s fsuid=%s egid=%s sgid=%s fsgid=%s tty=pts0 ses=%s comm=\"%s\" exe=\"%s\" subj=%s:%s:%s:s0 key=\"%s\"",
			nr, t.v(), t.v(), t.v(), t.v(), t.v(), t.v(), t.v(), t.v(), t.v(), t.v(), t.v(), t.v(), t.v(), t.v(), t.v(), t.v(), comm, exe, t.v(), t.v(), t.v(), t.v())}
	}
	// comm vs exe
	base := "systemd-journald-helper-x"
	for n := 1; n <= len(base); n++ {
		for _, dir := range []string{"/usr/lib/systemd/", "/", "/opt/a b/"} {
			for _, single := range []bool{false, true} {
				if !c.Mine() {
					continue
				}
				if strings.Contains(dir, " ") {
					continue // a quoted exe cannot hold a blank; the hex form is covered by c09-names
				}
				t := &tagger{numeric: n%2 == 1}
				sc := sysRec(t, 2, base[:n], dir+base)
				rs := []recDesc{sc, {"CWD", "cwd=\"/" + t.v() + "\""}}
				if single {
					rs = rs[:1]
				}
				run(fmt.Sprintf("comm = the first %d bytes of the executable's file name %q (single record: %v)", n, dir+base, single), rs)
			}
		}
	}
	// proctitle vs EXECVE arguments
	args := []string{"/usr/bin/python3", "-m", "http.server", "--bind", "127.0.0.1"}
	joined := strings.Join(args, " ")
	var titles []string
	for k := 1; k <= len(joined); k++ {
		titles = append(titles, joined[:k])
	}
	titles = append(titles, joined+" 8080", "python3", strings.Join(args, "\x00"), strings.Join(args[:3], "\x00"))
	for ti, title := range titles {
		for _, order := range []int{0, 1, 2} {
			if !c.Mine() {
				continue
			}
			t := &tagger{}
			sc := sysRec(t, 59, "python3", "/usr/bin/python3")
			ex := "argc=" + strconv.Itoa(len(args))
			for i, a := range args {
				ex += fmt.Sprintf(" a%d=\"%s\"", i, a)
			}
			pt := recDesc{"PROCTITLE", "proctitle=" + strings.ToUpper(hex.EncodeToString([]byte(title)))}
			if !strings.ContainsAny(title, " \x00") {
				pt = recDesc{"PROCTITLE", "proctitle=\"" + title + "\""}
			}
			rs := []recDesc{sc, {"EXECVE", ex}, pt}
			switch order {
			case 1:
				rs = []recDesc{sc, pt, {"EXECVE", ex}}
			case 2:
				rs = []recDesc{pt, sc, {"EXECVE", ex}}
			}
			run(fmt.Sprintf("EXECVE %q with process title %q (title %d, record order %d)", joined, title, ti, order), rs)
		}
	}
	// one record's value is the upper-case hex spelling of another record's value for the same key (both are values)
	for _, key := range []string{"comm", "exe", "key", "xk"} {
		for _, v := range []string{"ab", "/bin/ls", "k1"} {
			for _, auxType := range []string{"OBJ_PID", "MQ_NOTIFY", "CWD", "BPRM_FCAPS"} {
				for _, hexFirst := range []bool{false, true} {
					if !c.Mine() {
						continue
					}
					t := &tagger{}
					hx := strings.ToUpper(hex.EncodeToString([]byte(v)))
					plain, coded := v, hx
					if hexFirst {
						plain, coded = hx, v
					}
					comm, exe := "tool", "/usr/bin/tool"
					extra := ""
					switch key {
					case "comm":
						comm = plain
					case "exe":
						exe = plain
					default:
						extra = " " + key + "=" + plain
					}
					if strings.ContainsAny(comm+exe, " \"") {
						continue
					}
					sc := sysRec(t, 62, comm, exe)
					sc.Body += extra
					aux := recDesc{auxType, fmt.Sprintf("opid=%s %s=%s xq=%s", t.v(), key, coded, t.v())}
					for _, auxFirst := range []bool{false, true} {
						rs := []recDesc{sc, aux}
						if auxFirst {
							rs = []recDesc{aux, sc}
						}
						run(fmt.Sprintf("SYSCALL %s=%q and a %s record with %s=%q (one is the hex spelling of the other; aux first: %v)", key, plain, auxType, key, coded, auxFirst), rs)
					}
				}
			}
		}
	}
	// PATH names vs cwd vs exe
	for _, rel := range [][3]string{{"/srv/app", "/srv/app/data.db", "/srv/app/bin/tool"}, {"/srv/app", "data.db", "/srv/app/data.db"}, {"/srv/app", "/srv/app", "/srv/app"}, {"/", "/vmlinuz", "/vmlinuz"}, {"/srv/app", "../app/x", "/srv/app/../app/x"}, {"/srv/app", "/srv/application", "/srv/app2"}} {
		for _, nr := range []int{2, 59, 87} {
			if !c.Mine() {
				continue
			}
			t := &tagger{numeric: true}
			sc := sysRec(t, nr, "tool", rel[2])
			rs := []recDesc{sc, {"CWD", "cwd=\"" + rel[0] + "\""}, {"PATH", fmt.Sprintf("item=0 name=\"%s\" inode=%s dev=fd:00 mode=0100644 ouid=%s ogid=%s rdev=00:00 nametype=NORMAL", rel[1], t.v(), t.v(), t.v())}, {"PATH", fmt.Sprintf("item=1 name=\"%s\" inode=%s dev=fd:00 mode=0100755 ouid=%s ogid=%s rdev=00:00 nametype=NORMAL", rel[2], t.v(), t.v(), t.v())}}
			run(fmt.Sprintf("cwd %q, PATH names %q and %q, exe %q, syscall %d", rel[0], rel[1], rel[2], rel[2], nr), rs)
		}
	}
	c.Sample("comm=\"systemd-journal\" exe=\"/usr/lib/systemd/systemd-journald-helper-x\" => comm's own value is in the event")
}

// (h) a SYSCALL record that LACKS one of its usual fields while another record of the event carries a field of
// that name (with its own value), and path-shaped values that a "cleaning" step would alter (trailing and
// doubled slashes, dot components) for cwd / name / exe.
func c09Missing(c *enumx.Ctx) {
	fields := []string{"arch", "syscall", "success", "exit", "a0", "a1", "a2", "a3", "items", "ppid", "pid", "auid", "uid", "gid", "euid", "suid", "fsuid", "egid", "sgid", "fsgid", "tty", "ses", "comm", "exe", "subj", "key"}
	for fi, drop := range fields {
		for _, auxType := range []string{"MQ_NOTIFY", "CWD", "OBJ_PID", "UNKNOWN[1399]"} {
			for _, auxFirst := range []bool{false, true} {
				if !c.Mine() {
					continue
				}
				t := &tagger{numeric: fi%2 == 1}
				full := syscallRec(t, 2, "")
				var kept []string
				for _, kv := range strings.Fields(full.Body) {
					if !strings.HasPrefix(kv, drop+"=") {
						kept = append(kept, kv)
					}
				}
				sc := recDesc{"SYSCALL", strings.Join(kept, " ")}
				if drop == "arch" || drop == "syscall" || drop == "items" {
					// without arch / syscall the record cannot be interpreted at all; a SYSCALL record without items= is
					// not something a kernel writes (outside "well-formed"), and the item count is the one field that is
					// dropped on purpose whenever the SYSCALL record is merged
					continue
				}
				aux := recDesc{auxType, drop + "=" + t.v() + " xq=" + t.v()}
				rs := []recDesc{sc, aux}
				if auxFirst {
					rs = []recDesc{aux, sc}
				}
				desc := fmt.Sprintf("SYSCALL without %s= and a %s record carrying %s= (aux first: %v)", drop, auxType, drop, auxFirst)
				c.Begin(func() string { return desc })
				c.Try(tryProp(), func() {
					msgs, ok := parseAll(c, rs)
					if !ok {
						return
					}
					ev, err := coalesce(c, msgs)
					if oracleC15 {
						return
					}
					if err != nil || ev == nil {
						c.Report("C09 coalesce-error", fmt.Sprintf("%s: (%v, %v)", desc, ev, err), nil)
						return
					}
					if identity(c, "C09", msgs[0], ev, desc) && containment(c, "C09", rs, ev, desc) {
						c.Nontrivial()
					}
				})
			}
		}
	}
	shapes := []string{"/", "//", "/a/", "/a//b", "/a/./b", "/a/../b", "/a/b/.", "/a/b/..", ".", "..", "./a", "a/", "", "/a/b/", "///a", "/a/b//"}
	for _, sh := range shapes {
		for _, where := range []string{"cwd", "name", "exe"} {
			for _, hexed := range []bool{false, true} {
				if !c.Mine() {
					continue
				}
				t := &tagger{}
				val := sh
				if sh != "" && sh != "/" && sh != "." && sh != ".." && sh != "//" {
					val = strings.Replace(sh, "a", "d"+t.v(), 1)
				}
				enc := "\"" + val + "\""
				if hexed || val == "" {
					enc = strings.ToUpper(hex.EncodeToString([]byte(val + " x")))
					val = val + " x"
				}
				sc := syscallRec(t, 2, "")
				cw := recDesc{"CWD", "cwd=\"/c/" + t.v() + "\""}
				p := pathRec(t, 0, "NORMAL", "0100644", "ino"+t.v())
				switch where {
				case "cwd":
					cw = recDesc{"CWD", "cwd=" + enc}
				case "name":
					p.Body = strings.Replace(p.Body, "name=\"/p/", "name="+enc+" oldname=\"/p/", 1)
				case "exe":
					sc.Body = strings.Replace(sc.Body, "exe=\"/bin/", "exe="+enc+" oexe=\"/bin/", 1)
				}
				rs := []recDesc{sc, cw, p}
				desc := fmt.Sprintf("open event whose %s is %q", where, val)
				c.Begin(func() string { return desc })
				c.Try(tryProp(), func() {
					msgs, ok := parseAll(c, rs)
					if !ok {
						return
					}
					ev, err := coalesce(c, msgs)
					if oracleC15 {
						return
					}
					if err != nil || ev == nil {
						c.Report("C09 coalesce-error", fmt.Sprintf("%s: (%v, %v)", desc, ev, err), nil)
						return
					}
					if identity(c, "C09", msgs[0], ev, desc) && containment(c, "C09", rs, ev, desc) {
						c.Nontrivial()
					}
				})
			}
		}
	}
}

// (i) records whose header time is an edge (the zero time 0001-01-01, the epoch, negative, far future) and
// messages assembled BY HAND (no time at all, no text): the event's identity is the first record's - whatever
// it is - and nothing is taken from the clock.
func c09Times(c *enumx.Ctx) {
	secs := []string{"-62135596800", "-62135596801", "0", "-1", "1", "2147483647", "2147483648", "4294967296", "253402300799", "253402300800", "9223372036"}
	for _, s := range secs {
		for _, ms := range []string{"000", "001", "999"} {
			for _, typ := range []string{"USER_LOGIN", "SYSCALL", "UNKNOWN[1999]"} {
				if !c.Mine() {
					continue
				}
				t := &tagger{}
				body := "pid=" + t.v() + " uid=0 auid=1000 ses=1 msg='op=login acct=\"" + t.v() + "\" exe=\"/x\" hostname=h addr=1.2.3.4 terminal=t res=success'"
				if typ == "SYSCALL" {
					body = syscallRec(t, 39, "").Body
				}
				line := "type=" + typ + " msg=audit(" + s + "." + ms + ":77): " + body
				desc := "single " + typ + " record stamped " + s + "." + ms
				c.Begin(func() string { return line })
				c.Try(tryProp(), func() {
					m, err := auparse.ParseLogLine(line)
					if err != nil {
						return // the parser's business
					}
					msgs := []*auparse.AuditMessage{m}
					ev, err := coalesce(c, msgs)
					if oracleC15 {
						return
					}
					if err != nil || ev == nil {
						c.Report("C09 single-record-error", fmt.Sprintf("%s: (%v, %v)", desc, ev, err), nil)
						return
					}
					if identity(c, "C09", m, ev, desc) {
						c.Nontrivial()
					}
					// the same record RE-STAMPED by its holder with a finer instant than a log line can spell (a message built
					// from another source, a clock with nanoseconds): the event's instant is the first record's, digit for digit
					for _, d := range []time.Duration{1, 999, 1000, 500 * time.Microsecond, 999999, 11234567 % 1000000} {
						m2, err := auparse.ParseLogLine(line)
						if err != nil {
							return
						}
						m2.Timestamp = m2.Timestamp.Add(d)
						ev2, err := aucoalesce.CoalesceMessages([]*auparse.AuditMessage{m2})
						if err != nil || ev2 == nil {
							continue
						}
						if !identity(c, "C09", m2, ev2, desc+fmt.Sprintf(" re-stamped %v later", d)) {
							return
						}
					}
				})
			}
		}
	}
	// by hand
	for typ := 1100; typ < 1400; typ += 7 {
		for _, withRaw := range []bool{false, true} {
			if !c.Mine() {
				continue
			}
			m := &auparse.AuditMessage{RecordType: auparse.AuditMessageType(typ), Sequence: uint32(typ)}
			if withRaw {
				m.RawData = "audit(1700000000.123:5): pid=1 uid=0 res=success"
			}
			desc := fmt.Sprintf("hand-made message of type %d (zero time, raw text: %v)", typ, withRaw)
			c.Begin(func() string { return desc })
			c.Try(tryProp(), func() {
				ev, err := coalesce(c, []*auparse.AuditMessage{m})
				if oracleC15 {
					return
				}
				if err != nil || ev == nil {
					return // refusing such a message is fine
				}
				if identity(c, "C09", m, ev, desc) {
					c.Nontrivial()
				}
			})
		}
	}
}

func init() {
	gens["c09-times"] = c09Times
	gens["c09-outcomes"] = c09Outcomes
	gens["c09-relations"] = c09Relations
	gens["c09-missing"] = c09Missing
	for _, g := range []string{"c09-times", "c09-missing", "c09-modes", "c09-groups", "c09-singles", "c09-repeats", "c09-names", "c09-syscalls", "c09-outcomes", "c09-relations"} {
		g := g
		gens["c15:"+g] = func(c *enumx.Ctx) {
			oracleC15 = true
			gens[g](c)
		}
	}
	gens["c09-syscalls"] = c09Syscalls
	gens["c09-repeats"] = c09Repeats
	gens["c09-names"] = c09Names
	gens["c09-modes"] = c09Modes
	gens["c09-groups"] = c09Groups
	gens["c09-singles"] = c09Singles
}
