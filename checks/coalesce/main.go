// Command coalesce decides C09 (bounded-exhaustive input enumeration with
// tagged values) and C15 (explicit-state search over call histories +
// schedule exploration + race pass) for package aucoalesce (DESIGN.md §5).
package main

import (
	"encoding/json"
	"flag"
	"fmt"
	"os"
	"os/exec"
	"strings"

	"verif/engine/enumx"
	"verif/engine/ev"
	"verif/engine/par"
)

var gens = map[string]enumx.Generator{}

func main() {
	if os.Getenv("VERIF_RACE") != "" {
		c15RaceMain()
		return
	}
	if par.IsWorker() && par.WorkerKind() == "c15sweep" {
		var j c15SweepJob
		par.WorkerMain(&j, func() interface{} { return c15SweepWorker(j) })
	}
	if par.IsWorker() && par.WorkerKind() == "c15" {
		var j c15Job
		par.WorkerMain(&j, func() interface{} { return c15Worker(j) })
	}
	enumx.WorkerMain(gens)
	prop := flag.String("prop", "", "property id")
	tier := flag.String("tier", "quick", "quick|thorough")
	replayF := flag.String("replay", "", "replay a violation file")
	raceBin := flag.String("racebin", "", "-race build")
	flag.Parse()
	if *replayF != "" {
		os.Exit(doReplay(*replayF))
	}
	switch *prop {
	case "C09":
		run := ev.Begin("C09", *tier, "exploration")
		enumx.Run(run, "C09", []string{"c09-modes", "c09-groups", "c09-singles", "c09-repeats", "c09-names", "c09-syscalls", "c09-missing", "c09-times", "c09-outcomes", "c09-relations", "c09-paths", "c09-equalcounts"}, *tier, 16, true)
		run.Set("rule", "records rendered from structured descriptions in which every free value is a unique tag: (a) all 65536 st_mode values on the PATH record selected for an open event; (b) every order of every subset of <=3 (quick) / <=4 (thorough) records from {CWD, PATH, PATH(PARENT), EXECVE, SOCKADDR, PROCTITLE, AVC, BPRM_FCAPS} with the SYSCALL at every position x 6 syscalls x {no collision, colliding key pid, colliding key foo} x {with, without EOE}; (c) every record type as a single user-space style record; (d) error-side groups. Oracle: identity from the first record; every (k,v) of every record's own Data() (separate parse) is a leaf of the JSON-flattened event or a warning names k (only SYSCALL items may vanish); File block mirrors the selected PATH; object type agrees with S_IFMT. non-trivial = event that passed every clause")
		run.Set("exhaustive", true)
		run.Assume("tagged values make containment exact; format-constrained short values (0, 2, yes) can coincide with other leaves, which only weakens detection, never raises an alarm")
		os.Exit(run.Finish())
	case "C15":
		os.Exit(checkC15(*tier, *raceBin))
	}
	fmt.Println("ERROR unknown property", *prop)
	os.Exit(2)
}

func raceRun(run *ev.Run, raceBin, prop string, arg interface{}) {
	in, _ := json.Marshal(arg)
	cmd := exec.Command(raceBin)
	cmd.Env = append(os.Environ(), "VERIF_RACE=1", "GORACE=halt_on_error=0")
	cmd.Stdin = strings.NewReader(string(in))
	out, err := cmd.CombinedOutput()
	s := string(out)
	if i := strings.Index(s, "WARNING: DATA RACE"); i >= 0 {
		e := s[i:]
		if len(e) > 3000 {
			e = e[:3000]
		}
		run.Report(ev.Violation{Sig: prop + " data-race", What: "race detector report in the free-running pass:\n" + e, Replay: "free-running -race pass"})
	} else if strings.Contains(s, "RACE-PASS-HANG") {
		run.Errorf("free-running pass hung")
	} else if err != nil {
		run.Errorf("race pass failed: %v: %s", err, s)
	}
	var rr struct{ Iterations int64 }
	if i := strings.LastIndex(s, "{\"iterations\""); i >= 0 {
		_ = json.Unmarshal([]byte(strings.TrimSpace(s[i:])), &rr)
	}
	run.Set("race_pass_iterations_sampled", rr.Iterations)
}

func doReplay(path string) int {
	b, err := os.ReadFile(path)
	if err != nil {
		fmt.Println("ERROR", err)
		return 2
	}
	var doc struct {
		Property string
		Cases    []struct {
			What   string
			Replay json.RawMessage
		}
	}
	_ = json.Unmarshal(b, &doc)
	bad := 0
	for _, c := range doc.Cases {
		var rp struct{ History []c15Op }
		if json.Unmarshal(c.Replay, &rp) == nil && len(rp.History) > 0 {
			v, o := runC15History(rp.History)
			fmt.Println("history:", rp.History, "=>", o)
			for _, x := range v {
				fmt.Println("  ", x.Sig, "::", x.What)
				bad++
			}
			continue
		}
		fmt.Printf("case: %s\nwas: %s\n", string(c.Replay), c.What)
		bad++
	}
	if bad > 0 {
		fmt.Printf("VIOLATION property=%s replay=%s\n", doc.Property, path)
		return 1
	}
	return 0
}
