package main

import (
	"fmt"
	"strings"

	"verif/engine/enumx"
)

// (p) what PATH records carry and how two of them relate.
//
//  1. every SUBSET of the keys a kernel writes into a PATH record (1024 subsets), as the only PATH of an open, an
//     execve and an unlink event: a record that lacks the keys some step assumes (no name, no inode, only a label ...)
//  2. PAIRS of PATH records whose inode / dev / name are equal or different in every combination (the same object
//     described twice: as the parent and as the object itself, as the old and the new name) x every pair of name types
//
// Oracle: C15 (no panic, inputs intact, repeatable: coalesce()); for C09 identity and containment of every record.
func c09Paths(c *enumx.Ctx) {
	keys := []string{"name", "inode", "dev", "mode", "ouid", "ogid", "rdev", "obj", "nametype", "cap_fp"}
	run := func(desc string, recs []recDesc) {
		c.Begin(func() string { return desc })
		c.Try(tryProp(), func() {
			msgs, ok := parseAll(c, recs)
			if !ok {
				return
			}
			ev, err := coalesce(c, msgs)
			if oracleC15 {
				return
			}
			if err != nil || ev == nil {
				c.Report("C09 coalesce-error", fmt.Sprintf("%s: (%v, %v)", desc, ev, err), nil)
				return
			}
			if identity(c, "C09", msgs[0], ev, desc) && containment(c, "C09", recs, ev, desc) {
				c.Nontrivial()
			}
		})
	}
	for sub := 0; sub < 1<<len(keys); sub++ {
		for _, nr := range []int{2, 59, 87} {
			if !c.Mine() {
				continue
			}
			t := &tagger{numeric: sub%2 == 1}
			kv := []string{"item=0"}
			var have []string
			for i, k := range keys {
				if sub&(1<<i) == 0 {
					continue
				}
				have = append(have, k)
				switch k {
				case "name":
					kv = append(kv, "name=\"/p/"+t.v()+"\"")
				case "mode":
					kv = append(kv, "mode=0100644")
				case "obj":
					kv = append(kv, fmt.Sprintf("obj=%s:%s:%s:s0", t.v(), t.v(), t.v()))
				case "nametype":
					kv = append(kv, "nametype=NORMAL")
				default:
					kv = append(kv, k+"="+t.v())
				}
			}
			sc := syscallRec(t, nr, "")
			sc.Body = strings.Replace(sc.Body, "items=2", "items=1", 1)
			run(fmt.Sprintf("syscall %d event whose only PATH record carries exactly the keys %v", nr, have),
				[]recDesc{sc, {"CWD", "cwd=\"/c\""}, {"PATH", strings.Join(kv, " ")}})
		}
	}
	nts := []string{"PARENT", "CREATE", "NORMAL", "DELETE", "UNKNOWN"}
	for rel := 0; rel < 8; rel++ {
		for _, nt0 := range nts {
			for _, nt1 := range nts {
				for _, nr := range []int{2, 82, 87} {
					if !c.Mine() {
						continue
					}
					t := &tagger{numeric: true}
					val := func(bit int, first string) string {
						if rel&bit != 0 {
							return first
						}
						return t.v()
					}
					ino, dev, name := t.v(), t.v(), t.v()
					p0 := recDesc{"PATH", fmt.Sprintf("item=0 name=\"/p/%s\" inode=%s dev=%s mode=0100644 ouid=%s ogid=%s rdev=%s nametype=%s", name, ino, dev, t.v(), t.v(), t.v(), nt0)}
					p1 := recDesc{"PATH", fmt.Sprintf("item=1 name=\"/p/%s\" inode=%s dev=%s mode=0100644 ouid=%s ogid=%s rdev=%s nametype=%s", val(4, name), val(1, ino), val(2, dev), t.v(), t.v(), t.v(), nt1)}
					run(fmt.Sprintf("syscall %d event with two PATH records (%s, %s) sharing inode:%v dev:%v name:%v", nr, nt0, nt1, rel&1 != 0, rel&2 != 0, rel&4 != 0),
						[]recDesc{syscallRec(t, nr, ""), {"CWD", "cwd=\"/c\""}, p0, p1})
				}
			}
		}
	}
	c.Sample("open + CWD + PATH{obj,nametype only}; rename + two PATH records with the same inode/dev/name as PARENT and CREATE")
}

func init() {
	gens["c09-paths"] = c09Paths
	gens["c15:c09-paths"] = func(c *enumx.Ctx) {
		oracleC15 = true
		c09Paths(c)
	}
}

// (q) an auxiliary record that REPEATS k-1 fields of the SYSCALL record verbatim (same keys, same values - what a kernel
// does for pid / uid / comm in AVC, OBJ_PID, ANOM records) and carries ONE field of its own, for every k = 2 .. 27 and
// three record types: whatever the amounts of fields on the two sides are, and however many of them agree, the one new
// field is in the event.  Sixteen repetitions (coalesce() under the C15 oracle repeats, too): decisions taken on the
// first key a map iteration yields differ from call to call.
func c09EqualCounts(c *enumx.Ctx) {
	for k := 2; k <= 27; k++ {
		for _, auxType := range []string{"MQ_NOTIFY", "OBJ_PID", "UNKNOWN[1399]"} {
			for _, start := range []int{0, 5} {
				if !c.Mine() {
					continue
				}
				t := &tagger{numeric: true}
				sc := syscallRec(t, 2, "")
				sc.Body = strings.Replace(sc.Body, "items=2", "items=0", 1)
				var shared []string
				for _, kv := range strings.Fields(sc.Body) {
					if strings.HasPrefix(kv, "arch=") || strings.HasPrefix(kv, "syscall=") || strings.HasPrefix(kv, "items=") {
						continue
					}
					shared = append(shared, kv)
				}
				if start+k-1 > len(shared) {
					continue
				}
				own := "xq=" + t.v()
				aux := recDesc{auxType, strings.Join(append(append([]string{}, shared[start:start+k-1]...), own), " ")}
				recs := []recDesc{sc, aux}
				desc := fmt.Sprintf("SYSCALL + %s record repeating %d of its fields verbatim (from field %d) plus one field of its own", auxType, k-1, start)
				c.Begin(func() string { return desc })
				c.Try(tryProp(), func() {
					for rep := 0; rep < 16; rep++ {
						msgs, ok := parseAll(c, recs)
						if !ok {
							return
						}
						ev, err := coalesce(c, msgs)
						if oracleC15 {
							return
						}
						if err != nil || ev == nil {
							c.Report("C09 coalesce-error", fmt.Sprintf("%s: (%v, %v)", desc, ev, err), nil)
							return
						}
						if !identity(c, "C09", msgs[0], ev, desc) || !containment(c, "C09", recs, ev, desc) {
							return
						}
					}
					c.Nontrivial()
				})
			}
		}
	}
	c.Sample("SYSCALL + OBJ_PID{pid=<same> uid=<same> ... xq=<new>}: xq is in the event whatever the field counts are")
}

func init() {
	gens["c09-equalcounts"] = c09EqualCounts
	gens["c15:c09-equalcounts"] = func(c *enumx.Ctx) {
		oracleC15 = true
		c09EqualCounts(c)
	}
}
