// Command conc decides C11 (Reassembler under concurrent Push/Maintain/Close)
// by exhaustive schedule exploration of the real, instrumented Reassembler
// under the controlled scheduler, plus a separate free-running -race pass
// over the same driver bodies (DESIGN.md §3.2, §5 C11).
package main

import (
	"reflect"
	"unsafe"

	"encoding/json"
	"errors"
	"flag"
	"fmt"
	"os"
	"os/exec"
	"path/filepath"
	"sort"
	"strings"
	"sync"
	"sync/atomic"
	"time"

	libaudit "github.com/elastic/go-libaudit/v2"
	"github.com/elastic/go-libaudit/v2/auparse"
	"github.com/elastic/go-libaudit/v2/vshim/sched"
	"github.com/elastic/go-libaudit/v2/vshim/vsync"
	"github.com/elastic/go-libaudit/v2/vshim/vtime"

	"verif/engine/ev"
	"verif/engine/explore"
	"verif/engine/harvest"
	"verif/engine/par"
)

const (
	seqA = 5
	seqB = 7
	seqC = 6
)

var opNames = []string{"PushAmid", "PushAfin", "PushBmid", "PushAeoe", "Maintain", "Close", "TickMaintain", "PushAmidTs", "PushAraw", "PushOwn", "PushOwn2", "PushHiMid", "PushLoMid"}

const (
	oPushAmid = iota
	oPushAfin
	oPushBmid
	oPushAeoe
	oMaintain
	oClose
	oTickMaintain // let the (virtual) timeout of everything buffered elapse, then Maintain
	oPushAmidTs   // a record of event A whose kernel timestamp is decades away from the other records' (the key is the sequence)
	oPushAraw     // Push(type, bytes) with a caller buffer that is overwritten as soon as Push has returned
	oPushOwn      // a record opening the thread's OWN sequence (100 + 2*thread index)
	oPushOwn2     // a second record of the thread's own sequence
	oPushHiMid    // a record opening a sequence ABOVE A, B and C (9)
	oPushLoMid    // a record opening a sequence BELOW A, B and C (3)
)

// Program is one driver program: per thread a list of op codes.
type Program struct {
	Threads     [][]int
	MaxInFlight int
	Stream      int // 0 passive, 1 RC->Maintain, 2 RC->Push fresh, 3 EventsLost->Maintain, 4 RC->Close
	Timeout     int // 0: effectively infinite; n: n ticks (programs with TickMaintain)
	// PileUp: not the schedule tree but the pile-up schedules (every thread driven to the same
	// scheduling point, for every point, then released in three orders): k-way pile-ups for k threads
	PileUp bool
	// CloserStream: the Stream also has Close/Flush/Sync methods that fail (sinks often do)
	CloserStream bool
	// Wrap: the three sequence numbers straddle the 2^32 roll-over (A = 1, B = 2^32-2, C = 0): B is the OLDEST
	Wrap bool
	// LockerStream: the Stream embeds a mutex (it is a sync.Locker) and holds it inside its callbacks
	LockerStream bool
	// PanicOnce: the first Stream callback panics; the caller of the API recovers and goes on using the object
	PanicOnce bool
	// Pre: operations performed one after another BEFORE the threads start - the schedules are explored from a
	// non-initial state (events already buffered whose pushes returned long before anything races)
	Pre []int
}

func (p Program) String() string {
	var ts []string
	for _, t := range p.Threads {
		var os []string
		for _, o := range t {
			os = append(os, opNames[o])
		}
		ts = append(ts, strings.Join(os, ";"))
	}
	x := ""
	if p.PileUp {
		x += " pile-up-schedules"
	}
	if p.CloserStream {
		x += " stream-with-failing-Close"
	}
	if p.Wrap {
		x += " sequences-straddle-2^32"
	}
	if p.LockerStream {
		x += " stream-is-a-sync.Locker"
	}
	if p.PanicOnce {
		x += " first-callback-panics(recovered)"
	}
	if len(p.Pre) > 0 {
		var os []string
		for _, o := range p.Pre {
			os = append(os, opNames[o])
		}
		x += " before-the-threads-start=[" + strings.Join(os, ";") + "]"
	}
	return fmt.Sprintf("maxInFlight=%d stream=%d timeout=%d%s threads=[%s]", p.MaxInFlight, p.Stream, p.Timeout, x, strings.Join(ts, " | "))
}

type pushed struct {
	msg       *auparse.AuditMessage
	tag       string // raw pushes: unique text inside the pushed bytes
	invoke    int
	ret       int
	delivered int
	eoe       bool
}

type callRec struct {
	op     int
	invoke int
	ret    int
	err    error
}

// harness is one execution of one program.
type harness struct {
	p         Program
	r         *libaudit.Reassembler
	mu        sync.Mutex // protects the harness's own bookkeeping in the free-running race pass
	clk       int
	msgs      []*pushed
	byPtr     map[*auparse.AuditMessage]*pushed
	calls     []*callRec
	log       []string
	reentered bool
	panicked  bool
	recovered int // stamp at which the caller recovered from the sink's panic (0: not yet)
	viol      []explore.Finding
	free      bool // free-running (race pass): no scheduler
}

func (h *harness) stamp() int {
	h.clk++
	return h.clk
}

func (h *harness) fail(sig, format string, a ...interface{}) {
	h.viol = append(h.viol, explore.Finding{Sig: sig, What: fmt.Sprintf(format, a...)})
}

func tid() int {
	if t := sched.Cur(); t != nil {
		return t.ID
	}
	return -1
}

func (h *harness) ReassemblyComplete(msgs []*auparse.AuditMessage) {
	sched.Yield("cb-complete")
	h.mu.Lock()
	if h.p.PanicOnce && !h.panicked {
		h.panicked = true
		h.mu.Unlock()
		panic("sink failed once")
	}
	if len(msgs) == 0 {
		h.fail("empty-callback", "ReassemblyComplete with no messages")
		h.mu.Unlock()
		return
	}
	s := msgs[0].Sequence
	for _, m := range msgs {
		if m.Sequence != s {
			h.fail("mixed-sequences", "callback mixes sequences %d and %d", s, m.Sequence)
		}
		p := h.byPtr[m]
		if p == nil {
			// pushed as bytes: identified by the unique tag in its text
			for _, q := range h.msgs {
				if q.tag != "" && strings.Contains(m.RawData, q.tag) {
					p = q
					break
				}
			}
		}
		if p == nil {
			h.fail("unknown-message", "delivered a message that was never pushed (seq %d type %d raw %q)", m.Sequence, m.RecordType, m.RawData)
			continue
		}
		if p.eoe {
			h.fail("eoe-delivered", "EOE record delivered")
		}
		p.delivered++
		if p.delivered > 1 {
			h.fail("delivered-twice", "message seq %d type %d delivered %d times", m.Sequence, m.RecordType, p.delivered)
		}
	}
	h.log = append(h.log, fmt.Sprintf("t%d:RC(%d,n=%d)", tid(), s, len(msgs)))
	re := !h.reentered && (h.p.Stream == 1 || h.p.Stream == 2 || h.p.Stream == 4)
	if re {
		h.reentered = true
	}
	h.mu.Unlock()
	if re {
		switch h.p.Stream {
		case 1:
			h.do(oMaintain, true)
		case 2:
			h.push(seqC, 1300, true)
		case 4:
			h.do(oClose, true)
		}
	}
}

func (h *harness) EventsLost(n int) {
	sched.Yield("cb-lost")
	h.mu.Lock()
	h.log = append(h.log, fmt.Sprintf("t%d:Lost(%d)", tid(), n))
	re := !h.reentered && h.p.Stream == 3
	if re {
		h.reentered = true
	}
	h.mu.Unlock()
	if re {
		h.do(oMaintain, true)
	}
}

func (h *harness) push(seq uint32, typ uint16, nested bool) {
	h.pushTs(seq, typ, nested, time.Time{})
}

func (h *harness) pushTs(seq uint32, typ uint16, nested bool, ts time.Time) {
	if h.p.Wrap {
		switch seq {
		case seqA:
			seq = 1
		case seqB:
			seq = 1<<32 - 2
		case seqC:
			seq = 0
		}
	}
	m := &auparse.AuditMessage{RecordType: auparse.AuditMessageType(typ), Sequence: seq, Timestamp: ts}
	if !nested {
		sched.Yield("call-push")
	}
	h.mu.Lock()
	p := &pushed{msg: m, eoe: typ == 1320}
	p.invoke = h.stamp()
	h.msgs = append(h.msgs, p)
	h.byPtr[m] = p
	h.mu.Unlock()
	h.guard(func() { h.r.PushMessage(m) })
	h.mu.Lock()
	p.ret = h.stamp()
	h.mu.Unlock()
}

// guard runs an API call; with PanicOnce the caller recovers from the sink's panic and carries on.
func (h *harness) guard(f func()) {
	if !h.p.PanicOnce {
		f()
		return
	}
	defer func() {
		if r := recover(); r != nil {
			if r != "sink failed once" {
				panic(r)
			}
			h.mu.Lock()
			h.recovered = h.stamp()
			h.mu.Unlock()
		}
	}()
	f()
}

// pushRaw hands the Reassembler BYTES, then overwrites them: Push documents that it copies.
func (h *harness) pushRaw(seq uint32, typ uint16, nested bool) {
	if !nested {
		sched.Yield("call-pushraw")
	}
	h.mu.Lock()
	p := &pushed{}
	p.invoke = h.stamp()
	p.tag = fmt.Sprintf("tag=<%d>", p.invoke)
	h.msgs = append(h.msgs, p)
	h.mu.Unlock()
	buf := []byte(fmt.Sprintf("audit(1700000000.123:%d): %s a=b", seq, p.tag))
	err := h.r.Push(auparse.AuditMessageType(typ), buf)
	for i := range buf {
		buf[i] = 'Z'
	}
	h.mu.Lock()
	p.ret = h.stamp()
	if err != nil {
		h.fail("push-error", "Push returned %v", err)
	}
	h.mu.Unlock()
}

func (h *harness) do(op int, nested bool) { h.doT(0, op, nested) }

func (h *harness) doT(ti int, op int, nested bool) {
	switch op {
	case oPushOwn, oPushOwn2:
		h.push(uint32(100+2*ti), 1300, nested)
	case oPushHiMid:
		h.push(9, 1300, nested)
	case oPushLoMid:
		h.push(3, 1300, nested)
	case oPushAmidTs:
		h.pushTs(seqA, 1300, nested, time.Unix(1700000077, 0).UTC())
	case oPushAraw:
		h.pushRaw(seqA, 1300, nested)
	case oPushAmid:
		h.push(seqA, 1300, nested)
	case oPushAfin:
		h.push(seqA, 1327, nested)
	case oPushBmid:
		h.push(seqB, 1300, nested)
	case oPushAeoe:
		h.push(seqA, 1320, nested)
	case oTickMaintain:
		if !nested {
			sched.Yield("call-tick")
		}
		if c := vtime.Installed(); c != nil {
			c.Advance(5 * time.Millisecond)
		}
		h.do(oMaintain, true)
	case oMaintain, oClose:
		if !nested {
			sched.Yield("call-" + opNames[op])
		}
		h.mu.Lock()
		c := &callRec{op: op, invoke: h.stamp()}
		h.calls = append(h.calls, c)
		h.mu.Unlock()
		var err error
		h.guard(func() {
			if op == oMaintain {
				err = h.r.Maintain()
			} else {
				err = h.r.Close()
			}
		})
		h.mu.Lock()
		c.err = err
		c.ret = h.stamp()
		h.log = append(h.log, fmt.Sprintf("t%d:%s=%v", tid(), opNames[op], err != nil))
		h.mu.Unlock()
	}
}

// closerStream is the harness Stream with the optional methods real sinks have; they fail.
type closerStream struct{ *harness }

func (closerStream) Close() error { return errors.New("sink: close failed") }
func (closerStream) Flush() error { return errors.New("sink: flush failed") }
func (closerStream) Sync() error  { return errors.New("sink: sync failed") }

// lockerStream is a sink that is safe for concurrent use the usual way: it embeds a mutex - so it has Lock and Unlock
// methods, it IS a sync.Locker - and takes it inside its callbacks.
type lockerStream struct {
	*harness
	vsync.Mutex // the scheduler's mutex under exploration (a wait is visible), the real one when free-running
}

func (l *lockerStream) ReassemblyComplete(msgs []*auparse.AuditMessage) {
	l.Lock()
	defer l.Unlock()
	l.harness.ReassemblyComplete(msgs)
}

func (l *lockerStream) EventsLost(n int) {
	l.Lock()
	defer l.Unlock()
	l.harness.EventsLost(n)
}

func newHarness(p Program) *harness {
	h := &harness{p: p, byPtr: map[*auparse.AuditMessage]*pushed{}}
	to := 1000 * time.Hour
	if p.Timeout > 0 {
		to = time.Duration(p.Timeout) * time.Millisecond
	}
	var st libaudit.Stream = h
	if p.CloserStream {
		st = closerStream{h}
	}
	if p.LockerStream {
		st = &lockerStream{harness: h}
	}
	r, err := libaudit.NewReassembler(p.MaxInFlight, to, st)
	if err != nil {
		panic(err)
	}
	h.r = r
	for _, op := range p.Pre {
		h.doT(0, op, true) // no model thread is running yet: scheduling points pass through
	}
	return h
}

func (h *harness) Body(x *sched.Exec) {
	x.Prime = true // thread bodies touch nothing shared before their first Yield
	for i, prog := range h.p.Threads {
		prog := prog
		x.Go(fmt.Sprintf("t%d", i), func() {
			for _, op := range prog {
				h.doT(i, op, false)
			}
		})
	}
}

// Finish applies the C11 oracle after all threads have returned.
func (h *harness) Finish(res *sched.Result) (string, []explore.Finding) {
	if res != nil && (res.Deadlock || res.Panic != nil || res.Horizon) {
		return "aborted", h.viol
	}
	closeInvoked := -1
	closeOK := 0
	okRet := -1
	nClose := 0
	for _, c := range h.calls {
		if c.op == oClose {
			nClose++
			if closeInvoked < 0 || c.invoke < closeInvoked {
				closeInvoked = c.invoke
			}
			if c.err == nil {
				closeOK++
				if okRet < 0 || c.ret < okRet {
					okRet = c.ret
				}
			}
		}
	}
	if nClose == 0 {
		// the harness closes once everything has returned (pass-through mode)
		c := &callRec{op: oClose, invoke: h.stamp()}
		c.err = h.r.Close()
		c.ret = h.stamp()
		h.calls = append(h.calls, c)
		closeInvoked = c.invoke
		if c.err == nil {
			closeOK++
			okRet = c.ret
		}
		nClose = 1
	}
	if closeOK != 1 {
		h.fail("close-success-count", "%d of %d Close calls returned nil, want exactly 1", closeOK, nClose)
	}
	for _, c := range h.calls {
		if c.op == oMaintain && okRet >= 0 && c.invoke > okRet && c.err == nil {
			h.fail("maintain-after-close-nil", "Maintain invoked after a successful Close had returned yielded nil")
		}
	}
	for _, p := range h.msgs {
		if p.eoe {
			continue
		}
		if h.p.PanicOnce && (h.recovered == 0 || p.invoke < h.recovered) {
			continue // whatever was in flight when the sink panicked is the sink's loss; what is pushed afterwards is not
		}
		if p.ret < closeInvoked && p.delivered != 1 {
			desc := "pushed as bytes " + p.tag
			if p.msg != nil {
				desc = fmt.Sprintf("seq %d type %d", p.msg.Sequence, p.msg.RecordType)
			}
			h.fail("lost-message", "message %s pushed (returned at stamp %d) before Close was invoked (stamp %d) was delivered %d times", desc, p.ret, closeInvoked, p.delivered)
		}
	}
	// observation digest
	var delivered []string
	for _, p := range h.msgs {
		delivered = append(delivered, fmt.Sprint(p.delivered))
	}
	obs := strings.Join(h.log, " ") + " | " + strings.Join(delivered, "")
	return obs, h.viol
}

// ---- program enumeration ----------------------------------------------------

func threadPrograms(maxLen int) [][]int {
	var out [][]int
	for a := 0; a < 6; a++ {
		out = append(out, []int{a})
	}
	if maxLen >= 2 {
		for a := 0; a < 6; a++ {
			for b := 0; b < 6; b++ {
				out = append(out, []int{a, b})
			}
		}
	}
	return out
}

func programs(tier string) []Program {
	var out []Program
	tp := threadPrograms(2)
	streams := []int{0, 1, 2, 3}
	// schedules explored from NON-INITIAL states: events buffered before the threads start (their pushes returned long
	// before anything races), above and below the sequences the threads use, the list at and below its capacity; three
	// single-op threads of which one closes, and the two-thread programs that finish event A twice
	{
		one := threadPrograms(1)
		pres := [][]int{{oPushHiMid}, {oPushLoMid}, {oPushHiMid, oPushLoMid}, {oPushLoMid, oPushAmid}}
		for _, m := range []int{1, 2} {
			for _, pre := range pres {
				for i := 0; i < len(one); i++ {
					for j := i; j < len(one); j++ {
						for k := j; k < len(one); k++ {
							if one[i][0] != oClose && one[j][0] != oClose && one[k][0] != oClose {
								continue
							}
							out = append(out, Program{Threads: [][]int{one[i], one[j], one[k]}, MaxInFlight: m, Pre: pre})
						}
					}
				}
				for _, ths := range [][][]int{{{oPushAeoe}, {oPushAeoe}}, {{oPushAeoe}, {oPushAfin}}, {{oPushAeoe, oPushAmid}, {oPushAeoe}}, {{oPushAeoe}, {oMaintain}}, {{oPushAfin}, {oPushBmid, oPushAeoe}}} {
					out = append(out, Program{Threads: ths, MaxInFlight: m, Pre: pre})
				}
			}
		}
	}
	for _, m := range []int{0, 1, 2} {
		for _, s := range streams {
			for i := 0; i < len(tp); i++ {
				for j := i; j < len(tp); j++ {
					out = append(out, Program{Threads: [][]int{tp[i], tp[j]}, MaxInFlight: m, Stream: s})
				}
			}
		}
	}
	// timed family: a finite timeout, a Maintain that really delivers a batch, Close racing with it
	// or called from inside a callback
	var tpT [][]int
	timedOps := []int{oPushAmid, oPushBmid, oTickMaintain, oClose}
	for _, a := range timedOps {
		tpT = append(tpT, []int{a})
		for _, b := range timedOps {
			tpT = append(tpT, []int{a, b})
			if a == oPushAmid && b == oPushBmid {
				tpT = append(tpT, []int{a, b, oTickMaintain}, []int{a, b, oTickMaintain, oClose})
			}
		}
	}
	for _, st := range []int{0, 4, 1} {
		for i := 0; i < len(tpT); i++ {
			out = append(out, Program{Threads: [][]int{tpT[i]}, MaxInFlight: 3, Stream: st, Timeout: 2})
			for j := i; j < len(tpT); j++ {
				if len(tpT[i])+len(tpT[j]) > 5 {
					continue
				}
				out = append(out, Program{Threads: [][]int{tpT[i], tpT[j]}, MaxInFlight: 3, Stream: st, Timeout: 2})
			}
		}
	}
	// payload family: records whose kernel timestamps disagree and records pushed as bytes from a buffer
	// the caller overwrites afterwards, racing with Maintain / Close / other pushes of the same event
	var tpP [][]int
	payOps := []int{oPushAmidTs, oPushAraw, oPushAmid, oMaintain, oClose}
	for _, a := range payOps {
		tpP = append(tpP, []int{a})
		for _, b := range payOps {
			tpP = append(tpP, []int{a, b})
		}
	}
	hasNew := func(t []int) bool {
		for _, o := range t {
			if o == oPushAmidTs || o == oPushAraw {
				return true
			}
		}
		return false
	}
	for _, to := range []int{0, 2} {
		for i := 0; i < len(tpP); i++ {
			for j := i; j < len(tpP); j++ {
				if !hasNew(tpP[i]) && !hasNew(tpP[j]) {
					continue
				}
				out = append(out, Program{Threads: [][]int{tpP[i], tpP[j]}, MaxInFlight: 2, Stream: 0, Timeout: to})
			}
		}
	}
	// k threads each opening its own sequence (then adding a second record), explored with the pile-up
	// schedules: k callers between the same two steps of PushMessage at once, k = 5 ... 13
	for _, mk := range [][2]int{{0, 5}, {0, 8}, {1, 9}, {2, 13}, {1, 5}} {
		var ths [][]int
		for i := 0; i < mk[1]; i++ {
			ths = append(ths, []int{oPushOwn, oPushOwn2})
		}
		out = append(out, Program{Threads: ths, MaxInFlight: mk[0], PileUp: true})
		out = append(out, Program{Threads: append(append([][]int{}, ths[:mk[1]-1]...), []int{oMaintain, oClose}), MaxInFlight: mk[0], PileUp: true})
	}
	// the same two-thread programs with sequence numbers that straddle the 2^32 roll-over
	for _, m := range []int{1, 2} {
		for i := 0; i < len(tp); i++ {
			for j := i; j < len(tp); j++ {
				out = append(out, Program{Threads: [][]int{tp[i], tp[j]}, MaxInFlight: m, Stream: 0, Wrap: true})
			}
		}
	}
	// a Stream whose first callback panics (the caller recovers): what is pushed afterwards is delivered as usual
	for _, ths := range [][][]int{{{oPushAfin, oPushAmid, oPushAfin}}, {{oPushAfin, oPushBmid, oPushAmid, oPushAeoe, oMaintain}}, {{oPushAfin, oPushAmid}, {oPushBmid, oMaintain}}, {{oPushAfin}, {oPushAmid, oPushAfin}}, {{oPushAfin, oPushAfin}, {oPushBmid}}} {
		for _, m := range []int{0, 2} {
			out = append(out, Program{Threads: ths, MaxInFlight: m, PanicOnce: true})
		}
	}
	// a Stream that is a sync.Locker and locks itself in its callbacks
	for _, ths := range [][][]int{{{oPushAfin}}, {{oPushAmid, oPushBmid, oClose}}, {{oPushAfin}, {oPushBmid, oMaintain}}, {{oPushAmid, oPushAeoe}, {oClose}}, {{oPushAmid}, {oPushBmid}, {oClose}}} {
		for _, m := range []int{0, 1} {
			out = append(out, Program{Threads: ths, MaxInFlight: m, LockerStream: true})
		}
	}
	// Close racing with Close / Push / Maintain on a Stream that also has (failing) Close/Flush/Sync methods
	for _, ths := range [][][]int{{{oClose}, {oClose}}, {{oPushAmid, oClose}, {oClose}}, {{oPushAmid}, {oMaintain, oClose}}, {{oClose, oClose}, {oPushAfin}}, {{oClose}, {oClose}, {oClose}}} {
		out = append(out, Program{Threads: ths, MaxInFlight: 1, CloserStream: true})
	}
	if tier == "thorough" {
		// three threads, at most 4 ops in total (1+1+1 and 1+1+2)
		for _, m := range []int{0, 1, 2} {
			for _, s := range streams {
				for i := 0; i < len(tp); i++ {
					for j := i; j < len(tp); j++ {
						for k := j; k < len(tp); k++ {
							if len(tp[i])+len(tp[j])+len(tp[k]) > 4 {
								continue
							}
							out = append(out, Program{Threads: [][]int{tp[i], tp[j], tp[k]}, MaxInFlight: m, Stream: s})
						}
					}
				}
			}
		}
	} else {
		// quick: three single-op threads
		one := threadPrograms(1)
		for _, m := range []int{0, 1} {
			for _, s := range []int{0, 1} {
				for i := 0; i < len(one); i++ {
					for j := i; j < len(one); j++ {
						for k := j; k < len(one); k++ {
							out = append(out, Program{Threads: [][]int{one[i], one[j], one[k]}, MaxInFlight: m, Stream: s})
						}
					}
				}
			}
		}
	}
	return out
}

// ---- worker ------------------------------------------------------------------

type Job struct {
	Progs   []Program
	Bound   int
	MaxExec int64
}

type ProgResult struct {
	Prog       string
	Executions int64
	MaxChoices int
	Exhausted  bool
	Bound      int
	Outcomes   int
	Traces     int
	Found      []FoundJSON
	Nondet     []string
	Sample     string
}

type FoundJSON struct {
	Sig      string
	What     string
	Program  Program
	Schedule []int
	Steps    string
}

func runJob(j Job) []ProgResult {
	vtime.Install()
	var out []ProgResult
	for _, p := range j.Progs {
		p := p
		// whole tree if it is small, else the preemption bound (complete within it)
		e := &explore.Explorer{Bound: -1, MaxExec: j.MaxExec, Horizon: 5000,
			NewHarness: func() explore.Harness { return newHarness(p) }}
		var r *explore.Result
		if p.PileUp {
			r = e.PileUps()
		} else {
			r = e.Explore()
		}
		if r.Capped {
			b := j.Bound
			if len(p.Threads) > 2 && b > 2 {
				b = 2
			}
			e = &explore.Explorer{Bound: b, MaxExec: 0, Horizon: 5000,
				NewHarness: func() explore.Harness { return newHarness(p) }}
			r2 := e.Explore()
			r2.Findings = append(r2.Findings, r.Findings...)
			r2.Nondeterminism = append(r2.Nondeterminism, r.Nondeterminism...)
			r2.Executions += r.Executions
			r = r2
		}
		pr := ProgResult{Prog: p.String(), Executions: r.Executions, MaxChoices: r.MaxChoices, Exhausted: r.Exhausted, Bound: r.Bound, Outcomes: len(r.Outcomes), Traces: len(r.Traces), Nondet: r.Nondeterminism}
		for _, f := range r.Findings {
			var steps []string
			for _, s := range f.Steps {
				steps = append(steps, fmt.Sprintf("t%d:%s", s.Thread, s.Op))
			}
			pr.Found = append(pr.Found, FoundJSON{Sig: f.Sig, What: f.What, Program: p, Schedule: f.Schedule, Steps: strings.Join(steps, " ")})
		}
		for o := range r.Outcomes {
			pr.Sample = o
			break
		}
		out = append(out, pr)
	}
	return out
}

// ---- race pass (free-running, uninstrumented library, -race) -----------------

func racePass(progs []Program, reps int, seed int64) (iterations int64) {
	var progress int64
	var cur atomic.Value
	go func() { // watchdog: a real deadlock in free-running mode would hang forever
		last, idle := int64(-1), 0
		for {
			time.Sleep(time.Second)
			now := atomic.LoadInt64(&progress)
			if now == last {
				idle++
			} else {
				idle = 0
			}
			last = now
			if idle >= 120 {
				fmt.Printf("RACE-PASS-HANG no progress for 120s in program %v\n", cur.Load())
				os.Exit(4)
			}
		}
	}()
	for pi, p := range progs {
		cur.Store(p.String())
		nrep := reps
		if len(p.Pre) > 0 && len(p.Threads) == 2 {
			// two single calls on a prepared object overlap only now and then (each is a few hundred nanoseconds): the
			// detector needs the two critical sections to be concurrent in its happens-before order, so many repetitions
			nrep = reps * 100
		}
		for rep := 0; rep < nrep; rep++ {
			// TWO objects at a time: the program's own Reassembler and a second one driven by the NEXT program, all threads of
			// both released together - objects share nothing, so the detector stays silent whatever the two do
			hs := []*harness{newHarness(p)}
			if len(progs) > 1 {
				hs = append(hs, newHarness(progs[(pi+1)%len(progs)]))
			}
			var wg sync.WaitGroup
			start := make(chan struct{})
			for _, h := range hs {
				h := h
				h.free = true
				for _, prog := range h.p.Threads {
					prog := prog
					wg.Add(1)
					go func() {
						defer wg.Done()
						<-start
						for _, op := range prog {
							h.do(op, false)
						}
					}()
				}
			}
			close(start)
			wg.Wait()
			for _, h := range hs {
				h.Finish(nil)
			}
			iterations++
			atomic.AddInt64(&progress, 1)
		}
	}
	return iterations
}

func main() {
	if os.Getenv("VERIF_RACE") != "" {
		var j struct {
			Progs []Program
			Reps  int
			Seed  int64
		}
		if err := json.NewDecoder(os.Stdin).Decode(&j); err != nil {
			fmt.Fprintln(os.Stderr, err)
			os.Exit(3)
		}
		n := racePass(j.Progs, j.Reps, j.Seed)
		fmt.Printf("{\"iterations\":%d}\n", n)
		return
	}
	if par.IsWorker() {
		var j Job
		par.WorkerMain(&j, func() interface{} { return runJob(j) })
	}
	prop := flag.String("prop", "C11", "property id")
	tier := flag.String("tier", "quick", "quick|thorough")
	replayF := flag.String("replay", "", "replay a violation file")
	raceBin := flag.String("racebin", "", "path of the -race build of this harness")
	bin386 := flag.String("bin386", "", "path of the GOARCH=386 build of this harness")
	flag.Parse()
	if *replayF != "" {
		os.Exit(doReplay(*replayF))
	}
	bin386Path = *bin386
	os.Exit(check(*prop, *tier, *raceBin))
}

// counterAcceleration: an operation whose only effect on the object is to bump an integer field cannot be
// enumerated up to that field's limit (2^32 failing Close calls ...) - so the field is found by comparing the
// object's integer fields before and after the operation, set close to the limits of its type, and the operation
// is applied a few more times across the wrap.  Here: Close after Close, and Maintain after Close.
func counterAcceleration(run *ev.Run, prop string) {
	type probe struct {
		name string
		op   func(r *libaudit.Reassembler) error
	}
	probes := []probe{{"Close", func(r *libaudit.Reassembler) error { return r.Close() }}, {"Maintain", func(r *libaudit.Reassembler) error { return r.Maintain() }}}
	for _, pr := range probes {
		h := newHarness(Program{MaxInFlight: 2})
		h.push(seqA, 1300, true)
		if err := h.r.Close(); err != nil {
			run.Errorf("counter acceleration: first Close failed: %v", err)
			return
		}
		ints := func() map[string]reflect.Value {
			out := map[string]reflect.Value{}
			var walk func(v reflect.Value, path string, depth int)
			walk = func(v reflect.Value, path string, depth int) {
				if depth > 6 {
					return
				}
				switch v.Kind() {
				case reflect.Ptr, reflect.Interface:
					if !v.IsNil() && v.Type() != reflect.TypeOf(h) {
						walk(v.Elem(), path, depth+1)
					}
				case reflect.Struct:
					if v.Type() == reflect.TypeOf(*h) {
						return
					}
					for i := 0; i < v.NumField(); i++ {
						f := v.Field(i)
						if f.CanAddr() {
							f = reflect.NewAt(f.Type(), unsafe.Pointer(f.UnsafeAddr())).Elem()
						}
						walk(f, path+"."+v.Type().Field(i).Name, depth+1)
					}
				case reflect.Int, reflect.Int8, reflect.Int16, reflect.Int32, reflect.Int64, reflect.Uint, reflect.Uint8, reflect.Uint16, reflect.Uint32, reflect.Uint64, reflect.Uintptr:
					if v.CanSet() {
						out[path] = v
					}
				}
			}
			walk(reflect.ValueOf(h.r), "Reassembler", 0)
			return out
		}
		before := map[string]int64{}
		for p, v := range ints() {
			if v.CanInt() {
				before[p] = v.Int()
			} else {
				before[p] = int64(v.Uint())
			}
		}
		_ = pr.op(h.r)
		for p, v := range ints() {
			var now int64
			if v.CanInt() {
				now = v.Int()
			} else {
				now = int64(v.Uint())
			}
			if now == before[p] {
				continue
			}
			// the field moved: jump it to just below every limit of its width and go on
			bits := v.Type().Bits()
			var limits []int64
			if v.CanInt() {
				limits = []int64{1<<(bits-1) - 2, -2, -1 << (bits - 1)}
			} else {
				limits = []int64{1<<(bits-1) - 2, -2} // as bit patterns: 0x7f..fe, 0xff..fe
			}
			for _, lim := range limits {
				if v.CanInt() {
					v.SetInt(lim)
				} else {
					v.SetUint(uint64(lim) & (1<<bits - 1))
				}
				for k := 0; k < 5; k++ {
					if err := h.r.Close(); err == nil {
						run.Report(ev.Violation{Sig: prop + " close-success-count", What: fmt.Sprintf("the field %s changes with every %s call on a closed Reassembler; set to %d (close to a limit of its %d-bit type) and followed by %d more Close calls, a Close call returned nil again: more than one Close succeeds once enough calls have been made", p, pr.name, lim, bits, k+1), Replay: map[string]interface{}{"field": p, "value": lim}})
						return
					}
					if err := h.r.Maintain(); err == nil {
						run.Report(ev.Violation{Sig: prop + " maintain-after-close-nil", What: fmt.Sprintf("the field %s changes with every %s call on a closed Reassembler; set to %d (close to a limit of its %d-bit type), Maintain reports an open Reassembler again after %d more Close calls", p, pr.name, lim, bits, k+1), Replay: map[string]interface{}{"field": p, "value": lim}})
						return
					}
				}
			}
			run.Add("traces_validated_against_impl", int64(len(limits)))
		}
	}
	run.Set("counter_acceleration", "integer fields that move under Close/Maintain on a closed object are set next to the limits of their type")
}

var bin386Path string

// pass386 runs the free-running driver bodies (no scheduler, real sync/atomic) of a slice of the programs on a
// 32-bit build of the library: any crash there (unaligned 64-bit atomic operation, int overflow ...) is a
// violation of "no deadlocks ... every message delivered" on a platform Go supports.
func pass386(run *ev.Run, prop string, progs []Program) {
	if bin386Path == "" || run.NumSigs() > 0 {
		run.Set("pass_32bit_build", "skipped")
		return
	}
	var sel []Program
	for i, p := range progs {
		if len(p.Threads) <= 2 && !p.PileUp && !p.PanicOnce && (i%7 == 0 || p.Timeout > 0 || p.CloserStream || p.Wrap || p.LockerStream) {
			sel = append(sel, p)
		}
	}
	if len(sel) > 1500 {
		sel = sel[:1500]
	}
	in, _ := json.Marshal(map[string]interface{}{"Progs": sel, "Reps": 1, "Seed": 1})
	cmd := exec.Command(bin386Path)
	cmd.Env = append(os.Environ(), "VERIF_RACE=1")
	cmd.Stdin = strings.NewReader(string(in))
	out, err := cmd.CombinedOutput()
	s := string(out)
	run.Set("pass_32bit_build", fmt.Sprintf("%d programs free-running on a GOARCH=386 build", len(sel)))
	if err != nil || strings.Contains(s, "panic:") || strings.Contains(s, "fatal error:") {
		i := strings.Index(s, "panic:")
		if i < 0 {
			i = strings.Index(s, "fatal error:")
		}
		if i < 0 {
			i = 0
		}
		run.Report(ev.Violation{Sig: prop + " crash-on-32-bit-build", What: "the driver programs, free-running on a GOARCH=386 build of the library, crashed (" + fmt.Sprint(err) + "):\n" + tailHead(s[i:], 2500), Replay: "GOARCH=386 build, free-running driver programs"})
	}
}

func check(prop, tier, raceBin string) int {
	run := ev.Begin(prop, tier, "model_checking")
	progs := programs(tier)
	bound := 2
	maxExec := int64(400)
	if tier == "thorough" {
		bound = 3
		maxExec = 20_000
	}
	var jobs []interface{}
	chunk := (len(progs) + 127) / 128
	for i := 0; i < len(progs); i += chunk {
		j := i + chunk
		if j > len(progs) {
			j = len(progs)
		}
		jobs = append(jobs, Job{Progs: progs[i:j], Bound: bound, MaxExec: maxExec})
	}
	allExhausted := true
	var capped []string
	totalOutcomes := int64(0)
	multiOutcome := int64(0)
	par.Map("conc", jobs, 6*time.Hour, nil, func(r par.Result) {
		if r.Died {
			run.Errorf("worker %d died: %s", r.Job, tailStr(r.Stderr, 800))
			return
		}
		var prs []ProgResult
		if err := json.Unmarshal(r.Out, &prs); err != nil {
			run.Errorf("job %d: %v", r.Job, err)
			return
		}
		for _, pr := range prs {
			run.Add("programs", 1)
			run.Add("transitions", pr.Executions*int64(pr.MaxChoices+1))
			run.Add("traces_validated_against_impl", pr.Executions)
			run.Add("states", int64(pr.Traces))
			totalOutcomes += int64(pr.Outcomes)
			if pr.Outcomes > 1 {
				multiOutcome++
			}
			if !pr.Exhausted {
				allExhausted = false
				run.Add("programs_explored_to_preemption_bound_only", 1)
				if len(capped) < 5 {
					capped = append(capped, pr.Prog)
				}
			} else {
				run.Add("programs_explored_unbounded", 1)
			}
			for _, n := range pr.Nondet {
				run.Errorf("nondeterminism: %s: %s", pr.Prog, n)
			}
			if pr.Executions > 50 && pr.Outcomes > 3 {
				run.Sample(map[string]interface{}{"program": pr.Prog, "schedules": pr.Executions, "distinct_outcomes": pr.Outcomes, "one_outcome": pr.Sample})
			}
			for _, f := range pr.Found {
				if strings.HasPrefix(f.Sig, "ERROR/") {
					run.Errorf("%s: %s: %s", pr.Prog, f.Sig, f.What)
					continue
				}
				run.Report(ev.Violation{Sig: prop + " " + f.Sig, What: f.What + " | program: " + pr.Prog,
					Replay: map[string]interface{}{"program": f.Program, "schedule": f.Schedule, "steps": f.Steps}})
			}
		}
	})
	// amounts: "every message delivered exactly once" with MANY events in flight, one goroutine: n incomplete
	// events of which one near the head arrives last, then Close - for n = 3000 and just above (twice) every
	// integer constant 64..10000 of the tree's reassembler.go (look-back windows, cut-over points ...)
	vtime.Install()
	ns := []int{3000}
	hv := harvest.Files([]string{filepath.Join(ev.Repo(), "reassembler.go")}, harvest.Options{})
	for _, N := range hv.Thresholds(16, 10000) {
		ns = append(ns, int(N)+5, 2*int(N)+20)
	}
	for _, n := range ns {
		h := newHarness(Program{MaxInFlight: 2*n + 100})
		func() {
			defer func() {
				if p := recover(); p != nil {
					run.Report(ev.Violation{Sig: prop + " panic", What: fmt.Sprintf("sequential scale history (n=%d incomplete events, number 5 arriving last, Close) panicked: %v", n, p), Replay: map[string]interface{}{"n": n}})
				}
			}()
			for i := 0; i < n; i++ {
				if i != 5 {
					h.push(uint32(1000+i), 1300, true)
				}
			}
			h.push(1005, 1300, true)
			_, fs := h.Finish(nil)
			for _, f := range fs {
				run.Report(ev.Violation{Sig: prop + " " + f.Sig, What: f.What + fmt.Sprintf(" | sequential scale history: n=%d incomplete events, number 5 arriving last, Close", n), Replay: map[string]interface{}{"n": n}})
			}
		}()
		run.Add("traces_validated_against_impl", 1)
		run.Add("transitions", int64(n))
	}
	run.Set("sequential_scale_histories", ns)
	run.Set("exhaustive", allExhausted)
	run.Set("preemption_bound", fmt.Sprintf("whole schedule tree where it has at most %d schedules (programs_explored_unbounded), otherwise every schedule with at most %d preemptions (programs_explored_to_preemption_bound_only)", maxExec, bound))
	if len(capped) > 0 {
		run.Set("examples_of_bounded_programs", capped)
	}
	run.Set("distinct_outcomes_total", totalOutcomes)
	run.Set("programs_with_more_than_one_outcome", multiOutcome)
	if multiOutcome == 0 {
		run.Errorf("vacuous: no program produced more than one outcome")
	}
	// race pass
	if run.NumSigs() > 0 {
		run.Set("race_pass_iterations_sampled", 0)
		run.Set("race_pass", "skipped: the schedule exploration already found violations")
	} else if raceBin != "" {
		reps := 20
		if tier == "thorough" {
			reps = 200
		}
		two := progs
		if len(two) > 4000 && tier != "thorough" {
			two = two[:4000]
		}
		in, _ := json.Marshal(map[string]interface{}{"Progs": two, "Reps": reps, "Seed": run.Seed})
		cmd := exec.Command(raceBin)
		cmd.Env = append(os.Environ(), "VERIF_RACE=1", "GORACE=halt_on_error=0")
		cmd.Stdin = strings.NewReader(string(in))
		out, err := cmd.CombinedOutput()
		s := string(out)
		if strings.Contains(s, "WARNING: DATA RACE") {
			i := strings.Index(s, "WARNING: DATA RACE")
			run.Report(ev.Violation{Sig: prop + " data-race", What: "race detector report in the free-running pass:\n" + tailHead(s[i:], 3000), Replay: "free-running -race pass over the driver programs"})
		} else if strings.Contains(s, "RACE-PASS-HANG") {
			run.Errorf("free-running pass hung (not found by the schedule exploration): %s", tailStr(s, 300))
		} else if err != nil {
			run.Errorf("race pass failed: %v: %s", err, tailStr(s, 500))
		}
		var rr struct{ Iterations int64 }
		if i := strings.LastIndex(s, "{\"iterations\""); i >= 0 {
			_ = json.Unmarshal([]byte(strings.TrimSpace(s[i:])), &rr)
		}
		run.Set("race_pass_iterations_sampled", rr.Iterations)
	} else {
		run.Set("race_pass_iterations_sampled", 0)
		run.Errorf("race binary not provided")
	}
	pass386(run, prop, progs)
	counterAcceleration(run, prop)
	run.Set("explanation", "stateless DFS over every scheduling choice (points: each Mutex.Lock, each atomic op, thread start, each API call and each Stream callback) of 2-3 thread driver programs on the real instrumented Reassembler; states = distinct step traces, transitions = scheduling decisions, traces_validated_against_impl = complete schedules executed on the real code; the data-race clause is discharged separately by a free-running -race pass (sampling, not counted as exhaustive).")
	run.Assume("scheduling points at lock/atomic/once granularity are sufficient given data-race freedom, which the separate free-running -race pass samples")
	run.Assume("sequentially consistent memory; virtual clock")
	return run.Finish()
}

func tailStr(s string, n int) string {
	if len(s) > n {
		return s[len(s)-n:]
	}
	return s
}

func tailHead(s string, n int) string {
	if len(s) > n {
		return s[:n]
	}
	return s
}

func doReplay(path string) int {
	b, err := os.ReadFile(path)
	if err != nil {
		fmt.Println("ERROR", err)
		return 2
	}
	var doc struct {
		Property string
		Cases    []struct {
			Replay struct {
				Program  Program
				Schedule []int
			}
		}
	}
	if err := json.Unmarshal(b, &doc); err != nil {
		fmt.Println("ERROR", err)
		return 2
	}
	vtime.Install()
	bad := 0
	for _, c := range doc.Cases {
		if len(c.Replay.Program.Threads) == 0 {
			continue
		}
		h := newHarness(c.Replay.Program)
		res := sched.Run(c.Replay.Schedule, 5000, h.Body)
		obs, viol := h.Finish(res)
		fmt.Println("program:", c.Replay.Program, "\nschedule:", c.Replay.Schedule, "\nobs:", obs)
		var sigs []string
		for _, v := range viol {
			sigs = append(sigs, v.Sig+": "+v.What)
		}
		if res.Deadlock {
			sigs = append(sigs, "deadlock: "+res.DeadlockMsg)
		}
		if res.Panic != nil {
			sigs = append(sigs, fmt.Sprint("panic: ", res.Panic))
		}
		sort.Strings(sigs)
		for _, s := range sigs {
			fmt.Println("  ", s)
			bad++
		}
	}
	if bad > 0 {
		fmt.Printf("VIOLATION property=%s replay=%s\n", doc.Property, path)
		return 1
	}
	return 0
}
