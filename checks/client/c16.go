package main

import (
	"encoding/binary"
	"errors"
	"fmt"
	"io"
	"os"
	"runtime"
	"strconv"
	"strings"
	"syscall"
	"unsafe"

	libaudit "github.com/elastic/go-libaudit/v2"

	"github.com/elastic/go-libaudit/v2/vshim/vos"

	"verif/engine/ev"
	"verif/engine/guard"
	"verif/engine/ksim"
)

// UAPI numbers transcribed from linux/audit.h (refdata/audit_uapi.txt); the
// library's own constants are NOT used as expectations.
const (
	uapiAuditGet = 1000
	uapiAuditSet = 1001

	maskEnabled         = 0x01
	maskFailure         = 0x02
	maskPID             = 0x04
	maskRateLimit       = 0x08
	maskBacklogLimit    = 0x10
	maskBacklogWaitTime = 0x20
	maskLost            = 0x40

	offMask            = 0
	offEnabled         = 4
	offFailure         = 8
	offPID             = 12
	offRateLimit       = 16
	offBacklogLimit    = 20
	offLost            = 24
	offBacklog         = 28
	offFeature         = 32
	offBacklogWaitTime = 36
	offBacklogWaitAct  = 40
	sizeofStatus       = 44
	minStatus          = 32 // 2.6.32: up to and including backlog
)

type setter struct {
	name string
	mask uint32
	off  int
	call func(c *libaudit.AuditClient, v uint32, wm libaudit.WaitMode) error
	val  func(v uint32) uint32 // wire value expected for argument v
	dom  string
}

// labelChooser answers named choice points with a fixed non-default answer.
type labelChooser map[string]int

func (l labelChooser) Choose(label string, n int) int {
	if v, ok := l[label]; ok && v < n {
		return v
	}
	return 0
}

// labelChooserSeq answers the k-th occurrence of a named choice point with seq[k].
type labelChooserSeq map[string][]int

func (l labelChooserSeq) Choose(label string, n int) int {
	if q := l[label]; len(q) > 0 {
		v := q[0]
		l[label] = q[1:]
		if v < n {
			return v
		}
	}
	return 0
}

var gRegion *guard.Region

func guardRegion() *guard.Region {
	if gRegion == nil {
		r, err := guard.New(4096)
		if err != nil {
			panic(err)
		}
		gRegion = r
	}
	gRegion.Poison(0xAA)
	return gRegion
}

func setters() []setter {
	id := func(v uint32) uint32 { return v }
	return []setter{
		{"SetRateLimit", maskRateLimit, offRateLimit, func(c *libaudit.AuditClient, v uint32, wm libaudit.WaitMode) error { return c.SetRateLimit(v, wm) }, id, "u32"},
		{"SetBacklogLimit", maskBacklogLimit, offBacklogLimit, func(c *libaudit.AuditClient, v uint32, wm libaudit.WaitMode) error { return c.SetBacklogLimit(v, wm) }, id, "u32"},
		{"SetBacklogWaitTime", maskBacklogWaitTime, offBacklogWaitTime, func(c *libaudit.AuditClient, v uint32, wm libaudit.WaitMode) error {
			return c.SetBacklogWaitTime(int32(v), wm)
		}, id, "u32"},
		{"SetFailure", maskFailure, offFailure, func(c *libaudit.AuditClient, v uint32, wm libaudit.WaitMode) error {
			return c.SetFailure(libaudit.FailureMode(v), wm)
		}, id, "u32"},
		{"SetEnabled", maskEnabled, offEnabled, func(c *libaudit.AuditClient, v uint32, wm libaudit.WaitMode) error { return c.SetEnabled(v != 0, wm) }, func(v uint32) uint32 {
			if v != 0 {
				return 1
			}
			return 0
		}, "bool"},
		{"SetImmutable", maskEnabled, offEnabled, func(c *libaudit.AuditClient, v uint32, wm libaudit.WaitMode) error { return c.SetImmutable(wm) }, func(uint32) uint32 { return 2 }, "none"},
		{"SetPID", maskPID, offPID, func(c *libaudit.AuditClient, v uint32, wm libaudit.WaitMode) error { return c.SetPID(wm) }, func(uint32) uint32 { return identityPid }, "none"},
	}
}

func valueDomain(tier string) []uint32 {
	seen := map[uint32]bool{}
	var out []uint32
	add := func(v uint32) {
		if !seen[v] {
			seen[v] = true
			out = append(out, v)
		}
	}
	for _, v := range []uint32{0, 1, 2, 3, 1<<31 - 1, 1 << 31, 1<<31 + 1, 1<<32 - 2, 1<<32 - 1, 0x01020304, 0xA1B2C3D4} {
		add(v)
	}
	for b := 0; b < 32; b++ {
		add(1 << b)
		add(^uint32(1 << b))
	}
	n := 1 << 10
	if tier == "thorough" {
		n = 1 << 16
	}
	for v := 0; v < n; v++ {
		add(uint32(v))
		add(uint32(v) << 16)
	}
	return out
}

// identityPid: the pid the process has to itself under the identity variant in force (what SetPID must send).
var identityPid = uint32(syscall.Getpid())

// procSelf renders /proc/self/status and /proc/self/stat the way the kernel shows them to a process whose pid (in its
// own namespace) is pid and which outer namespaces know by the other ids (outermost first, own last).
func procSelf(pid int, ns []int) map[string][]byte {
	real, _ := os.ReadFile("/proc/self/status")
	var out []string
	nsline := "NSpid:"
	for _, id := range ns {
		nsline += "\t" + strconv.Itoa(id)
	}
	seen := false
	for _, l := range strings.Split(string(real), "\n") {
		switch {
		case strings.HasPrefix(l, "Pid:") || strings.HasPrefix(l, "Tgid:"):
			l = l[:strings.Index(l, ":")+1] + "\t" + strconv.Itoa(pid)
		case strings.HasPrefix(l, "NSpid:") || strings.HasPrefix(l, "NStgid:"):
			l = strings.Replace(nsline, "NSpid", l[:strings.Index(l, ":")], 1)
			seen = true
		}
		out = append(out, l)
	}
	if !seen {
		out = append(out, nsline)
	}
	return map[string][]byte{"/proc/self/status": []byte(strings.Join(out, "\n")), "/proc/self/stat": []byte(fmt.Sprintf("%d (audit) S 0 %d %d 0 -1 4194560 0 0 0 0 0 0 0 0 20 0 1 0 100 0 0\n", pid, pid, pid))}
}

func checkC16(tier string) int {
	run := ev.Begin("C16", tier, "exploration")
	var evals, nontrivial int64
	rep := func(sig, format string, a ...interface{}) {
		run.Report(ev.Violation{Sig: "C16 " + sig, What: fmt.Sprintf(format, a...), Replay: fmt.Sprintf(format, a...)})
	}
	// 1. setters - under the process's own execution domain and under the UNAME26 personality (uname(2) then reports a
	// 2.6.x release: what the library sends does not depend on what the running kernel calls itself).  personality(2) is
	// per thread: the calls are made on this locked thread.
	dom := valueDomain(tier)
	runtime.LockOSThread()
	oldPersona, _, _ := syscall.Syscall(syscall.SYS_PERSONALITY, 0xffffffff, 0, 0)
	personaNote := ""
	baseRep := rep
	rep = func(sig, format string, a ...interface{}) { baseRep(sig, format+personaNote, a...) }
	for pi, persona := range []uintptr{oldPersona, oldPersona | 0x0020000} {
		if pi == 1 {
			if _, _, e := syscall.Syscall(syscall.SYS_PERSONALITY, persona, 0, 0); e != 0 {
				run.Set("uname26_personality", fmt.Sprintf("not available: %v", e))
				break
			}
			var u syscall.Utsname
			_ = syscall.Uname(&u)
			rel := ""
			for _, ch := range u.Release {
				if ch == 0 {
					break
				}
				rel += string(rune(ch))
			}
			personaNote = " | process personality UNAME26: uname reports release " + rel
			run.Set("uname26_personality", "setter pass repeated with uname(2) reporting release "+rel)
		}
		for _, st := range setters() {
			vals := dom
			switch st.dom {
			case "bool":
				vals = []uint32{0, 1}
			case "none":
				vals = []uint32{0, 0, 0, 0, 0, 0} // one evaluation per identity variant below
			}
			for _, wm := range []libaudit.WaitMode{libaudit.WaitForReply, libaudit.NoWait} {
				for vi, v := range vals {
					sim := ksim.New(nil)
					sim.NoDeviations = true
					c := &libaudit.AuditClient{Netlink: sim}
					// who the process is does not decide what is sent (the kernel decides what is allowed): every third
					// value under another identity - not root, another pid
					identityPid = uint32(syscall.Getpid())
					switch vi % 6 {
					case 1:
						vos.Install(&vos.Env{Uid: vos.Int(1000), Euid: vos.Int(1000), Gid: vos.Int(1000), Egid: vos.Int(1000)})
					case 2:
						vos.Install(&vos.Env{Uid: vos.Int(0), Euid: vos.Int(1000), Pid: vos.Int(1), Ppid: vos.Int(0)})
						identityPid = 1
					case 3:
						// a process inside a nested PID namespace (a container): it is pid 1 to itself and to the kernel interface
						// it talks to, /proc/self/status also shows the ids the outer namespaces know it by
						vos.Install(&vos.Env{Pid: vos.Int(1), Ppid: vos.Int(0), Files: procSelf(1, []int{24601, 1})})
						identityPid = 1
					case 4:
						vos.Install(&vos.Env{Pid: vos.Int(77), Ppid: vos.Int(1), Files: procSelf(77, []int{70001, 3001, 77})})
						identityPid = 77
					case 5:
						// /proc is not mounted
						vos.Install(&vos.Env{Files: map[string][]byte{"/proc/self/status": nil, "/proc/self/stat": nil}})
					}
					err := st.call(c, v, wm)
					vos.Uninstall()
					evals++
					if err != nil {
						rep("setter-error:"+st.name, "%s(%d, mode %d) returned %v with a kernel that acknowledges 0", st.name, v, wm, err)
						continue
					}
					if len(sim.Sends) != 1 {
						rep("setter-request-count:"+st.name, "%s(%d, mode %d) sent %d requests, want 1", st.name, v, wm, len(sim.Sends))
						continue
					}
					s := sim.Sends[0]
					if s.Type != uapiAuditSet {
						rep("setter-type:"+st.name, "%s sent message type %d, want AUDIT_SET=1001", st.name, s.Type)
					}
					if s.Flags != syscall.NLM_F_REQUEST|syscall.NLM_F_ACK {
						rep("setter-flags:"+st.name, "%s sent flags %#x, want NLM_F_REQUEST|NLM_F_ACK=0x5", st.name, s.Flags)
					}
					if len(s.Data) != sizeofStatus {
						rep("setter-size:"+st.name, "%s payload is %d bytes, want a full audit_status of %d", st.name, len(s.Data), sizeofStatus)
						continue
					}
					want := make([]byte, sizeofStatus)
					binary.LittleEndian.PutUint32(want[offMask:], st.mask)
					binary.LittleEndian.PutUint32(want[st.off:], st.val(v))
					if string(want) != string(s.Data) {
						rep("setter-payload:"+st.name, "%s(%d) payload % x, want mask %#x and value %d at offset %d and zeros elsewhere (% x)", st.name, v, s.Data, st.mask, st.val(v), st.off, want)
					} else if st.val(v) != 0 {
						nontrivial++
					}
					if wm == libaudit.NoWait && sim.Receives != 0 {
						rep("nowait-receives:"+st.name, "%s in NoWait mode performed %d receives", st.name, sim.Receives)
					}
					if wm == libaudit.WaitForReply && (len(sim.Q) != 0 || sim.Receives != 1) {
						rep("wait-ack-not-consumed:"+st.name, "%s in WaitForReply mode left %d datagrams queued after %d receives", st.name, len(sim.Q), sim.Receives)
					}
				}
			}
		}
	}
	syscall.Syscall(syscall.SYS_PERSONALITY, oldPersona, 0, 0)
	runtime.UnlockOSThread()
	personaNote = ""
	// mixed modes and refused requests on ONE client: every ordered pair of setters x both modes each x the
	// kernel's verdict on each in {0, EPERM, EINVAL}: whatever the earlier call's mode and fate (an unread
	// NoWait acknowledgement carrying an errno included), EVERY call puts exactly one well-formed AUDIT_SET
	// request on the wire
	type fixedVerdicts struct {
		v []int
		i int
	}
	for _, a := range setters() {
		for _, b := range setters() {
			for _, ma := range []libaudit.WaitMode{libaudit.WaitForReply, libaudit.NoWait} {
				for _, mb := range []libaudit.WaitMode{libaudit.WaitForReply, libaudit.NoWait} {
					for _, va := range []int{0, 1, 2} {
						for _, vb := range []int{0, 1} {
							sim := ksim.New(labelChooserSeq{"verdict(type=1001)": []int{va, vb}})
							sim.NoDeviations = true
							sim.Verdicts = []int{0, 1, 22}
							c := &libaudit.AuditClient{Netlink: sim}
							for i, st := range []setter{a, b} {
								mode := []libaudit.WaitMode{ma, mb}[i]
								before := len(sim.Sends)
								_ = st.call(c, 0x5A5A5A5A, mode)
								evals++
								if len(sim.Sends) != before+1 {
									rep("setter-request-count-after-history:"+st.name, "call %d of [%s(mode %d, kernel verdict index %d), %s(mode %d, verdict index %d)] on one client sent %d requests, want exactly 1", i+1, a.name, ma, va, b.name, mb, vb, len(sim.Sends)-before)
									break
								}
								s := sim.Sends[before]
								want := make([]byte, sizeofStatus)
								binary.LittleEndian.PutUint32(want[offMask:], st.mask)
								binary.LittleEndian.PutUint32(want[st.off:], st.val(0x5A5A5A5A))
								if s.Type != uapiAuditSet || s.Flags != syscall.NLM_F_REQUEST|syscall.NLM_F_ACK || string(s.Data) != string(want) {
									rep("setter-payload-after-history:"+st.name, "call %d of [%s(mode %d), %s(mode %d)]: type %d flags %#x payload % x, want AUDIT_SET, 0x5, % x", i+1, a.name, ma, b.name, mb, s.Type, s.Flags, s.Data, want)
									break
								}
								nontrivial++
							}
						}
					}
				}
			}
		}
	}
	_ = fixedVerdicts{}
	// state carried between calls: every ordered triple of setters on ONE client
	sts := setters()
	for _, a := range sts {
		for _, b := range sts {
			for _, d := range sts {
				for _, wm := range []libaudit.WaitMode{libaudit.WaitForReply, libaudit.NoWait} {
					sim := ksim.New(nil)
					sim.NoDeviations = true
					c := &libaudit.AuditClient{Netlink: sim}
					vals := []uint32{0xA1A2A3A4, 0x00000001, 0x7FFFFFFF}
					seqOK := true
					for i, st := range []setter{a, b, d} {
						if err := st.call(c, vals[i], wm); err != nil {
							rep("setter-sequence-error:"+st.name, "%s after %d other setters on the same client returned %v", st.name, i, err)
							seqOK = false
							break
						}
						if len(sim.Sends) != i+1 {
							rep("setter-sequence-count", "%d requests after %d setter calls", len(sim.Sends), i+1)
							seqOK = false
							break
						}
						s := sim.Sends[i]
						want := make([]byte, sizeofStatus)
						binary.LittleEndian.PutUint32(want[offMask:], st.mask)
						wv := st.val(vals[i])
						if st.dom == "bool" {
							wv = 1
						}
						binary.LittleEndian.PutUint32(want[st.off:], wv)
						if s.Type != uapiAuditSet || string(s.Data) != string(want) {
							rep("setter-sequence-payload:"+st.name, "%s as call %d on a client that already ran %s: payload % x, want % x (state leaked from an earlier call?)", st.name, i+1, a.name, s.Data, want)
							seqOK = false
							break
						}
					}
					evals++
					if seqOK {
						nontrivial++
					}
				}
			}
		}
	}
	run.Sample("SetBacklogWaitTime(int32(-1), NoWait) => one AUDIT_SET(1001) flags 0x5, 44 bytes: mask=0x20 at 0, 0xffffffff at 36, zeros elsewhere")
	// 2. GetStatus: request + every field from its own offset
	pats := [][11]uint32{}
	for i := 0; i < 11; i++ {
		var p [11]uint32
		p[i] = 0xFFFFFFFF
		pats = append(pats, p)
		var q [11]uint32
		q[i] = uint32(0x01000000 + i + 1)
		pats = append(pats, q)
	}
	var inc [11]uint32
	for i := range inc {
		inc[i] = uint32(0x11111111 * uint32(i+1))
	}
	pats = append(pats, inc, [11]uint32{})
	for _, p := range pats {
		sim := ksim.New(nil)
		sim.NoDeviations = true
		sim.Status = p
		c := &libaudit.AuditClient{Netlink: sim}
		st, err := c.GetStatus()
		evals++
		if err != nil || st == nil {
			rep("getstatus-error", "GetStatus returned %v for status %v", err, p)
			continue
		}
		got := [11]uint32{uint32(st.Mask), st.Enabled, st.Failure, st.PID, st.RateLimit, st.BacklogLimit, st.Lost, st.Backlog, st.FeatureBitmap, st.BacklogWaitTime, st.BacklogWaitTimeActual}
		if got != p {
			rep("getstatus-layout", "GetStatus decoded %v from a kernel status laid out as %v (UAPI field order mask,enabled,failure,pid,rate_limit,backlog_limit,lost,backlog,feature_bitmap,backlog_wait_time,backlog_wait_time_actual)", got, p)
		} else {
			nontrivial++
		}
		s := sim.Sends[0]
		if len(sim.Sends) != 1 || s.Type != uapiAuditGet || s.Flags != syscall.NLM_F_REQUEST|syscall.NLM_F_ACK || len(s.Data) != 0 {
			rep("getstatus-request", "GetStatus sent %d requests; first: type %d flags %#x payload %d bytes; want one AUDIT_GET=1000 with REQUEST|ACK and no payload", len(sim.Sends), s.Type, s.Flags, len(s.Data))
		}
	}
	// transient receive failures before the acknowledgement AND between it and the reply (each position within
	// the tolerated budget, any combination): GetStatus still returns the kernel's fields
	for _, fa := range []int{0, 1, 2, 3, 4} { // deliver, 1-EINTR, 9-EINTR, 9-EAGAIN, 9-alternating
		for _, fd := range []int{0, 1, 2, 3, 4} {
			for _, evs := range []int{0, 1, 2} { // unsolicited events in front of the reply, too
				sim := ksim.New(labelChooser{"fail-before-ack": fa, "fail-before-data": fd, "events-before-data": evs, "fail-after-events-data": fd})
				sim.Status = inc
				c := &libaudit.AuditClient{Netlink: sim}
				st, err := c.GetStatus()
				evals++
				if err != nil || st == nil {
					rep("getstatus-error-under-tolerated-faults", "GetStatus returned %v although the kernel acknowledged and replied; transient failures injected: %v (each within the tolerated budget) | kernel log: %s", err, devNames(sim.Devs), tailStr(strings.Join(sim.Log, " "), 600))
					continue
				}
				got := [11]uint32{uint32(st.Mask), st.Enabled, st.Failure, st.PID, st.RateLimit, st.BacklogLimit, st.Lost, st.Backlog, st.FeatureBitmap, st.BacklogWaitTime, st.BacklogWaitTimeActual}
				if got != inc {
					rep("getstatus-layout", "GetStatus under transient failures %v decoded %v, kernel sent %v", devNames(sim.Devs), got, inc)
					continue
				}
				nontrivial++
			}
		}
	}
	// the AUDIT_GET reply overtakes its acknowledgement (the kernel never does that): refusing is fine,
	// success must still carry the kernel's fields - with ONE reused receive buffer a reply that is only
	// remembered by reference is overwritten by the acknowledgement read after it
	for _, p := range pats {
		sim := ksim.New(labelChooser{"replace-ack": 5})
		sim.Status = p
		c := &libaudit.AuditClient{Netlink: sim}
		st, err := c.GetStatus()
		evals++
		dataFirst := false
		for _, d := range sim.Devs {
			if d == ksim.DevDataFirst {
				dataFirst = true
			}
		}
		if !dataFirst {
			rep("harness", "data-before-ack was not injected (menu changed?)")
			break
		}
		if err == nil && st != nil {
			got := [11]uint32{uint32(st.Mask), st.Enabled, st.Failure, st.PID, st.RateLimit, st.BacklogLimit, st.Lost, st.Backlog, st.FeatureBitmap, st.BacklogWaitTime, st.BacklogWaitTimeActual}
			if got != p {
				rep("getstatus-reordered-reply", "the AUDIT_GET reply arrived before its acknowledgement; GetStatus reported success with %v, the kernel sent %v", got, p)
				continue
			}
		}
		nontrivial++
	}
	// GetStatus with reply payloads of every length 0..80: shorter than the 2.6.32 layout must be
	// an error, longer ones decode the fields present (rest zero), the tail is ignored
	for n := 0; n <= 80; n++ {
		raw := make([]byte, n)
		for i := range raw {
			raw[i] = byte(0x11 + i)
		}
		sim := ksim.New(nil)
		sim.NoDeviations = true
		sim.StatusRaw = raw
		sim.Guard = true // the reply ends on the last byte of a mapped page
		c := &libaudit.AuditClient{Netlink: sim}
		var st *libaudit.AuditStatus
		var err error
		if r := guard.Call(func() { st, err = c.GetStatus() }); r != nil {
			rep("getstatus-reads-outside", "GetStatus on a %d-byte reply placed against an inaccessible page panicked/faulted: %v", n, r)
			continue
		}
		evals++
		if n < minStatus {
			if err == nil || st != nil {
				rep("getstatus-short-reply-accepted", "GetStatus accepted an AUDIT_GET reply with a %d-byte payload (< 32) and returned %+v", n, st)
			} else if !errors.Is(err, io.ErrUnexpectedEOF) {
				rep("getstatus-short-reply-error", "GetStatus on a %d-byte reply returned %v, want an error wrapping io.ErrUnexpectedEOF", n, err)
			} else {
				nontrivial++
			}
			continue
		}
		if err != nil || st == nil {
			rep("getstatus-reply-rejected", "GetStatus rejected a %d-byte reply: %v", n, err)
			continue
		}
		var want [11]uint32
		for i := 0; i < 11; i++ {
			var b4 [4]byte
			if 4*i < n {
				copy(b4[:], raw[4*i:])
			}
			want[i] = binary.LittleEndian.Uint32(b4[:])
		}
		got := [11]uint32{uint32(st.Mask), st.Enabled, st.Failure, st.PID, st.RateLimit, st.BacklogLimit, st.Lost, st.Backlog, st.FeatureBitmap, st.BacklogWaitTime, st.BacklogWaitTimeActual}
		if got != want {
			rep("getstatus-reply-decode", "GetStatus on a %d-byte reply decoded %x, want %x", n, got, want)
			continue
		}
		nontrivial++
	}
	// the same lengths when the reply's nlmsg_len says MORE than arrived (a header that announces the full layout, a
	// rounded-up length) on a client whose receive buffer still holds an earlier, longer reply: fields the reply did not
	// reach are zero - not what the header promises, not what was in the buffer before
	for n := minStatus; n <= 60; n++ {
		for _, delta := range []int{4, 8, 12, 16, 28, 60 - 16 - n, 1 << 16, -4, -16} {
			if delta == 0 {
				continue
			}
			raw := make([]byte, n)
			for i := range raw {
				raw[i] = byte(0x11 + i)
			}
			sim := ksim.New(nil)
			sim.NoDeviations = true
			full := make([]byte, 60)
			for i := range full {
				full[i] = 0xEE
			}
			sim.StatusRaw = full
			c := &libaudit.AuditClient{Netlink: sim}
			if _, err := c.GetStatus(); err != nil {
				rep("getstatus-reply-rejected", "GetStatus rejected a 60-byte reply: %v", err)
				break
			}
			sim.StatusRaw = raw
			sim.Shape.LenDelta = delta
			st, err := c.GetStatus()
			evals++
			if err != nil || st == nil {
				if delta < 0 {
					continue // a header that understates the length: refusing the reply is an answer, too
				}
				rep("getstatus-reply-rejected", "GetStatus rejected a %d-byte reply whose nlmsg_len says %d more than arrived: %v", n, delta, err)
				continue
			}
			var want [11]uint32
			for i := 0; i < 11; i++ {
				var b4 [4]byte
				if 4*i < n {
					copy(b4[:], raw[4*i:])
				}
				want[i] = binary.LittleEndian.Uint32(b4[:])
			}
			got := [11]uint32{uint32(st.Mask), st.Enabled, st.Failure, st.PID, st.RateLimit, st.BacklogLimit, st.Lost, st.Backlog, st.FeatureBitmap, st.BacklogWaitTime, st.BacklogWaitTimeActual}
			if got != want && delta > 0 {
				rep("getstatus-reply-decode-beyond-received", "a %d-byte AUDIT_GET reply whose nlmsg_len says %d more than arrived (after an earlier 60-byte reply of 0xEE bytes on the same client) decoded %x, want %x: only bytes that arrived count", n, delta, got, want)
				continue
			}
			nontrivial++
		}
	}
	// what the kernel reports about the daemon does not decide what a setter sends: GetStatus whose reply names THIS process
	// (or another, or none) as the audit daemon, then every setter in both modes: exactly one AUDIT_SET each
	for _, daemon := range []uint32{uint32(syscall.Getpid()), 1, 0, uint32(syscall.Getppid())} {
		for _, st := range setters() {
			for _, wm := range []libaudit.WaitMode{libaudit.WaitForReply, libaudit.NoWait} {
				for _, twice := range []bool{false, true} {
					sim := ksim.New(nil)
					sim.NoDeviations = true
					sim.Status[3] = daemon
					c := &libaudit.AuditClient{Netlink: sim}
					if _, err := c.GetStatus(); err != nil {
						continue
					}
					if twice {
						_, _ = c.GetStatus()
					}
					before := len(sim.Sends)
					identityPid = uint32(syscall.Getpid())
					err := st.call(c, 1, wm)
					evals++
					sets := 0
					for _, s := range sim.Sends[before:] {
						if s.Type == uapiAuditSet {
							sets++
						}
					}
					if err != nil || sets != 1 {
						rep("setter-request-count-after-getstatus:"+st.name, "GetStatus (the kernel names pid %d as the audit daemon; this process is %d), then %s(mode %d): %d AUDIT_SET requests were sent (error %v), want exactly 1", daemon, syscall.Getpid(), st.name, wm, sets, err)
						continue
					}
					nontrivial++
				}
			}
		}
	}
	// every reply length 32..48 x every field the reply holds x every value 0..600 and every single bit,
	// the other fields at a fixed pattern: the field comes back as sent, whatever its value and the layout
	for L := 32; L <= 48; L++ {
		for f := 0; 4*f+4 <= L && f < 11; f++ {
			var vals []uint32
			for v := uint32(0); v <= 600; v++ {
				vals = append(vals, v)
			}
			for b := 0; b < 32; b++ {
				vals = append(vals, 1<<b, ^uint32(1<<b))
			}
			for _, v := range vals {
				raw := make([]byte, L)
				for i := range raw {
					raw[i] = byte(0x31 + i)
				}
				binary.LittleEndian.PutUint32(raw[4*f:], v)
				sim := ksim.New(nil)
				sim.NoDeviations = true
				sim.StatusRaw = raw
				c := &libaudit.AuditClient{Netlink: sim}
				st, err := c.GetStatus()
				evals++
				if err != nil || st == nil {
					rep("getstatus-reply-rejected", "GetStatus rejected a %d-byte reply with field %d = %d: %v", L, f, v, err)
					break
				}
				got := [11]uint32{uint32(st.Mask), st.Enabled, st.Failure, st.PID, st.RateLimit, st.BacklogLimit, st.Lost, st.Backlog, st.FeatureBitmap, st.BacklogWaitTime, st.BacklogWaitTimeActual}
				var want [11]uint32
				for i := 0; i < 11; i++ {
					var b4 [4]byte
					if 4*i < L {
						copy(b4[:], raw[4*i:])
					}
					want[i] = binary.LittleEndian.Uint32(b4[:])
				}
				if got != want {
					rep("getstatus-field-value", "GetStatus on a %d-byte reply whose field %d is %d decoded %v, the kernel laid out %v", L, f, v, got, want)
					break
				}
				nontrivial++
			}
		}
	}
	// state carried from a reply into later requests: GetStatus (reply of length L) then every
	// setter on the SAME client, both wait modes: the request is still a full-size audit_status
	for _, L := range []int{32, 33, 36, 40, 43, 44, 48, 64} {
		for _, st := range setters() {
			for _, wm := range []libaudit.WaitMode{libaudit.WaitForReply, libaudit.NoWait} {
				raw := make([]byte, L)
				for i := range raw {
					raw[i] = byte(0x21 + i)
				}
				sim := ksim.New(nil)
				sim.NoDeviations = true
				sim.StatusRaw = raw
				c := &libaudit.AuditClient{Netlink: sim}
				if _, err := c.GetStatus(); err != nil {
					rep("getstatus-reply-rejected", "GetStatus rejected a %d-byte reply: %v", L, err)
					continue
				}
				before := len(sim.Sends)
				v := uint32(0x5A5A5A5A)
				err := st.call(c, v, wm)
				evals++
				if err != nil || len(sim.Sends) != before+1 {
					rep("setter-after-getstatus:"+st.name, "%s after a GetStatus with a %d-byte reply: err=%v, %d requests", st.name, L, err, len(sim.Sends)-before)
					continue
				}
				s := sim.Sends[before]
				want := make([]byte, sizeofStatus)
				binary.LittleEndian.PutUint32(want[offMask:], st.mask)
				wv := st.val(v)
				binary.LittleEndian.PutUint32(want[st.off:], wv)
				if s.Type != uapiAuditSet || string(s.Data) != string(want) {
					rep("setter-after-getstatus:"+st.name, "%s after a GetStatus whose reply had %d bytes: %d-byte payload % x, want the full %d-byte audit_status % x", st.name, L, len(s.Data), s.Data, sizeofStatus, want)
					continue
				}
				nontrivial++
			}
		}
	}
	// GetStatusAsync flags
	for _, ack := range []bool{true, false} {
		sim := ksim.New(nil)
		c := &libaudit.AuditClient{Netlink: sim}
		seq, err := c.GetStatusAsync(ack)
		evals++
		want := uint16(syscall.NLM_F_REQUEST)
		if ack {
			want |= syscall.NLM_F_ACK
		}
		if err != nil || len(sim.Sends) != 1 || sim.Sends[0].Type != uapiAuditGet || sim.Sends[0].Flags != want || sim.Sends[0].Seq != seq {
			rep("getstatusasync-request", "GetStatusAsync(%v) = (%d,%v), sent %+v", ack, seq, err, sim.Sends)
		}
	}
	// 3. exported numbers
	consts := []struct {
		name string
		got  uint64
		want uint64
	}{
		{"AuditGet", uint64(libaudit.AuditGet), 1000}, {"AuditSet", uint64(libaudit.AuditSet), 1001},
		{"AuditStatusEnabled", uint64(libaudit.AuditStatusEnabled), maskEnabled}, {"AuditStatusFailure", uint64(libaudit.AuditStatusFailure), maskFailure},
		{"AuditStatusPID", uint64(libaudit.AuditStatusPID), maskPID}, {"AuditStatusRateLimit", uint64(libaudit.AuditStatusRateLimit), maskRateLimit},
		{"AuditStatusBacklogLimit", uint64(libaudit.AuditStatusBacklogLimit), maskBacklogLimit}, {"AuditStatusBacklogWaitTime", uint64(libaudit.AuditStatusBacklogWaitTime), maskBacklogWaitTime},
		{"AuditStatusLost", uint64(libaudit.AuditStatusLost), maskLost},
		{"AuditFeatureBitmapBacklogLimit", uint64(libaudit.AuditFeatureBitmapBacklogLimit), 0x01}, {"AuditFeatureBitmapBacklogWaitTime", uint64(libaudit.AuditFeatureBitmapBacklogWaitTime), 0x02},
		{"AuditFeatureBitmapExecutablePath", uint64(libaudit.AuditFeatureBitmapExecutablePath), 0x04}, {"AuditFeatureBitmapExcludeExtend", uint64(libaudit.AuditFeatureBitmapExcludeExtend), 0x08},
		{"AuditFeatureBitmapSessionIDFilter", uint64(libaudit.AuditFeatureBitmapSessionIDFilter), 0x10}, {"AuditFeatureBitmapLostReset", uint64(libaudit.AuditFeatureBitmapLostReset), 0x20},
		{"SilentOnFailure", uint64(libaudit.SilentOnFailure), 0}, {"LogOnFailure", uint64(libaudit.LogOnFailure), 1}, {"PanicOnFailure", uint64(libaudit.PanicOnFailure), 2},
		{"AuditMessageMaxLength", uint64(libaudit.AuditMessageMaxLength), 8970}, {"MinSizeofAuditStatus", uint64(libaudit.MinSizeofAuditStatus), minStatus},
	}
	for _, c := range consts {
		evals++
		if c.got != c.want {
			rep("const:"+c.name, "exported constant %s = %d, the kernel's number is %d", c.name, c.got, c.want)
		} else {
			nontrivial++
		}
	}
	// 4. FromWireFormat: every length 0..80 x content patterns x two placements
	for n := 0; n <= 80; n++ {
		for pat := 0; pat < 3; pat++ {
			content := make([]byte, n)
			for i := range content {
				switch pat {
				case 0:
					content[i] = byte(i + 1)
				case 1:
					content[i] = 0xFF
				case 2:
					content[i] = byte(0x80 ^ i*7)
				}
			}
			var results [6]libaudit.AuditStatus
			var errs [6]error
			nPlace := 5
			var inPlace *libaudit.AuditStatus
			if n >= int(unsafe.Sizeof(libaudit.AuditStatus{})) {
				nPlace = 6 // also decoded IN PLACE: the caller read the datagram straight into the struct's own memory
			}
			for place := 0; place < nPlace; place++ {
				var buf []byte
				switch place {
				case 5:
					arr := make([]uint32, (n+3)/4+4)
					raw := unsafe.Slice((*byte)(unsafe.Pointer(&arr[0])), n)
					copy(raw, content)
					buf = raw
					inPlace = (*libaudit.AuditStatus)(unsafe.Pointer(&arr[0]))
				case 3:
					// last byte on the last byte of a page, the next page inaccessible
					buf = guardRegion().AtEnd(content)
				case 4:
					// first byte on the first byte of a page, the previous page inaccessible
					buf = guardRegion().AtStart(content)
				case 0:
					buf = make([]byte, n) // cap == len
					copy(buf, content)
					buf = buf[:n:n]
				default:
					big := make([]byte, n+128)
					poison := byte(0xAA)
					if place == 2 {
						poison = 0x55
					}
					for i := range big {
						big[i] = poison
					}
					copy(big[32:], content)
					buf = big[32 : 32+n]
				}
				results[place] = libaudit.AuditStatus{Mask: 0xDEAD, Enabled: 0xDEAD, Failure: 0xDEAD, PID: 0xDEAD, RateLimit: 0xDEAD, BacklogLimit: 0xDEAD, Lost: 0xDEAD, Backlog: 0xDEAD, FeatureBitmap: 0xDEAD, BacklogWaitTime: 0xDEAD, BacklogWaitTimeActual: 0xDEAD}
				target := &results[place]
				if place == 5 {
					target = inPlace
				}
				if r := guard.Call(func() { errs[place] = target.FromWireFormat(buf) }); r != nil {
					errs[place] = fmt.Errorf("panic: %v", r)
					if place >= 3 {
						rep("fromwire-reads-outside", "FromWireFormat on a %d-byte buffer placed against an inaccessible page (placement %d) faulted: it touches memory outside the buffer: %v", n, place, r)
					} else {
						rep("fromwire-panic", "FromWireFormat panicked on a %d-byte buffer: %v", n, r)
					}
				}
			}
			evals++
			if n < minStatus {
				for place := 0; place < 5; place++ {
					if !errors.Is(errs[place], io.ErrUnexpectedEOF) {
						rep("fromwire-short-accepted", "FromWireFormat on %d bytes (< 32) returned %v, want io.ErrUnexpectedEOF", n, errs[place])
						break
					}
				}
				continue
			}
			if errs[0] != nil {
				rep("fromwire-rejected", "FromWireFormat on %d bytes (>= 32) returned %v", n, errs[0])
				continue
			}
			var want [11]uint32
			for i := 0; i < 11; i++ {
				if 4*i+4 <= n {
					want[i] = binary.LittleEndian.Uint32(content[4*i:])
				} else if 4*i < n {
					// a partially covered field: bytes present, rest zero
					var b [4]byte
					copy(b[:], content[4*i:])
					want[i] = binary.LittleEndian.Uint32(b[:])
				}
			}
			if nPlace == 6 {
				results[5] = *inPlace
			}
			for place := 0; place < nPlace; place++ {
				st := results[place]
				got := [11]uint32{uint32(st.Mask), st.Enabled, st.Failure, st.PID, st.RateLimit, st.BacklogLimit, st.Lost, st.Backlog, st.FeatureBitmap, st.BacklogWaitTime, st.BacklogWaitTimeActual}
				if got != want {
					rep("fromwire-decode", "FromWireFormat(%d bytes, placement %d) decoded %x, want %x (fields beyond the buffer zero, nothing read outside it, tail ignored)", n, place, got, want)
					break
				}
			}
			nontrivial++
		}
	}
	run.Sample("FromWireFormat(36-byte buffer inside a poisoned array) => 9 fields decoded, BacklogWaitTime and BacklogWaitTimeActual zero")
	stackPass(run, "C16")
	run.Set("evaluations", evals)
	run.Set("distinct_nontrivial", nontrivial)
	run.Set("rule", "every setter x value domain (all one-bit and all-but-one-bit values, boundaries, all 2^10 (quick) / 2^16 (thorough) low-half and high-half values) x both wait modes decoded at fixed UAPI offsets; GetStatus over one-hot field patterns; 20 exported constants against numbers transcribed from linux/audit.h; FromWireFormat over every length 0..80 x 3 contents x 5 placements (cap==len, inside 0xAA poison, inside 0x55 poison, flush against an inaccessible page at the end / at the start: an access outside the buffer faults); GetStatus replies of every length 0..80 flush against an inaccessible page; an AUDIT_GET reply that overtakes its acknowledgement. non-trivial = case with a non-zero value/field that matched the independent expectation")
	run.Set("exhaustive", true)
	run.Assume("little-endian host (amd64); expectations come from refdata transcriptions of linux/audit.h, not from the library's constants")
	return run.Finish()
}
