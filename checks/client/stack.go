package main

import (
	"encoding/binary"
	"fmt"
	"syscall"

	libaudit "github.com/elastic/go-libaudit/v2"
	"github.com/elastic/go-libaudit/v2/vshim/vsys"

	"verif/engine/ev"
	"verif/engine/ksim"
)

// sockKernel is the simulated audit kernel one layer further down: behind the SOCKET seam (vsys), so that the
// library's own NetlinkClient sits between AuditClient and the simulation.  The socket() call answers with a
// descriptor the harness chooses - 0, 1, 2 included: a daemon started with its standard streams closed gets
// those - and a port id; everything sent is handed to a ksim.Sim, what it queues is served by recvfrom.
type sockKernel struct {
	fd     int
	port   uint32
	sim    *ksim.Sim
	closed []int
	badFD  int
}

func (k *sockKernel) Socket(domain, typ, proto int) (int, error) { return k.fd, nil }
func (k *sockKernel) Bind(fd int, sa syscall.Sockaddr) error {
	if fd != k.fd {
		k.badFD++
	}
	return nil
}
func (k *sockKernel) Getsockname(fd int) (syscall.Sockaddr, error) {
	return &syscall.SockaddrNetlink{Family: syscall.AF_NETLINK, Pid: k.port}, nil
}
func (k *sockKernel) Sendto(fd int, p []byte, flags int, to syscall.Sockaddr) error {
	if fd != k.fd {
		k.badFD++
		return syscall.EBADF
	}
	if len(p) < 16 {
		return syscall.EINVAL
	}
	msg := syscall.NetlinkMessage{Header: syscall.NlMsghdr{Len: binary.LittleEndian.Uint32(p), Type: binary.LittleEndian.Uint16(p[4:]), Flags: binary.LittleEndian.Uint16(p[6:]), Seq: binary.LittleEndian.Uint32(p[8:]), Pid: binary.LittleEndian.Uint32(p[12:])}, Data: append([]byte{}, p[16:]...)}
	// the kernel echoes the sender's sequence number: make the simulation do the same
	k.sim.Seq = msg.Header.Seq - 1
	_, err := k.sim.Send(msg)
	return err
}
func (k *sockKernel) Recvfrom(fd int, p []byte, flags int) (int, syscall.Sockaddr, error) {
	if fd != k.fd {
		k.badFD++
		return 0, nil, syscall.EBADF
	}
	if len(k.sim.Q) == 0 {
		return 0, nil, syscall.EAGAIN
	}
	d := k.sim.Q[0]
	k.sim.Q = k.sim.Q[1:]
	n := copy(p, d.Bytes)
	return n, &syscall.SockaddrNetlink{Family: syscall.AF_NETLINK, Pid: 0}, nil
}
func (k *sockKernel) Close(fd int) error {
	k.closed = append(k.closed, fd)
	return nil
}

// stackPass: GetStatus, a setter in both modes, GetRules and Close through AuditClient -> NetlinkClient -> socket
// seam, for socket descriptors 0, 1, 2, 3, 7, 1023 and port ids 0, 1, the pid, 2^32-1.
func stackPass(run *ev.Run, prop string) {
	for _, fd := range []int{0, 1, 2, 3, 7, 1023} {
		for _, port := range []uint32{0, 1, uint32(syscall.Getpid()), 1<<32 - 1} {
			k := &sockKernel{fd: fd, port: port, sim: ksim.New(nil)}
			k.sim.NoDeviations = true
			k.sim.Rules = simRules(2)
			for i := range k.sim.Status {
				k.sim.Status[i] = uint32(0x01010101 * (i + 1))
			}
			vsys.Install(k)
			nl, err := libaudit.NewNetlinkClient(syscall.NETLINK_AUDIT, 0, nil, nil)
			rep := func(sig, format string, a ...interface{}) {
				run.Report(ev.Violation{Sig: prop + " " + sig, What: fmt.Sprintf("AuditClient over the library's NetlinkClient over a simulated socket layer that answered socket() with descriptor %d and port id %d: ", fd, port) + fmt.Sprintf(format, a...), Replay: map[string]interface{}{"fd": fd, "port": port}})
			}
			if err != nil {
				rep("stack-new-client", "NewNetlinkClient failed: %v", err)
				vsys.Uninstall()
				continue
			}
			c := &libaudit.AuditClient{Netlink: nl}
			st, err := c.GetStatus()
			if err != nil || st == nil {
				rep("stack-getstatus", "GetStatus returned %v although the kernel acknowledged and replied", err)
			} else if st.Enabled != 0x02020202 || uint32(st.Mask) != 0x01010101 {
				rep("stack-getstatus", "GetStatus returned %+v", st)
			}
			before := len(k.sim.Sends)
			if err := c.SetRateLimit(9, libaudit.WaitForReply); err != nil || len(k.sim.Sends) != before+1 {
				rep("stack-setter", "SetRateLimit(WaitForReply) returned %v, %d requests reached the kernel", err, len(k.sim.Sends)-before)
			}
			before = len(k.sim.Sends)
			if err := c.SetBacklogLimit(8, libaudit.NoWait); err != nil || len(k.sim.Sends) != before+1 {
				rep("stack-setter", "SetBacklogLimit(NoWait) returned %v, %d requests reached the kernel", err, len(k.sim.Sends)-before)
			}
			if err := c.WaitForPendingACKs(); err != nil {
				rep("stack-wait", "WaitForPendingACKs returned %v", err)
			}
			rules, err := c.GetRules()
			if err != nil || !sameRules(rules, simRules(2)) {
				rep("stack-getrules", "GetRules returned %d rules, err %v", len(rules), err)
			}
			if err := c.Close(); err != nil || len(k.closed) != 1 || k.closed[0] != fd {
				rep("stack-close", "Close returned %v and closed descriptors %v, want [%d]", err, k.closed, fd)
			}
			if k.badFD > 0 {
				rep("stack-wrong-descriptor", "%d socket calls were made on a descriptor other than the socket's", k.badFD)
			}
			vsys.Uninstall()
			run.Add("traces_validated_against_impl", 1)
			run.Add("transitions", 6)
		}
	}
	run.Set("stack_pass", "AuditClient -> NetlinkClient -> socket seam for descriptors 0,1,2,3,7,1023 x 4 port ids")
}
