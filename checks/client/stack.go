package main

import (
	"errors"
	"reflect"
	"runtime"
	"sort"
	"time"

	"encoding/binary"
	"fmt"
	"syscall"
	"verif/engine/guard"

	libaudit "github.com/elastic/go-libaudit/v2"
	"github.com/elastic/go-libaudit/v2/vshim/vsys"

	"verif/engine/ev"
	"verif/engine/ksim"
)

// sockKernel is the simulated audit kernel one layer further down: behind the SOCKET seam (vsys), so that the
// library's own NetlinkClient sits between AuditClient and the simulation.  The socket() call answers with a
// descriptor the harness chooses - 0, 1, 2 included: a daemon started with its standard streams closed gets
// those - and a port id; everything sent is handed to a ksim.Sim, what it queues is served by recvfrom.
type sockKernel struct {
	fd     int
	port   uint32
	sim    *ksim.Sim
	closed []int
	badFD  int
	domain int
	proto  int
	groups int64 // multicast groups the socket was bound with (-1: never bound)
}

func (k *sockKernel) Socket(domain, typ, proto int) (int, error) {
	k.domain, k.proto = domain, proto
	return k.fd, nil
}
func (k *sockKernel) Bind(fd int, sa syscall.Sockaddr) error {
	if fd != k.fd {
		k.badFD++
	}
	if nl, ok := sa.(*syscall.SockaddrNetlink); ok {
		k.groups = int64(nl.Groups)
	}
	return nil
}
func (k *sockKernel) Getsockname(fd int) (syscall.Sockaddr, error) {
	return &syscall.SockaddrNetlink{Family: syscall.AF_NETLINK, Pid: k.port}, nil
}
func (k *sockKernel) Sendto(fd int, p []byte, flags int, to syscall.Sockaddr) error {
	if fd != k.fd {
		k.badFD++
		return syscall.EBADF
	}
	if len(p) < 16 {
		return syscall.EINVAL
	}
	msg := syscall.NetlinkMessage{Header: syscall.NlMsghdr{Len: binary.LittleEndian.Uint32(p), Type: binary.LittleEndian.Uint16(p[4:]), Flags: binary.LittleEndian.Uint16(p[6:]), Seq: binary.LittleEndian.Uint32(p[8:]), Pid: binary.LittleEndian.Uint32(p[12:])}, Data: append([]byte{}, p[16:]...)}
	// the kernel echoes the sender's sequence number: make the simulation do the same
	k.sim.Seq = msg.Header.Seq - 1
	_, err := k.sim.Send(msg)
	return err
}
func (k *sockKernel) Recvfrom(fd int, p []byte, flags int) (int, syscall.Sockaddr, error) {
	if fd != k.fd {
		k.badFD++
		return 0, nil, syscall.EBADF
	}
	if len(k.sim.Q) == 0 {
		return 0, nil, syscall.EAGAIN
	}
	d := k.sim.Q[0]
	k.sim.Q = k.sim.Q[1:]
	n := copy(p, d.Bytes)
	return n, &syscall.SockaddrNetlink{Family: syscall.AF_NETLINK, Pid: 0}, nil
}
func (k *sockKernel) Close(fd int) error {
	k.closed = append(k.closed, fd)
	return nil
}

type countWriter struct{ n int }

func (w *countWriter) Write(p []byte) (int, error) { w.n += len(p); return len(p), nil }

// stackPass: GetStatus, a setter in both modes, GetRules and Close through AuditClient -> NetlinkClient -> socket
// seam, for socket descriptors 0, 1, 2, 3, 7, 1023 and port ids 0, 1, the pid, 2^32-1.
func stackPass(run *ev.Run, prop string) {
	for _, fd := range []int{0, 1, 2, 3, 7, 1023} {
		for pi, port := range []uint32{0, 1, uint32(syscall.Getpid()), 1<<32 - 1} {
			for ctor := 0; ctor < 4; ctor++ {
				if ctor > 0 && (pi+fd)%2 == 1 {
					continue
				}
				k := &sockKernel{fd: fd, port: port, sim: ksim.New(nil), groups: -1}
				k.sim.NoDeviations = true
				k.sim.Rules = simRules(2)
				for i := range k.sim.Status {
					k.sim.Status[i] = uint32(0x01010101 * (i + 1))
				}
				vsys.Install(k)
				// the exported constructors, too (the socket seam is installed: nothing real is opened): unicast client,
				// multicast reader (bound to the read-log group), a client with a debug writer
				var nl libaudit.NetlinkSendReceiver
				var c *libaudit.AuditClient
				var err error
				var dbg countWriter
				wantGroups := int64(0)
				switch ctor {
				case 0:
					nl, err = libaudit.NewNetlinkClient(syscall.NETLINK_AUDIT, 0, nil, nil)
				case 1:
					c, err = libaudit.NewAuditClient(nil)
				case 2:
					c, err = libaudit.NewMulticastAuditClient(nil)
					wantGroups = 1 // AUDIT_NLGRP_READLOG
				case 3:
					c, err = libaudit.NewAuditClient(&dbg)
				}
				rep := func(sig, format string, a ...interface{}) {
					run.Report(ev.Violation{Sig: prop + " " + sig, What: fmt.Sprintf("AuditClient over the library's NetlinkClient over a simulated socket layer that answered socket() with descriptor %d and port id %d: ", fd, port) + fmt.Sprintf(format, a...), Replay: map[string]interface{}{"fd": fd, "port": port}})
				}
				if err != nil {
					rep("stack-new-client", "NewNetlinkClient failed: %v", err)
					vsys.Uninstall()
					continue
				}
				if c == nil {
					c = &libaudit.AuditClient{Netlink: nl}
				}
				if k.domain != syscall.AF_NETLINK || k.proto != syscall.NETLINK_AUDIT || k.groups != wantGroups {
					rep("stack-socket-parameters", "constructor %d opened socket(domain %d, protocol %d) bound to groups %#x, want AF_NETLINK (%d), NETLINK_AUDIT (%d), groups %#x", ctor, k.domain, k.proto, k.groups, syscall.AF_NETLINK, syscall.NETLINK_AUDIT, wantGroups)
				}
				st, err := c.GetStatus()
				if err != nil || st == nil {
					rep("stack-getstatus", "GetStatus returned %v although the kernel acknowledged and replied", err)
				} else if st.Enabled != 0x02020202 || uint32(st.Mask) != 0x01010101 {
					rep("stack-getstatus", "GetStatus returned %+v", st)
				}
				before := len(k.sim.Sends)
				if err := c.SetRateLimit(9, libaudit.WaitForReply); err != nil || len(k.sim.Sends) != before+1 {
					rep("stack-setter", "SetRateLimit(WaitForReply) returned %v, %d requests reached the kernel", err, len(k.sim.Sends)-before)
				}
				before = len(k.sim.Sends)
				if err := c.SetBacklogLimit(8, libaudit.NoWait); err != nil || len(k.sim.Sends) != before+1 {
					rep("stack-setter", "SetBacklogLimit(NoWait) returned %v, %d requests reached the kernel", err, len(k.sim.Sends)-before)
				}
				if err := c.WaitForPendingACKs(); err != nil {
					rep("stack-wait", "WaitForPendingACKs returned %v", err)
				}
				rules, err := c.GetRules()
				if err != nil || !sameRules(rules, simRules(2)) {
					rep("stack-getrules", "GetRules returned %d rules, err %v", len(rules), err)
				}
				if err := c.Close(); err != nil || len(k.closed) != 1 || k.closed[0] != fd {
					rep("stack-close", "Close returned %v and closed descriptors %v, want [%d]", err, k.closed, fd)
				}
				if ctor == 3 && dbg.n == 0 {
					rep("stack-debug-writer", "the debug writer given to NewAuditClient received nothing although datagrams were read")
				}
				if k.badFD > 0 {
					rep("stack-wrong-descriptor", "%d socket calls were made on a descriptor other than the socket's", k.badFD)
				}
				vsys.Uninstall()
				run.Add("traces_validated_against_impl", 1)
				run.Add("transitions", 6)
			}
		}
	}
	run.Set("stack_pass", "AuditClient -> NetlinkClient -> socket seam for descriptors 0,1,2,3,7,1023 x 4 port ids")
}

// errnoDecoderPass: the exported decoder of an acknowledgement's payload, libaudit.ParseNetlinkError, for every payload
// length 0..12 x verdicts (0, every errno 1..133, 4095, positive and extreme words), the bytes placed flush against an
// inaccessible page at either end and at every alignment: shorter than a word => an error that is no errno; a zero word
// => nil; a negative word => exactly that errno (errors.Is and ==).
func errnoDecoderPass(run *ev.Run, prop string) {
	g := guardRegion()
	words := []int32{0, -4095, -4096, 1, 13, 1<<31 - 1, -1 << 31}
	for e := int32(1); e <= 133; e++ {
		words = append(words, -e)
	}
	n := 0
	for _, w := range words {
		for l := 0; l <= 12; l++ {
			for place := 0; place < 6; place++ {
				b := make([]byte, l)
				for i := range b {
					b[i] = 0xEE
				}
				if l >= 4 {
					binary.LittleEndian.PutUint32(b, uint32(w))
				} else {
					var full [4]byte
					binary.LittleEndian.PutUint32(full[:], uint32(w))
					copy(b, full[:l])
				}
				var in []byte
				switch {
				case g == nil || place == 0:
					in = b
				case place == 1:
					in = g.AtEnd(b)
				case place == 2:
					in = g.AtStart(b)
				default:
					// other alignments inside an array
					arr := make([]byte, l+8)
					in = arr[place-2 : place-2+l : place-2+l]
					copy(in, b)
				}
				var err error
				if r := guard.Call(func() { err = libaudit.ParseNetlinkError(in) }); r != nil {
					run.Report(ev.Violation{Sig: prop + " errno-decoder-fault", What: fmt.Sprintf("ParseNetlinkError on a %d-byte payload (placement %d) faulted: %v", l, place, r), Replay: map[string]interface{}{"len": l, "word": w}})
					return
				}
				n++
				var en syscall.Errno
				isErrno := errors.As(err, &en)
				switch {
				case l < 4:
					if err == nil || isErrno {
						run.Report(ev.Violation{Sig: prop + " errno-decoder-short", What: fmt.Sprintf("ParseNetlinkError on a %d-byte payload % x returned %v: too short to hold a verdict, the answer must be an error that names no errno", l, in, err), Replay: map[string]interface{}{"len": l, "word": w}})
						return
					}
				case w == 0:
					if err != nil {
						run.Report(ev.Violation{Sig: prop + " errno-decoder-zero", What: fmt.Sprintf("ParseNetlinkError on a zero verdict (%d bytes) returned %v", l, err), Replay: map[string]interface{}{"len": l}})
						return
					}
				case w < 0 && w > -4096:
					if !isErrno || en != syscall.Errno(-w) || err != syscall.Errno(-w) {
						run.Report(ev.Violation{Sig: prop + " errno-decoder-verdict", What: fmt.Sprintf("ParseNetlinkError on verdict %d (%d bytes, placement %d) returned %#v (%v), want errno %d", w, l, place, err, err, -w), Replay: map[string]interface{}{"len": l, "word": w}})
						return
					}
				default:
					if err == nil {
						run.Report(ev.Violation{Sig: prop + " errno-decoder-nonzero-nil", What: fmt.Sprintf("ParseNetlinkError on the non-zero word %d returned nil", w), Replay: map[string]interface{}{"len": l, "word": w}})
						return
					}
				}
			}
		}
	}
	run.Add("traces_validated_against_impl", int64(n))
	run.Set("errno_decoder_pass", fmt.Sprintf("%d payloads (lengths 0..12 x %d words x 6 placements)", n, len(words)))
}

// ---- what happens after the caller has let go -----------------------------------------------------------------

// runAndDrop executes a history on a fresh client and returns only the simulated kernel: when it returns, the client
// is unreachable.
//
//go:noinline
func runAndDrop(hist []string) *ksim.Sim {
	sim := ksim.New(nil)
	sim.NoDeviations = true
	c := &libaudit.AuditClient{Netlink: sim}
	for _, op := range hist {
		switch op {
		case "SetPID":
			_ = c.SetPID(libaudit.WaitForReply)
		case "SetPIDNoWait":
			_ = c.SetPID(libaudit.NoWait)
		case "Rate":
			_ = c.SetRateLimit(3, libaudit.NoWait)
		case "Wait":
			_ = c.WaitForPendingACKs()
		case "Status":
			_, _ = c.GetStatus()
		case "Rules":
			_, _ = c.GetRules()
		case "Close":
			_ = c.Close()
		}
	}
	return sim
}

// collectGarbage runs garbage collections until finalizers queued by them have had their turn: a sentinel object with its own
// finalizer is dropped in each round and waited for (the runtime runs finalizers one after the other on one goroutine),
// three rounds (an object revived by a finalizer is finalised a cycle later).  False if the runtime did not get there
// within a minute (then nothing is concluded).
func collectGarbage() bool {
	for round := 0; round < 3; round++ {
		done := make(chan struct{})
		func() {
			s := new([64]byte)
			runtime.SetFinalizer(s, func(*[64]byte) { close(done) })
		}()
		deadline := time.After(time.Minute)
		for finished := false; !finished; {
			runtime.GC()
			select {
			case <-done:
				finished = true
			case <-deadline:
				return false
			case <-time.After(5 * time.Millisecond):
			}
		}
	}
	return true
}

// afterlifePass: a client that was closed by its owner is DONE: when it later becomes unreachable and the garbage
// collector runs (finalizers, cleanups, weak references), nothing more reaches the kernel - no second close of a
// descriptor number that may long belong to something else, no request.  Every history of <=3 ops that ends with
// Close, observed through the simulated kernel after three collection rounds.
func afterlifePass(run *ev.Run, prop string) {
	ops := []string{"SetPID", "SetPIDNoWait", "Rate", "Wait", "Status", "Rules", "Close"}
	var hists [][]string
	var rec func(cur []string)
	rec = func(cur []string) {
		if len(cur) > 0 && cur[len(cur)-1] == "Close" {
			hists = append(hists, append([]string{}, cur...))
		}
		if len(cur) == 3 {
			return
		}
		for _, o := range ops {
			rec(append(cur, o))
		}
	}
	rec(nil)
	type obs struct {
		hist          []string
		sim           *ksim.Sim
		closes, sends int
	}
	var all []obs
	for _, h := range hists {
		sim := runAndDrop(h)
		all = append(all, obs{h, sim, sim.Closes, len(sim.Sends)})
	}
	if !collectGarbage() {
		run.Set("afterlife_pass", "skipped: the runtime did not run finalizers within a minute")
		return
	}
	for _, o := range all {
		if o.sim.Closes != o.closes || len(o.sim.Sends) != o.sends {
			run.Report(ev.Violation{Sig: prop + " activity-after-close-and-collection", What: fmt.Sprintf("history %v on a client that was then dropped: after the history the kernel had seen %d close(s) and %d request(s); after garbage collections it has seen %d close(s) and %d request(s) - something (a finalizer) acted for a client its owner had already closed", o.hist, o.closes, o.sends, o.sim.Closes, len(o.sim.Sends)), Replay: map[string]interface{}{"history": o.hist}})
			break
		}
	}
	run.Add("traces_validated_against_impl", int64(len(all)))
	run.Set("afterlife_pass", fmt.Sprintf("%d histories ending in Close, client dropped, 3 collection rounds, kernel-side activity compared", len(all)))
}

// ---- package-level counters of the library (see checks/reasm/pkgvars.go) ------------------------------------------

// packageCounterPass: every package-level integer variable of the tree's root package that MOVES when a client talks to
// the kernel (a process-wide sequence number, a statistics word) is set next to the limits of each width up to its own
// and short histories run across the wrap under the property's oracles.
func packageCounterPass(run *ev.Run, prop string, hists [][]int, exec func(hist []int) []Viol) {
	type iv struct {
		name string
		bits int
		get  func() uint64
		set  func(uint64)
	}
	var vars []iv
	m := libaudit.VerifPackageVars()
	var names []string
	for n := range m {
		names = append(names, n)
	}
	sort.Strings(names)
	for _, n := range names {
		pv := reflect.ValueOf(m[n])
		if pv.Kind() != reflect.Ptr {
			continue
		}
		v := pv.Elem()
		switch {
		case v.CanInt():
			v := v
			b := v.Type().Bits()
			vars = append(vars, iv{n, b, func() uint64 { return uint64(v.Int()) }, func(x uint64) { v.SetInt(int64(x) << (64 - b) >> (64 - b)) }})
		case v.CanUint():
			v := v
			b := v.Type().Bits()
			vars = append(vars, iv{n, b, func() uint64 { return v.Uint() }, func(x uint64) { v.SetUint(x & (1<<uint(b) - 1)) }})
		case v.Kind() == reflect.Struct:
			ld, st := pv.MethodByName("Load"), pv.MethodByName("Store")
			if !ld.IsValid() || !st.IsValid() || ld.Type().NumOut() != 1 {
				continue
			}
			t := ld.Type().Out(0)
			b := t.Bits()
			vars = append(vars, iv{n, b, func() uint64 {
				r := ld.Call(nil)[0]
				if r.CanInt() {
					return uint64(r.Int())
				}
				return r.Uint()
			}, func(x uint64) {
				a := reflect.New(t).Elem()
				if a.CanInt() {
					a.SetInt(int64(x) << (64 - b) >> (64 - b))
				} else {
					a.SetUint(x & (1<<uint(b) - 1))
				}
				st.Call([]reflect.Value{a})
			}})
		}
	}
	before := map[string]uint64{}
	for _, v := range vars {
		before[v.name] = v.get()
	}
	for _, h := range hists {
		_ = exec(h)
	}
	moved := 0
	for _, v := range vars {
		if v.get() == before[v.name] {
			continue
		}
		moved++
		var limits []uint64
		for _, b := range []int{8, 16, 32, 64} {
			if b <= v.bits {
				limits = append(limits, 1<<uint(b)-3, 1<<uint(b-1)-3)
			}
		}
		limits = append(limits, ^uint64(0)-2)
		reported := false
		for _, lim := range limits {
			for _, h := range hists {
				v.set(lim)
				for _, x := range exec(h) {
					if !reported {
						reported = true
						run.Report(ev.Violation{Sig: x.Sig, What: fmt.Sprintf("with the package-level variable %s (%d bits; it moves when a client talks to the kernel) set to %#x before history %v: %s", v.name, v.bits, lim, h, tailStr(x.What, 1200)), Replay: map[string]interface{}{"variable": v.name, "value": lim, "history": h}})
					}
				}
				run.Add("traces_validated_against_impl", 1)
			}
		}
		v.set(before[v.name])
	}
	run.Set("package_counter_pass", fmt.Sprintf("%d package-level integer variables, %d move under client histories", len(vars), moved))
}

// panicPass: the transport behind the exported Netlink field panics once (a wrapper's nil dereference, a closed channel)
// - inside the socket close of the first Close, or inside one of the Sends - and the caller recovers and goes on: Close
// still closes the socket at most once and clears the PID at most once, however often it is called afterwards.
func panicPass(run *ev.Run, prop string) {
	n := 0
	for _, sh := range []ksim.Shape{{PanicOnClose: true}, {PanicOnSendN: 1}, {PanicOnSendN: 2}, {PanicOnSendN: 3}} {
		for _, hist := range [][]string{{"SetPID", "Close", "Close", "Close"}, {"SetPIDNoWait", "Wait", "Close", "Close"}, {"Rate", "Close", "Close"}, {"SetPID", "Status", "Close", "Rules", "Close"}} {
			sim := ksim.New(nil)
			sim.NoDeviations = true
			sim.Shape = sh
			c := &libaudit.AuditClient{Netlink: sim}
			for _, op := range hist {
				func() {
					defer func() { _ = recover() }()
					switch op {
					case "SetPID":
						_ = c.SetPID(libaudit.WaitForReply)
					case "SetPIDNoWait":
						_ = c.SetPID(libaudit.NoWait)
					case "Rate":
						_ = c.SetRateLimit(3, libaudit.NoWait)
					case "Wait":
						_ = c.WaitForPendingACKs()
					case "Status":
						_, _ = c.GetStatus()
					case "Rules":
						_, _ = c.GetRules()
					case "Close":
						_ = c.Close()
					}
				}()
			}
			n++
			clears := 0
			for _, s := range sim.Sends {
				if isPIDClear(s) {
					clears++
				}
			}
			if sim.Closes > 1 || clears > 1 {
				run.Report(ev.Violation{Sig: prop + " close-repeated-after-panic", What: fmt.Sprintf("history %v on a transport that panics once (%+v; the caller recovers): the socket was closed %d times and the PID cleared %d times, want each at most once", hist, sh, sim.Closes, clears), Replay: map[string]interface{}{"history": hist, "shape": sh}})
				return
			}
		}
	}
	// the same histories on a transport whose n-th Send FAILS with each error value a Go transport can fail with (errno
	// values, os.ErrClosed / net.ErrClosed / io.EOF ..., wrapped, opaque): Close still closes the socket exactly once,
	// whatever the PID-clear request came to; setters report the failure
	m := 0
	for fe := range ksim.SendFailErrors {
		for fn := 1; fn <= 3; fn++ {
			for _, hist := range [][]string{{"SetPID", "Close"}, {"SetPIDNoWait", "Wait", "Close"}, {"Rate", "SetPID", "Close"}, {"SetPID", "Status", "Close", "Close"}, {"Rate", "Close"}} {
				sim := ksim.New(nil)
				sim.NoDeviations = true
				sim.Shape = ksim.Shape{SendFailN: fn, SendFailErr: fe}
				c := &libaudit.AuditClient{Netlink: sim}
				sends := 0
				for _, op := range hist {
					var err error
					isSetter := false
					switch op {
					case "SetPID":
						err, isSetter = c.SetPID(libaudit.WaitForReply), true
					case "SetPIDNoWait":
						err, isSetter = c.SetPID(libaudit.NoWait), true
					case "Rate":
						err, isSetter = c.SetRateLimit(3, libaudit.NoWait), true
					case "Wait":
						_ = c.WaitForPendingACKs()
					case "Status":
						_, _ = c.GetStatus()
						sends++
					case "Close":
						_ = c.Close()
					}
					if isSetter {
						sends++
						if sends == fn && !errors.Is(err, ksim.SendFailErrors[fe]) {
							run.Report(ev.Violation{Sig: prop + " send-failure-not-reported", What: fmt.Sprintf("history %v: the transport's Send #%d failed with %v, %s returned %v", hist, fn, ksim.SendFailErrors[fe], op, err), Replay: map[string]interface{}{"history": hist, "shape": sim.Shape}})
							return
						}
					}
				}
				m++
				if sim.Closes != 1 {
					run.Report(ev.Violation{Sig: prop + " close-count-after-send-failure", What: fmt.Sprintf("history %v on a transport whose Send #%d fails with %v (%T): the socket was closed %d times, want exactly once | kernel log: %v", hist, fn, ksim.SendFailErrors[fe], ksim.SendFailErrors[fe], sim.Closes, sim.Log), Replay: map[string]interface{}{"history": hist, "shape": sim.Shape}})
					return
				}
			}
		}
	}
	run.Add("traces_validated_against_impl", int64(m))
	run.Set("send_failure_pass", fmt.Sprintf("%d histories on transports whose n-th Send fails with one of %d error values", m, len(ksim.SendFailErrors)))
	run.Add("traces_validated_against_impl", int64(n))
	run.Set("panic_pass", fmt.Sprintf("%d histories on transports that panic once in Close / in the n-th Send", n))
}
