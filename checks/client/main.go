// Command client decides C08, C16 and C17 against a simulated kernel behind
// AuditClient's exported Netlink field (DESIGN.md §5).  It never opens a
// netlink socket.
package main

import (
	"encoding/json"
	"flag"
	"fmt"
	"os"
	"os/exec"
	"strings"
	"time"

	"github.com/elastic/go-libaudit/v2/vshim/vtime"

	"verif/engine/ev"
	"verif/engine/ksim"
	"verif/engine/par"
)

// Job is one worker job.
type Job struct {
	Kind      string // c08 | c17
	Histories [][]int
	NRules    int
	Bound     int
	Shape     ksim.Shape
	Shapes    []ksim.Shape // sweep jobs: every history under every shape
	Guard     bool
}

// JobResult is what a worker returns.
type JobResult struct {
	Executions int64
	Ops        int64
	Outcomes   int
	Viol       []Viol
	Samples    []string
	ErrTexts   map[string]map[int]string // method -> errno -> error text (for errors that do not wrap the errno)
}

// Viol is one violation.
type Viol struct {
	Sig    string
	What   string
	Replay interface{}
}

func main() {
	if os.Getenv("VERIF_RACE") != "" {
		raceMain()
		return
	}
	if par.IsWorker() {
		var j Job
		par.WorkerMain(&j, func() interface{} {
			vtime.Install()
			switch j.Kind {
			case "c08":
				return runC08(j)
			case "c17":
				return runC17(j)
			}
			return nil
		})
	}
	prop := flag.String("prop", "", "property id")
	tier := flag.String("tier", "quick", "quick|thorough")
	replayF := flag.String("replay", "", "replay a violation file")
	raceBin := flag.String("racebin", "", "-race build of this harness")
	flag.Parse()
	vtime.Install()
	if *replayF != "" {
		os.Exit(doReplay(*replayF))
	}
	switch *prop {
	case "C08":
		os.Exit(checkC08(*tier))
	case "C16":
		os.Exit(checkC16(*tier))
	case "C17":
		os.Exit(checkC17(*tier, *raceBin))
	}
	fmt.Println("ERROR unknown property", *prop)
	os.Exit(2)
}

func allHistories(alphabet []int, maxLen int) [][]int {
	var out [][]int
	var rec func(cur []int)
	rec = func(cur []int) {
		if len(cur) > 0 {
			out = append(out, append([]int{}, cur...))
		}
		if len(cur) == maxLen {
			return
		}
		for _, a := range alphabet {
			rec(append(cur, a))
		}
	}
	rec(nil)
	return out
}

func chunk(h [][]int, n int) [][][]int {
	var out [][][]int
	sz := (len(h) + n - 1) / n
	if sz == 0 {
		sz = 1
	}
	for i := 0; i < len(h); i += sz {
		j := i + sz
		if j > len(h) {
			j = len(h)
		}
		out = append(out, h[i:j])
	}
	return out
}

func tailStr(s string, n int) string {
	if len(s) > n {
		return s[len(s)-n:]
	}
	return s
}

func collect(run *ev.Run, prop string, jobs []interface{}, each func(jr *JobResult)) {
	par.Map("client", jobs, 6*time.Hour, nil, func(r par.Result) {
		if r.Hang != "" {
			run.Report(ev.Violation{Sig: prop + " hang", What: "the client made no progress for 120 s (virtual clock: an endless receive loop) on: " + r.Hang, Replay: r.Hang})
			return
		}
		if r.Died {
			run.Errorf("worker %d died: %s", r.Job, tailStr(r.Stderr, 1500))
			return
		}
		var jr JobResult
		if err := json.Unmarshal(r.Out, &jr); err != nil {
			run.Errorf("job %d: %v", r.Job, err)
			return
		}
		run.Add("traces_validated_against_impl", jr.Executions)
		run.Add("transitions", jr.Ops)
		run.Add("states", int64(jr.Outcomes))
		for _, s := range jr.Samples {
			run.Sample(s)
		}
		for _, v := range jr.Viol {
			run.Report(ev.Violation{Sig: v.Sig, What: v.What, Replay: v.Replay})
		}
		if each != nil {
			each(&jr)
		}
	})
}

func runRace(run *ev.Run, raceBin string, prop string, arg interface{}) {
	if run.NumSigs() > 0 {
		run.Set("race_pass", "skipped: exploration already found violations")
		run.Set("race_pass_iterations_sampled", 0)
		return
	}
	if raceBin == "" {
		run.Errorf("race binary not provided")
		return
	}
	in, _ := json.Marshal(arg)
	cmd := exec.Command(raceBin)
	cmd.Env = append(os.Environ(), "VERIF_RACE=1", "GORACE=halt_on_error=0")
	cmd.Stdin = strings.NewReader(string(in))
	out, err := cmd.CombinedOutput()
	s := string(out)
	if i := strings.Index(s, "WARNING: DATA RACE"); i >= 0 {
		e := s[i:]
		if len(e) > 3000 {
			e = e[:3000]
		}
		run.Report(ev.Violation{Sig: prop + " data-race", What: "race detector report in the free-running pass:\n" + e, Replay: "free-running -race pass"})
	} else if strings.Contains(s, "RACE-PASS-HANG") {
		run.Errorf("free-running pass hung: %s", tailStr(s, 300))
	} else if err != nil {
		run.Errorf("race pass failed: %v: %s", err, tailStr(s, 500))
	}
	var rr struct{ Iterations int64 }
	if i := strings.LastIndex(s, "{\"iterations\""); i >= 0 {
		_ = json.Unmarshal([]byte(strings.TrimSpace(s[i:])), &rr)
	}
	run.Set("race_pass_iterations_sampled", rr.Iterations)
}

func doReplay(path string) int {
	b, err := os.ReadFile(path)
	if err != nil {
		fmt.Println("ERROR", err)
		return 2
	}
	var doc struct {
		Property string
		Cases    []struct {
			What   string
			Replay json.RawMessage
		}
	}
	if err := json.Unmarshal(b, &doc); err != nil {
		fmt.Println("ERROR", err)
		return 2
	}
	bad := 0
	for _, c := range doc.Cases {
		var rp struct {
			Kind    string
			History []int
			NRules  int
			Env     []int
			Shape   ksim.Shape
			Guard   bool
		}
		_ = json.Unmarshal(c.Replay, &rp)
		var vs []Viol
		switch rp.Kind {
		case "c08":
			vs = replayC08(rp.History, rp.NRules, rp.Env, rp.Shape, rp.Guard)
		case "c17":
			vs = replayC17(rp.History, rp.Env, rp.Shape)
		default:
			fmt.Println("case is not replayable by history (", string(c.Replay), "); re-run the check")
			continue
		}
		for _, v := range vs {
			fmt.Println(v.Sig, "::", v.What)
			bad++
		}
	}
	if bad > 0 {
		fmt.Printf("VIOLATION property=%s replay=%s\n", doc.Property, path)
		return 1
	}
	fmt.Println("no violation reproduced")
	return 0
}
