package main

import (
	"bytes"
	"encoding/binary"
	"sync"

	"errors"
	"fmt"
	"github.com/elastic/go-libaudit/v2/vshim/sched"
	"sort"
	"strings"
	"syscall"
	"verif/engine/explore"

	libaudit "github.com/elastic/go-libaudit/v2"

	"verif/engine/envdfs"
	"verif/engine/ev"
	"verif/engine/ksim"
	"verif/engine/par"
)

// C08 op alphabet.
var c08Names = []string{"GetStatus", "GetRules", "AddRule", "DeleteRule", "DeleteRules", "SetEnabled", "SetPID", "SetRateLimit", "SetBacklogLimit", "SetFailure", "SetImmutable", "SetBacklogWaitTime"}

var ruleX = bytes.Repeat([]byte{0x11, 0x22, 0x33, 0x44}, 20)

// realRule lays a payload out as struct audit_rule_data: 1040-byte header with buflen at 1036, buflen
// bytes of strings, and tail alignment bytes as nlmsg_put appends them (or other tail lengths).
func realRule(i, buflen, tail int) []byte {
	b := make([]byte, 1040+buflen+tail)
	binary.LittleEndian.PutUint32(b[0:], 4)        // flags: exit list
	binary.LittleEndian.PutUint32(b[4:], 2)        // action: always
	binary.LittleEndian.PutUint32(b[8:], 1)        // field_count
	binary.LittleEndian.PutUint32(b[12+256:], 210) // fields[0] = AUDIT_FILTERKEY
	binary.LittleEndian.PutUint32(b[12+512:], uint32(buflen))
	binary.LittleEndian.PutUint32(b[12+768:], 64) // fieldflags[0] = AUDIT_EQUAL
	binary.LittleEndian.PutUint32(b[1036:], uint32(buflen))
	for k := 0; k < buflen+tail; k++ {
		b[1040+k] = byte('a' + (i+k)%26)
	}
	return b
}

func simRules(n int) [][]byte {
	if n == 201 {
		// realistic rule messages: every buflen 0..9 x every tail length 0..4 (incl. exactly the alignment amount)
		var out [][]byte
		for bl := 0; bl <= 9; bl++ {
			for tail := 0; tail <= 4; tail++ {
				out = append(out, realRule(len(out), bl, tail))
			}
		}
		return out
	}
	if n >= 202 && n <= 206 {
		// payloads that COINCIDE: equal neighbours, equal messages further apart, one a prefix of the next - what the kernel
		// sent is what GetRules returns, message for message
		a, b := realRule(1, 4, 0), realRule(2, 7, 3)
		switch n {
		case 202:
			return [][]byte{a, a}
		case 203:
			return [][]byte{a, b, b, a, a, a}
		case 204:
			return [][]byte{a, a[:len(a)-4], append(append([]byte{}, a...), 0, 0, 0, 0)}
		case 205:
			return [][]byte{b, b, b, b, b}
		case 206:
			return [][]byte{a, b, a, b}
		}
	}
	var out [][]byte
	for i := 0; i < n; i++ {
		out = append(out, bytes.Repeat([]byte{byte(0xA0 + i), byte(i + 1)}, 30+i))
	}
	return out
}

type opObs struct {
	err    error
	status *libaudit.AuditStatus
	rules  [][]byte
	count  int
}

func doC08(c *libaudit.AuditClient, op int) opObs {
	var o opObs
	switch op {
	case 0:
		o.status, o.err = c.GetStatus()
	case 1:
		o.rules, o.err = c.GetRules()
	case 2:
		o.err = c.AddRule(ruleX)
	case 3:
		o.err = c.DeleteRule(ruleX)
	case 4:
		o.count, o.err = c.DeleteRules()
	case 5:
		o.err = c.SetEnabled(true, libaudit.WaitForReply)
	case 6:
		o.err = c.SetPID(libaudit.WaitForReply)
	case 7:
		o.err = c.SetRateLimit(7, libaudit.WaitForReply)
	case 8:
		o.err = c.SetBacklogLimit(8, libaudit.WaitForReply)
	case 9:
		o.err = c.SetFailure(libaudit.FailureMode(1), libaudit.WaitForReply)
	case 10:
		o.err = c.SetImmutable(libaudit.WaitForReply)
	case 11:
		o.err = c.SetBacklogWaitTime(9, libaudit.WaitForReply)
	}
	return o
}

// execC08 runs one history under one environment and applies the oracle.
func execC08(hist []int, nRules int, env *envdfs.Env, errTexts map[string]map[int]string, shape ksim.Shape, guarded bool) (viol []Viol, log string, ops int64) {
	sim := ksim.New(env)
	sim.Shape = shape
	sim.Guard = guarded
	if shape.ForceEvents > 0 || shape.ErrnoAlways {
		sim.NoDeviations = true
	}
	nRulesArg := nRules
	statusLen := 44
	if nRules >= 100 && nRules < 200 {
		// nRules 132/136/140/148: a kernel of an older / newer layout answering AUDIT_GET with
		// 32/36/40/48 bytes (and holding 1 rule)
		statusLen = nRules - 100
		nRules = 1
	}
	sim.Rules = simRules(nRules)
	for i := range sim.Status {
		sim.Status[i] = uint32(0x01010101 * (i + 1))
	}
	if statusLen != 44 {
		raw := sim.StatusBytes()
		for len(raw) < statusLen {
			raw = append(raw, 0xEE)
		}
		sim.StatusRaw = raw[:statusLen]
		for i := range sim.Status {
			if 4*i+4 > statusLen {
				sim.Status[i] = 0 // fields the reply does not reach are zero
			}
		}
	}
	c := &libaudit.AuditClient{Netlink: sim}
	fail := func(sig, format string, a ...interface{}) {
		viol = append(viol, Viol{Sig: sig, What: fmt.Sprintf(format, a...) + " | history " + histNames(hist, c08Names) + " | kernel log: " + strings.Join(sim.Log, " "),
			Replay: map[string]interface{}{"Kind": "c08", "History": hist, "NRules": nRulesArg, "Env": append([]int{}, env.Taken...), "Shape": shape, "Guard": guarded}})
	}
	for _, op := range hist {
		ops++
		name := c08Names[op]
		sim.ResetOp()
		sendsBefore := len(sim.Sends)
		rulesBefore := append([][]byte{}, sim.Rules...)
		var o opObs
		func() {
			defer func() {
				if r := recover(); r != nil {
					fail("C08 panic:"+name, "%s panicked: %v", name, r)
					o.err = errors.New("panic")
				}
			}()
			o = doC08(c, op)
		}()
		sends := sim.Sends[sendsBefore:]
		firstErrno := 0
		for _, s := range sends {
			if s.Errno != 0 && firstErrno == 0 {
				firstErrno = s.Errno
			}
		}
		mustFail, lenient, mayFail := false, false, false
		for _, d := range sim.Devs {
			if d == ksim.DevEAGAIN10 {
				lenient = true
			} else if ksim.MustFail(d) {
				mustFail = true
			} else if ksim.MayFail(d) {
				mayFail = true
			}
		}
		switch {
		case mayFail && o.err != nil:
			// the kernel never reorders a reply and its acknowledgement: refusing is fine, reporting
			// success with anything but the kernel's data is not (checked below when err == nil)
		case lenient:
			// outside the stated tolerance: only "no panic" is required
		case mustFail:
			if o.err == nil {
				fail("C08 accepted-bad-ack:"+name, "%s returned nil although the acknowledgement was replaced by %v", name, devNames(sim.Devs))
			}
		case firstErrno != 0:
			if o.err == nil {
				fail("C08 swallowed-errno:"+name, "%s returned nil although the kernel answered errno %d (%v)", name, firstErrno, syscall.Errno(firstErrno))
			} else if !errors.Is(o.err, syscall.Errno(firstErrno)) {
				m := errTexts[name]
				if m == nil {
					m = map[int]string{}
					errTexts[name] = m
				}
				m[firstErrno] = o.err.Error()
			}
		default:
			if o.err != nil {
				fail("C08 spurious-error:"+name, "%s returned %v although every verdict was 0 (deviations tolerated by contract: %v)", name, o.err, devNames(sim.Devs))
			} else {
				switch op {
				case 0:
					want := libaudit.AuditStatus{}
					f := []*uint32{(*uint32)(&want.Mask), &want.Enabled, &want.Failure, &want.PID, &want.RateLimit, &want.BacklogLimit, &want.Lost, &want.Backlog, &want.FeatureBitmap, &want.BacklogWaitTime, &want.BacklogWaitTimeActual}
					for i := range f {
						*f[i] = sim.Status[i]
					}
					if o.status == nil || *o.status != want {
						fail("C08 wrong-status", "GetStatus returned %+v, kernel sent %+v", o.status, want)
					}
				case 1:
					if !sameRules(o.rules, rulesBefore) {
						fail("C08 wrong-rules", "GetRules returned %d rules %x, kernel sent %d rules", len(o.rules), o.rules, len(rulesBefore))
					}
				case 4:
					if o.count != len(rulesBefore) || len(sim.Rules) != 0 {
						fail("C08 wrong-delete-count", "DeleteRules returned %d with %d rules installed; %d left in the kernel", o.count, len(rulesBefore), len(sim.Rules))
					}
				}
			}
		}
		// requests must be the right ones
		if len(sends) == 0 {
			fail("C08 no-request:"+name, "%s sent nothing", name)
		}
		if o.err != nil || mustFail || lenient || mayFail || len(sim.Q) > 0 {
			sim.Drain()
		}
	}
	return viol, strings.Join(sim.Log, " "), ops
}

func sameRules(a, b [][]byte) bool {
	if len(a) != len(b) {
		return false
	}
	for i := range a {
		if !bytes.Equal(a[i], b[i]) {
			return false
		}
	}
	return true
}

func devNames(d []int) []string {
	var s []string
	for _, x := range d {
		s = append(s, ksim.DevNames[x])
	}
	return s
}

func histNames(h []int, names []string) string {
	var s []string
	for _, o := range h {
		s = append(s, names[o])
	}
	return strings.Join(s, ",")
}

func runC08(j Job) *JobResult {
	jr := &JobResult{ErrTexts: map[string]map[int]string{}}
	outcomes := map[string]struct{}{}
	sigSeen := map[string]bool{}
	shapes := j.Shapes
	if len(shapes) == 0 {
		shapes = []ksim.Shape{j.Shape}
	}
	for _, shape := range shapes {
		shape := shape
		for _, h := range j.Histories {
			h := h
			jr.Executions += envdfs.Explore(j.Bound, func(env *envdfs.Env) {
				par.Progress(func() string {
					return fmt.Sprintf("C08 history %s nRules=%d shape=%+v env choices so far %v (%v)", histNames(h, c08Names), j.NRules, shape, env.Taken, env.Labels)
				})
				viol, log, ops := execC08(h, j.NRules, env, jr.ErrTexts, shape, j.Guard)
				jr.Ops += ops
				outcomes[log] = struct{}{}
				for _, v := range viol {
					if !sigSeen[v.Sig] {
						sigSeen[v.Sig] = true
						jr.Viol = append(jr.Viol, v)
					}
				}
				if len(jr.Samples) < 2 && env.Deviations() >= 2 && len(h) >= 2 {
					jr.Samples = append(jr.Samples, fmt.Sprintf("history %s nRules=%d env=%v: %s", histNames(h, c08Names), j.NRules, env.Taken, log))
				}
			})
		}
	}
	jr.Outcomes = len(outcomes)
	return jr
}

func replayC08(hist []int, nRules int, envp []int, shape ksim.Shape, guarded bool) []Viol {
	env := envdfs.New(envp)
	v, log, _ := execC08(hist, nRules, env, map[string]map[int]string{}, shape, guarded)
	fmt.Println("history:", histNames(hist, c08Names), "nRules:", nRules, "env:", envp, "\nkernel log:", log)
	return v
}

// c08Sweeps: header details the small alphabet holds constant, one at a time, for every single
// command (and GetRules / DeleteRules against a kernel holding 2 rules):
//   - every single nlmsg_flags bit (and all of them) on every message the kernel sends back:
//     the client's verdict and data may not depend on reply flags;
//   - every record type 1100..2999 (the audit event ranges: user, daemon, kernel, SELinux,
//     AppArmor, crypto, anomaly, integrity, kernel-generic, user2) for the unsolicited events
//     that sit in front of every datagram, and every flags bit on them;
//   - every errno 1..133, 512..530, 4095 as the kernel's verdict (always an error identifying it);
//   - every datagram flush against an inaccessible page (no read past what was received).
func c08Sweeps(tier string) []interface{} {
	var jobs []interface{}
	single := allHistories([]int{0, 1, 2, 3, 4, 5, 6, 11}, 1)
	if tier == "thorough" {
		single = allHistories([]int{0, 1, 2, 3, 4, 5, 6, 7, 8, 9, 10, 11}, 1)
	}
	var flagShapes []ksim.Shape
	for b := 0; b < 16; b++ {
		flagShapes = append(flagShapes, ksim.Shape{ReplyFlags: 1 << b})
		flagShapes = append(flagShapes, ksim.Shape{EventFlags: 1 << b, ForceEvents: 1})
	}
	flagShapes = append(flagShapes, ksim.Shape{ReplyFlags: 0xFFFF}, ksim.Shape{EventFlags: 0xFFFF, ForceEvents: 2})
	for _, c := range chunk(single, 4) {
		// bound 1: one more deviation (an errno verdict, an event, a transient failure ...) on top of the shape
		jobs = append(jobs, Job{Kind: "c08", Histories: c, NRules: 2, Bound: 1, Shapes: flagShapes, Guard: true})
	}
	var typeShapes []ksim.Shape
	for t := 1100; t <= 2999; t++ {
		typeShapes = append(typeShapes, ksim.Shape{EventType: uint16(t), ForceEvents: 1})
	}
	for _, t := range []int{1, 3, 4, 16, 999, 1000, 1001, 1013, 1099, 3000, 4095, 32768, 65535} {
		// outside the audit ranges too: anything carrying sequence 0 is unsolicited
		typeShapes = append(typeShapes, ksim.Shape{EventType: uint16(t), ForceEvents: 1})
	}
	for i := 0; i < len(typeShapes); i += 120 {
		k := i + 120
		if k > len(typeShapes) {
			k = len(typeShapes)
		}
		jobs = append(jobs, Job{Kind: "c08", Histories: single, NRules: 2, Bound: 0, Shapes: typeShapes[i:k]})
	}
	// how the transport reports a failed receive: bare errno, wrapped with %w, *os.SyscallError - transient
	// EINTR / EAGAIN stay transient however they are wrapped (bound 2: a fault plus one more deviation)
	for _, w := range []int{1, 2} {
		for _, c := range chunk(single, 4) {
			jobs = append(jobs, Job{Kind: "c08", Histories: c, NRules: 2, Bound: 2, Shapes: []ksim.Shape{{WrapErrors: w}}})
		}
	}
	// a kernel holding 50 realistic rule messages (audit_rule_data layout, every buflen 0..9 x tail 0..4 bytes)
	jobs = append(jobs, Job{Kind: "c08", Histories: allHistories([]int{1, 4}, 1), NRules: 201, Bound: 1})
	// what follows the errno word of an acknowledgement is not the verdict: echoed request renumbered by a transport layer,
	// zero-filled, all ones - every command, kernel says yes and kernel says EPERM
	for _, sh := range []ksim.Shape{{EchoSeqDelta: 1}, {EchoSeqDelta: 1000}, {EchoSeqDelta: 1 << 31}, {EchoFill: 1}, {EchoFill: 2}, {EchoSeqDelta: 7, Errno: int(syscall.EPERM)}, {EchoFill: 1, Errno: int(syscall.EPERM)}} {
		for _, c := range chunk(single, 4) {
			jobs = append(jobs, Job{Kind: "c08", Histories: c, NRules: 2, Bound: 0, Shapes: []ksim.Shape{sh}})
		}
	}
	// header fields of replies the verdict does not live in: nlmsg_pid changing from reply to reply (port ids, relays),
	// nlmsg_len understating / overstating the bytes that arrived (a header-less length, a length rounded up)
	for _, sh := range []ksim.Shape{{ReplyPids: []uint32{0x1111, 0x2222}}, {ReplyPids: []uint32{7, 0, 9, 1 << 31}}, {ReplyPids: []uint32{0xFFFFFFFF, 1}}, {LenDelta: -16}, {LenDelta: -20}, {LenDelta: -4}, {LenDelta: 16}, {LenDelta: 3}, {LenDelta: 1 << 20}} {
		jobs = append(jobs, Job{Kind: "c08", Histories: allHistories([]int{0, 1, 2, 4, 5}, 2), NRules: 2, Bound: 0, Shapes: []ksim.Shape{sh}})
		jobs = append(jobs, Job{Kind: "c08", Histories: allHistories([]int{1, 4}, 1), NRules: 201, Bound: 0, Shapes: []ksim.Shape{sh}})
	}
	for code := 202; code <= 206; code++ {
		jobs = append(jobs, Job{Kind: "c08", Histories: allHistories([]int{1, 4}, 2), NRules: code, Bound: 1})
	}
	// a transport whose every Receive takes (virtual) time - 130 ms, 1 s, 1 min - under transient failures within
	// the tolerated budget, and transports that rotate between 2 / 3 receive buffers
	for _, ms := range []int{130, 1000, 60000} {
		jobs = append(jobs, Job{Kind: "c08", Histories: single, NRules: 2, Bound: 2, Shapes: []ksim.Shape{{RecvLatencyMs: ms}}})
	}
	for _, k := range []int{2, 3} {
		jobs = append(jobs, Job{Kind: "c08", Histories: allHistories([]int{0, 1, 4}, 2), NRules: 5, Bound: 1, Shapes: []ksim.Shape{{Buffers: k}}})
		jobs = append(jobs, Job{Kind: "c08", Histories: allHistories([]int{1, 4}, 1), NRules: 201, Bound: 1, Shapes: []ksim.Shape{{Buffers: k}}})
	}
	// extended acknowledgements (capped and uncapped) carrying a reason string, for verdict 0 and for errors
	for _, x := range []int{1, 2} {
		var sh []ksim.Shape
		sh = append(sh, ksim.Shape{ExtAck: x})
		for _, e := range []int{1, 2, 13, 17, 22} {
			sh = append(sh, ksim.Shape{ExtAck: x, Errno: e, ErrnoAlways: true})
		}
		jobs = append(jobs, Job{Kind: "c08", Histories: single, NRules: 2, Bound: 1, Shapes: sh, Guard: true})
	}
	// sequence numbers handed out by the transport around the 2^32 and 2^31 marks
	for _, st := range []uint32{1<<32 - 3, 1<<31 - 3, 1<<16 - 3} {
		jobs = append(jobs, Job{Kind: "c08", Histories: allHistories([]int{0, 1, 2, 5}, 2), NRules: 2, Bound: 1, Shapes: []ksim.Shape{{SeqStart: st}}})
	}
	var errnoShapes []ksim.Shape
	for e := 1; e <= 4095; e++ {
		if e <= 133 || (e >= 512 && e <= 530) || e == 4095 {
			errnoShapes = append(errnoShapes, ksim.Shape{Errno: e, ErrnoAlways: true})
		}
	}
	for _, c := range chunk(single, 4) {
		jobs = append(jobs, Job{Kind: "c08", Histories: c, NRules: 2, Bound: 0, Shapes: errnoShapes, Guard: true})
	}
	return jobs
}

// ---- several clients of ONE process, each with its own kernel, running concurrently ----------------

type multiHarness struct {
	verdicts []int // errno each client's kernel answers its AddRule with
	ops      []int // op per client (index into c08Names)
	sims     []*ksim.Sim
	cs       []*libaudit.AuditClient
	errs     []error
	got      []opObs
	mu       sync.Mutex
}

func newMultiHarness(verdicts, ops []int) *multiHarness {
	h := &multiHarness{verdicts: verdicts, ops: ops}
	for _, v := range verdicts {
		sim := ksim.New(nil)
		sim.NoDeviations = true
		sim.YieldAfterParse = true
		sim.Rules = simRules(2)
		for i := range sim.Status {
			sim.Status[i] = uint32(0x01010101*(i+1) + v)
		}
		if v != 0 {
			sim.Shape = ksim.Shape{Errno: v, ErrnoAlways: true}
		}
		h.sims = append(h.sims, sim)
		h.cs = append(h.cs, &libaudit.AuditClient{Netlink: sim})
	}
	h.errs = make([]error, len(verdicts))
	h.got = make([]opObs, len(verdicts))
	return h
}

func (h *multiHarness) Body(x *sched.Exec) {
	x.Prime = true
	for i := range h.cs {
		i := i
		x.Go(fmt.Sprintf("client%d", i), func() {
			sched.Yield("call")
			o := doC08(h.cs[i], h.ops[i])
			h.mu.Lock()
			h.got[i] = o
			h.mu.Unlock()
		})
	}
}

func (h *multiHarness) Finish(res *sched.Result) (string, []explore.Finding) {
	if res != nil && (res.Deadlock || res.Panic != nil) {
		return "aborted", nil
	}
	var f []explore.Finding
	var obs []string
	for i, o := range h.got {
		v := h.verdicts[i]
		name := c08Names[h.ops[i]]
		obs = append(obs, fmt.Sprint(o.err != nil))
		switch {
		case v == 0 && o.err != nil:
			f = append(f, explore.Finding{Sig: "concurrent-clients-spurious-error:" + name, What: fmt.Sprintf("client %d: %s returned %v although ITS kernel acknowledged 0 (other clients of the process ran concurrently on their own kernels: verdicts %v)", i, name, o.err, h.verdicts)})
		case v != 0 && o.err == nil:
			f = append(f, explore.Finding{Sig: "concurrent-clients-swallowed-errno:" + name, What: fmt.Sprintf("client %d: %s returned nil although ITS kernel answered errno %d (verdicts of all clients: %v)", i, name, v, h.verdicts)})
		case v != 0 && !errors.Is(o.err, syscall.Errno(v)) && !strings.Contains(o.err.Error(), syscall.Errno(v).Error()):
			f = append(f, explore.Finding{Sig: "concurrent-clients-wrong-errno:" + name, What: fmt.Sprintf("client %d: %s returned %v, its kernel answered errno %d (verdicts %v)", i, name, o.err, v, h.verdicts)})
		case v == 0 && h.ops[i] == 0:
			want := h.sims[i].Status
			st := o.status
			if st == nil || [11]uint32{uint32(st.Mask), st.Enabled, st.Failure, st.PID, st.RateLimit, st.BacklogLimit, st.Lost, st.Backlog, st.FeatureBitmap, st.BacklogWaitTime, st.BacklogWaitTimeActual} != want {
				f = append(f, explore.Finding{Sig: "concurrent-clients-wrong-status", What: fmt.Sprintf("client %d: GetStatus returned %+v, its kernel sent %v", i, st, want)})
			}
		}
	}
	return strings.Join(obs, ","), f
}

func c08MultiPrograms() [][2][]int {
	// (verdicts, ops): two and three clients, same op with different verdicts, and GetStatus with different statuses
	return [][2][]int{
		{{1, 0}, {2, 2}}, {{0, 1}, {2, 2}}, {{0, 22}, {3, 3}}, {{1, 0}, {5, 5}}, {{0, 0}, {0, 0}}, {{0, 13}, {0, 0}}, {{0, 1}, {1, 2}},
		{{1, 0, 2}, {2, 2, 2}}, {{0, 0, 1}, {0, 0, 2}},
	}
}

func c08Concurrent(run *ev.Run) {
	var total int64
	for _, p := range c08MultiPrograms() {
		p := p
		e := &explore.Explorer{Bound: -1, MaxExec: 100000, Horizon: 5000, NewHarness: func() explore.Harness { return newMultiHarness(p[0], p[1]) }}
		r := e.Explore()
		total += r.Executions
		run.Add("traces_validated_against_impl", r.Executions)
		run.Add("transitions", r.Executions*int64(r.MaxChoices+1))
		for _, n := range r.Nondeterminism {
			run.Errorf("nondeterminism: %s", n)
		}
		for _, f := range r.Findings {
			if strings.HasPrefix(f.Sig, "ERROR/") {
				run.Errorf("%s", f.What)
				continue
			}
			run.Report(ev.Violation{Sig: "C08 " + f.Sig, What: f.What, Replay: map[string]interface{}{"verdicts": p[0], "ops": p[1], "schedule": f.Schedule}})
		}
	}
	run.Set("concurrent_multi_client_schedules", total)
}

func checkC08(tier string) int {
	run := ev.Begin("C08", tier, "model_checking")
	alphabet := []int{0, 1, 2, 3, 4, 5, 6, 11}
	maxLen, bound := 2, 2
	hs := allHistories(alphabet, maxLen)
	var jobs []interface{}
	for _, nr := range []int{0, 1, 2} {
		for _, c := range chunk(hs, 48) {
			jobs = append(jobs, Job{Kind: "c08", Histories: c, NRules: nr, Bound: bound})
		}
	}
	// a kernel holding 5 rules of different lengths: listing / deleting several rules in one call
	for _, c := range chunk(allHistories([]int{1, 4}, 2), 4) {
		jobs = append(jobs, Job{Kind: "c08", Histories: c, NRules: 5, Bound: 2})
	}
	// kernels answering AUDIT_GET with the 32/36/40/48-byte layouts
	for _, sl := range []int{132, 136, 140, 148} {
		jobs = append(jobs, Job{Kind: "c08", Histories: allHistories([]int{0, 5}, 2), NRules: sl, Bound: 1})
	}
	// single-op histories with deviation bound 3 (reaches e.g. 9 x EINTR, event, 1 x EINTR)
	for _, nr := range []int{0, 2} {
		for _, c := range chunk(allHistories([]int{0, 1, 2, 3, 4, 5}, 1), 6) {
			jobs = append(jobs, Job{Kind: "c08", Histories: c, NRules: nr, Bound: 3})
		}
	}
	sweepJobs := c08Sweeps(tier)
	if tier == "thorough" {
		// (a) all 12 methods, histories <= 3, deviation bound 2; (b) histories <= 2, bound 3
		jobs = nil
		alphabet = []int{0, 1, 2, 3, 4, 5, 6, 7, 8, 9, 10, 11}
		maxLen, bound = 3, 3
		hs = allHistories(alphabet, 3)
		for _, nr := range []int{0, 1, 2} {
			for _, c := range chunk(hs, 64) {
				jobs = append(jobs, Job{Kind: "c08", Histories: c, NRules: nr, Bound: 2})
			}
			for _, c := range chunk(allHistories(alphabet, 2), 64) {
				jobs = append(jobs, Job{Kind: "c08", Histories: c, NRules: nr, Bound: 3})
			}
		}
	}
	jobs = append(jobs, sweepJobs...)
	errTexts := map[string]map[int]string{}
	collect(run, "C08", jobs, func(jr *JobResult) {
		for m, t := range jr.ErrTexts {
			if errTexts[m] == nil {
				errTexts[m] = map[int]string{}
			}
			for e, s := range t {
				errTexts[m][e] = s
			}
		}
	})
	// identification: errors that do not wrap the errno must at least be distinct per errno
	var methods []string
	for m := range errTexts {
		methods = append(methods, m)
	}
	sort.Strings(methods)
	for _, m := range methods {
		byText := map[string][]int{}
		for e, s := range errTexts[m] {
			byText[s] = append(byText[s], e)
		}
		for s, es := range byText {
			if len(es) > 1 {
				sort.Ints(es)
				run.Report(ev.Violation{Sig: "C08 unidentified-errno:" + m, What: fmt.Sprintf("%s returns the same error %q for kernel errnos %v and does not wrap them", m, s, es), Replay: map[string]interface{}{"method": m, "errnos": es}})
			}
		}
	}
	stackPass(run, "C08")
	errnoDecoderPass(run, "C08")
	packageCounterPass(run, "C08", [][]int{{0, 1}, {2, 3}, {4, 5}, {1, 4, 0}}, func(h []int) []Viol {
		v, _, _ := execC08(h, 2, envdfs.New(nil), nil, ksim.Shape{}, false)
		return v
	})
	c08Concurrent(run)
	run.Set("histories", len(hs)*3)
	run.Set("deviation_bound_completed", bound)
	if tier == "thorough" {
		run.Set("deviation_bound_note", "bound 3 for histories of <=2 ops, bound 2 for histories of 3 ops")
	}
	run.Set("exhaustive", true)
	run.Set("explanation", fmt.Sprintf("every history of <=%d client ops over %d methods x kernels holding 0/1/2 rules, and for each every combination of at most %d non-default environment answers (verdict errno in {1,2,17,22}; before each datagram: 1/3 unsolicited events, 1/9 EINTR, 9 EAGAIN, 9 alternating, 10 EAGAIN, stale reply, 2-byte ACK, wrong ACK type, foreign ACK sequence). states = distinct kernel-side logs, transitions = client ops executed, traces = executions of the real client.", maxLen, len(alphabet), bound))
	run.Assume("kernel simulated behind the exported Netlink field (ACK then data replies as the real kernel orders them); each op starts with an empty socket queue; virtual clock for the EAGAIN back-off")
	return run.Finish()
}
