package main

import (
	"bytes"
	"encoding/binary"
	"encoding/json"
	"errors"
	"fmt"
	"os"
	"path/filepath"
	"strings"
	"sync"
	"sync/atomic"
	"syscall"
	"time"

	libaudit "github.com/elastic/go-libaudit/v2"
	"github.com/elastic/go-libaudit/v2/vshim/sched"
	"github.com/elastic/go-libaudit/v2/vshim/vos"
	"github.com/elastic/go-libaudit/v2/vshim/vtime"

	"verif/engine/envdfs"
	"verif/engine/ev"
	"verif/engine/explore"
	"verif/engine/harvest"
	"verif/engine/ksim"
)

var c17Names = []string{"SetRateLimit(NoWait)", "SetEnabled(NoWait)", "WaitForPendingACKs", "SetBacklogLimit(Wait)", "SetPID(NoWait)", "SetPID(Wait)", "GetRules", "Close", "GetStatus(pid=self)", "time-passes", "euid:=1000", "euid:=0"}

const (
	aRateNoWait = iota
	aEnabledNoWait
	aWaitAcks
	aBacklogWait
	aPIDNoWait
	aPIDWait
	aGetRules
	aClose
	aGetStatusSelf // the kernel's status names THIS process (pid, and every other field a value taken from the running process)
	aTimePasses    // the (virtual) clock advances: just beyond every duration written in the tree's audit.go, and an hour
	aEuidUser      // the process's effective uid becomes 1000 (it keeps CAP_AUDIT_CONTROL: the kernel still says yes)
	aEuidRoot
)

var c17Ticks []time.Duration

func c17TickList() []time.Duration {
	if c17Ticks == nil {
		hv := harvest.Files([]string{filepath.Join(ev.Repo(), "audit.go")}, harvest.Options{})
		for _, d := range hv.Durations() {
			c17Ticks = append(c17Ticks, time.Duration(d)+time.Millisecond)
		}
		c17Ticks = append(c17Ticks, 3*time.Second, time.Hour)
	}
	return c17Ticks
}

// listingRules: what the simulated kernel holds at the k-th listing.
func listingRules(k int) [][]byte {
	var out [][]byte
	n := 1 + k%3
	if k == 1 {
		n = 3
	}
	for i := 0; i < n; i++ {
		out = append(out, bytes.Repeat([]byte{byte(0x40 + 16*k + i)}, 48+8*((k+i)%3)))
	}
	return out
}

func isPIDClear(s *ksim.Sent) bool {
	return s.Type == ksim.AuditSet && len(s.Data) >= 16 && binary.LittleEndian.Uint32(s.Data[0:]) == 4 && binary.LittleEndian.Uint32(s.Data[12:]) == 0
}

// execC17 runs one history; ok=false means the history is not well-formed use
// (skipped).
func execC17(hist []int, env *envdfs.Env, shape ksim.Shape) (viol []Viol, log string, ops int64, wellFormed bool) {
	sim := ksim.New(env)
	sim.NoDeviations = true
	sim.Verdicts = []int{0, 1}
	sim.Shape = shape
	sim.Guard = true
	vos.Uninstall()
	defer vos.Uninstall()
	sim.CloseAnswers = []syscall.Errno{0, syscall.EINTR, syscall.EBADF, syscall.EIO}
	sim.Rules = simRules(2)
	c := &libaudit.AuditClient{Netlink: sim}
	fail := func(sig, format string, a ...interface{}) {
		viol = append(viol, Viol{Sig: sig, What: fmt.Sprintf(format, a...) + " | history " + histNames(hist, c17Names) + " | kernel log: " + strings.Join(sim.Log, " "),
			Replay: map[string]interface{}{"Kind": "c17", "History": hist, "Env": append([]int{}, env.Taken...), "Shape": shape}})
	}
	nList := 0
	var pending []*ksim.Sent // model of unconsumed NoWait requests, in order
	usedPID := false
	closed := false
	type held struct {
		got  [][]byte
		snap [][]byte
	}
	var helds []held
	ackOf := func(s *ksim.Sent) *ksim.Datagram {
		for _, d := range sim.All {
			if d.Kind == "ack" && d.ForSeq == s.Seq {
				return d
			}
		}
		return nil
	}
	waitAcks := func(label string) {
		recvBefore := sim.Receives
		handedBefore := map[int]int{}
		for _, d := range sim.All {
			handedBefore[d.ID] = d.Handed
		}
		// receive faults (10 x EAGAIN, a hard ENOBUFS, 9 x EINTR) are injected only while
		// WaitForPendingACKs runs: the other ops' oracles here assume a fault-free socket
		sim.NoDeviations = false
		sim.FaultsOnly = true
		sim.WrongTypeToo = true
		sim.ResetOp()
		err := c.WaitForPendingACKs()
		sim.NoDeviations = true
		faulted := false
		wrongType := false
		for _, d := range sim.Devs {
			if d == ksim.DevWrongType {
				wrongType = true // the errno word of that message is not an acknowledgement's: any error will do
			}
			if ksim.MustFail(d) {
				faulted = true
			}
			if d == ksim.DevWrongType && err == nil {
				fail("C17 wait-nil-after-wrong-type", "%s returned nil although the reply to a pending request was not an acknowledgement", label)
			}
		}
		if len(pending) == 0 {
			if sim.Receives != recvBefore {
				fail("C17 wait-with-nothing-pending-receives", "%s with nothing pending performed %d receives (re-waits for ACKs it already consumed)", label, sim.Receives-recvBefore)
			}
			if err != nil && sim.Receives == recvBefore {
				fail("C17 wait-with-nothing-pending-error", "%s with nothing pending returned %v", label, err)
			}
			return
		}
		// how many pending ACKs were consumed by this call (must be a prefix)
		k := 0
		for k < len(pending) {
			d := ackOf(pending[k])
			if d == nil || d.Handed == handedBefore[d.ID] {
				break
			}
			k++
		}
		for _, p := range pending[k:] {
			if d := ackOf(p); d != nil && d.Handed != handedBefore[d.ID] {
				fail("C17 ack-out-of-order", "%s consumed the ACK of request %d before earlier pending ones", label, p.Seq)
			}
		}
		firstErr := 0
		firstIdx := -1
		for i := 0; i < k; i++ {
			if pending[i].Errno != 0 {
				firstErr, firstIdx = pending[i].Errno, i
				break
			}
		}
		if firstErr != 0 && !wrongType {
			if err == nil || !errors.Is(err, syscall.Errno(firstErr)) {
				fail("C17 wait-wrong-error", "%s consumed an ACK with errno %d (request %d) but returned %v", label, firstErr, pending[firstIdx].Seq, err)
			}
		} else if faulted {
			// the receive failed without consuming the ACK: an error is the right answer and
			// the unconsumed requests stay pending
			if err == nil && k != len(pending) {
				fail("C17 wait-nil-after-receive-fault", "%s returned nil after a failed receive with %d of %d ACKs consumed", label, k, len(pending))
			}
		} else {
			if err != nil {
				fail("C17 wait-spurious-error", "%s returned %v although every ACK it consumed carried errno 0 (consumed %d of %d pending)", label, err, k, len(pending))
			} else if k != len(pending) {
				fail("C17 wait-incomplete", "%s returned nil after consuming only %d of %d pending ACKs", label, k, len(pending))
			}
		}
		pending = pending[k:]
	}
	for _, op := range hist {
		if closed && op != aClose {
			return nil, "", 0, false // anything but Close after Close is misuse
		}
		if (op == aBacklogWait || op == aPIDWait || op == aGetRules || op == aGetStatusSelf) && len(pending) > 0 {
			return nil, "", 0, false // WaitForReply while ACKs are pending is misuse
		}
		ops++
		sendsBefore := len(sim.Sends)
		recvBefore := sim.Receives
		closesBefore := sim.Closes
		var err error
		switch op {
		case aRateNoWait:
			err = c.SetRateLimit(5, libaudit.NoWait)
		case aEnabledNoWait:
			err = c.SetEnabled(true, libaudit.NoWait)
		case aPIDNoWait:
			err = c.SetPID(libaudit.NoWait)
			usedPID = true
		case aWaitAcks:
			waitAcks("WaitForPendingACKs")
		case aBacklogWait:
			err = c.SetBacklogLimit(64, libaudit.WaitForReply)
		case aPIDWait:
			err = c.SetPID(libaudit.WaitForReply)
			usedPID = true
		case aTimePasses:
			if clk := vtime.Installed(); clk != nil {
				for _, d := range c17TickList() {
					clk.Advance(d)
				}
			}
		case aEuidUser:
			vos.Install(&vos.Env{Euid: vos.Int(1000), Uid: vos.Int(1000)})
		case aEuidRoot:
			vos.Install(&vos.Env{Euid: vos.Int(0), Uid: vos.Int(0)})
		case aGetStatusSelf:
			// values that exist only at run time: this process's pid / parent / uid, the client's own numbers
			sim.Status = [11]uint32{0x7f, 1, 1, uint32(os.Getpid()), uint32(os.Getppid()), uint32(os.Getuid()), uint32(os.Getpid()), 0, uint32(os.Getpid()), 60000, uint32(os.Getpid())}
			var stt *libaudit.AuditStatus
			stt, err = c.GetStatus()
			if err == nil && (stt == nil || stt.PID != uint32(os.Getpid())) {
				fail("C17 getstatus-wrong", "GetStatus returned %+v", stt)
			}
		case aGetRules:
			var rules [][]byte
			// every listing returns different rules (other contents, other lengths, other count)
			nList++
			sim.Rules = listingRules(nList)
			rules, err = c.GetRules()
			if err == nil {
				h := held{got: rules}
				for _, r := range rules {
					h.snap = append(h.snap, append([]byte{}, r...))
				}
				if !sameRules(rules, listingRules(nList)) {
					fail("C17 getrules-wrong", "GetRules returned %x", rules)
				}
				helds = append(helds, h)
			}
		case aClose:
			err = c.Close()
			sends := sim.Sends[sendsBefore:]
			if !closed {
				closed = true
				if sim.Closes-closesBefore != 1 {
					fail("C17 close-count", "first Close closed the socket %d times", sim.Closes-closesBefore)
				}
				nClear := 0
				for _, s := range sends {
					if isPIDClear(s) {
						nClear++
					} else {
						fail("C17 close-unexpected-request", "Close sent an unexpected request type %d", s.Type)
					}
				}
				if usedPID && nClear != 1 {
					fail("C17 close-pid-clear-missing", "SetPID was used but Close sent %d AUDIT_SET{mask=PID,pid=0} requests, want exactly 1", nClear)
				}
				if !usedPID && nClear != 0 {
					fail("C17 close-pid-clear-spurious", "SetPID was never used but Close cleared the audit PID")
				}
				if nClear == 1 && len(sim.Log) > 1 && sim.Log[len(sim.Log)-1] != "close" && sim.Log[len(sim.Log)-2] != "close" {
					fail("C17 close-order", "PID clear not sent before the socket was closed")
				}
				closeFailed := len(sim.Log) > 0 && strings.HasPrefix(sim.Log[len(sim.Log)-1], "close=")
				if err != nil && !closeFailed {
					fail("C17 close-error", "first Close returned %v", err)
				}
				if err == nil && closeFailed {
					fail("C17 close-error-swallowed", "the socket's Close failed (%s) but AuditClient.Close returned nil", sim.Log[len(sim.Log)-1])
				}
			} else {
				if len(sends) != 0 || sim.Receives != recvBefore || sim.Closes != closesBefore {
					fail("C17 later-close-not-noop", "a later Close call sent %d requests, made %d receives, closed the socket %d more times", len(sends), sim.Receives-recvBefore, sim.Closes-closesBefore)
				}
			}
		}
		// NoWait requests: no receive, request recorded as pending
		switch op {
		case aRateNoWait, aEnabledNoWait, aPIDNoWait:
			if err != nil {
				fail("C17 nowait-error", "%s returned %v", c17Names[op], err)
			}
			if sim.Receives != recvBefore {
				fail("C17 nowait-received", "%s performed receives", c17Names[op])
			}
			if len(sim.Sends)-sendsBefore != 1 {
				fail("C17 nowait-sends", "%s sent %d requests", c17Names[op], len(sim.Sends)-sendsBefore)
			} else {
				pending = append(pending, sim.Sends[len(sim.Sends)-1])
			}
		case aBacklogWait, aPIDWait:
			s := sim.Sends[len(sim.Sends)-1]
			if (err == nil) != (s.Errno == 0) {
				fail("C17 wait-mode-verdict", "%s returned %v for kernel errno %d", c17Names[op], err, s.Errno)
			}
		}
		// returned rule data must survive later traffic
		for _, h := range helds {
			if !sameRules(h.got, h.snap) {
				fail("C17 rules-aliased", "rule data returned by GetRules changed after later receives (aliases the reused receive buffer)")
			}
		}
	}
	// drain: every NoWait ACK must be consumable exactly once, in order
	if !closed {
		for i := 0; i < 24 && len(pending) > 0; i++ {
			ops++
			waitAcks("final WaitForPendingACKs")
		}
		if len(pending) > 0 {
			fail("C17 acks-never-consumed", "%d NoWait acknowledgements could not be consumed by repeated WaitForPendingACKs", len(pending))
		}
		ops++
		waitAcks("WaitForPendingACKs after everything was consumed")
	}
	for _, d := range sim.All {
		if d.Handed > 1 {
			fail("C17 datagram-twice", "datagram %d handed out %d times", d.ID, d.Handed)
		}
	}
	for _, h := range helds {
		if !sameRules(h.got, h.snap) {
			fail("C17 rules-aliased", "rule data returned by GetRules changed after later receives")
		}
	}
	return viol, strings.Join(sim.Log, " "), ops, true
}

func runC17(j Job) *JobResult {
	jr := &JobResult{}
	outcomes := map[string]struct{}{}
	sigSeen := map[string]bool{}
	shapes := j.Shapes
	if len(shapes) == 0 {
		shapes = []ksim.Shape{j.Shape}
	}
	for _, shape := range shapes {
		shape := shape
		for _, h := range j.Histories {
			h := h
			skip := false
			n := envdfs.Explore(j.Bound, func(env *envdfs.Env) {
				if skip {
					return
				}
				viol, log, ops, ok := execC17(h, env, shape)
				if !ok {
					skip = true
					return
				}
				jr.Ops += ops
				outcomes[log] = struct{}{}
				for _, v := range viol {
					if !sigSeen[v.Sig] {
						sigSeen[v.Sig] = true
						jr.Viol = append(jr.Viol, v)
					}
				}
				if len(jr.Samples) < 1 && len(h) >= 4 && env.Deviations() >= 1 {
					jr.Samples = append(jr.Samples, fmt.Sprintf("history %s env=%v: %s", histNames(h, c17Names), env.Taken, log))
				}
			})
			if !skip {
				jr.Executions += n
			}
		}
	}
	jr.Outcomes = len(outcomes)
	return jr
}

func replayC17(hist []int, envp []int, shape ksim.Shape) []Viol {
	v, log, _, _ := execC17(hist, envdfs.New(envp), shape)
	fmt.Println("history:", histNames(hist, c17Names), "env:", envp, "\nkernel log:", log)
	return v
}

// c17Scale: MANY pending acknowledgements on one client.  n NoWait requests of which number k is refused,
// WaitForPendingACKs (may stop at the error), one more refused NoWait request, then waits until everything is
// consumed: every ACK exactly once, in order, every error surfaces.  n = 300, 1000 and just above every
// integer constant 16..5000 found in the tree's audit.go (compaction points, batch sizes ...).
func c17Scale(run *ev.Run) {
	ns := []int{300, 1000}
	hv := harvest.Files([]string{filepath.Join(ev.Repo(), "audit.go")}, harvest.Options{})
	for _, N := range hv.Thresholds(16, 5000) {
		ns = append(ns, int(N)+44, 2*int(N)+44)
	}
	for _, n := range ns {
		for _, k := range []int{n - 20, n / 2, 0} {
			hist := make([]int, 0, n+4)
			for i := 0; i < n; i++ {
				hist = append(hist, aRateNoWait)
			}
			hist = append(hist, aWaitAcks, aEnabledNoWait, aWaitAcks)
			env := envdfs.New(nil)
			env.Script = map[string]map[int]int{"verdict(type=1001)": {k: 1, n: 1}}
			viol, _, ops, _ := execC17(hist, env, ksim.Shape{})
			run.Add("traces_validated_against_impl", 1)
			run.Add("transitions", ops)
			for _, v := range viol {
				run.Report(ev.Violation{Sig: v.Sig, What: fmt.Sprintf("scale history: %d NoWait requests (number %d refused), WaitForPendingACKs, one more refused NoWait request, waits until drained: ", n, k) + tailStr(v.What, 1500), Replay: map[string]interface{}{"n": n, "k": k}})
			}
		}
	}
	run.Set("scale_histories_pending_acks", ns)
	// a busy system: k (transient failure, unsolicited event) pairs in front of every acknowledgement - never two
	// failures in a row, any number in total: tolerated faults and skipped events do not add up to a lost ACK
	var pairCounts []int
	for _, k := range []int{1, 5, 9, 10, 11, 12, 25, 100} {
		for _, alt := range []bool{false, true} {
			for _, hist := range [][]int{{aRateNoWait, aWaitAcks}, {aPIDNoWait, aWaitAcks, aWaitAcks}, {aRateNoWait, aEnabledNoWait, aWaitAcks, aBacklogWait}, {aBacklogWait}, {aPIDWait}, {aGetStatusSelf}, {aGetRules}} {
				env := envdfs.New(nil)
				viol, _, ops, _ := execC17(hist, env, ksim.Shape{EventFaultPairs: k, EventFaultPairsAlt: alt})
				run.Add("traces_validated_against_impl", 1)
				run.Add("transitions", ops)
				for _, v := range viol {
					run.Report(ev.Violation{Sig: v.Sig, What: fmt.Sprintf("busy system: %d (one transient receive failure, one unsolicited event) pairs in front of every acknowledgement and reply, history %v: ", k, hist) + tailStr(v.What, 1500), Replay: map[string]interface{}{"pairs": k, "alt": alt, "history": hist}})
				}
			}
		}
		pairCounts = append(pairCounts, k)
	}
	run.Set("busy_system_failure_event_pairs", pairCounts)
}

// c17TwoClients: several AuditClients in ONE process (each on its own simulated kernel): every interleaving of
// X:[SetPID, Close, Close] Y:[SetPID, Close] Z:[SetRateLimit(NoWait), Close].  What one client does on Close
// depends on ITS history only: X and Y clear the PID once each before closing their socket once, Z never.
func c17TwoClients(run *ev.Run) {
	type cl struct {
		name string
		prog []string
		sim  *ksim.Sim
		c    *libaudit.AuditClient
		pc   int
	}
	progs := [][]string{{"SetPID", "Close", "Close"}, {"SetPID", "Close"}, {"Rate", "Close"}}
	var n int64
	var rec func(order []int, left []int)
	runOrder := func(order []int) {
		var cs []*cl
		for i, p := range progs {
			sim := ksim.New(nil)
			sim.NoDeviations = true
			cs = append(cs, &cl{name: string(rune('X' + i)), prog: p, sim: sim, c: &libaudit.AuditClient{Netlink: sim}})
		}
		var trace []string
		for _, i := range order {
			c := cs[i]
			op := c.prog[c.pc]
			c.pc++
			trace = append(trace, c.name+"."+op)
			switch op {
			case "SetPID":
				_ = c.c.SetPID(libaudit.WaitForReply)
			case "Rate":
				_ = c.c.SetRateLimit(3, libaudit.NoWait)
			case "Close":
				_ = c.c.Close()
			}
		}
		n++
		for i, c := range cs {
			clears := 0
			for _, s := range c.sim.Sends {
				if isPIDClear(s) {
					clears++
				}
			}
			wantClears := 1
			if i == 2 {
				wantClears = 0
			}
			if clears != wantClears || c.sim.Closes != 1 {
				run.Report(ev.Violation{Sig: "C17 close-depends-on-other-clients", What: fmt.Sprintf("three clients in one process, calls in the order %v: client %s (program %v) sent %d PID-clear requests (want %d) and closed its socket %d times (want 1)", trace, c.name, c.prog, clears, wantClears, c.sim.Closes), Replay: map[string]interface{}{"order": trace}})
				return
			}
		}
	}
	rec = func(order []int, left []int) {
		done := true
		for i, l := range left {
			if l > 0 {
				done = false
				left[i]--
				rec(append(order, i), left)
				left[i]++
			}
		}
		if done {
			runOrder(order)
		}
	}
	rec(nil, []int{3, 2, 2})
	run.Add("traces_validated_against_impl", n)
	run.Set("multi_client_interleavings", n)
}

// ---- concurrent Close under the scheduler --------------------------------------

type closeProg struct {
	Threads []int // number of Close calls per thread
	SetPID  bool
}

type closeHarness struct {
	p    closeProg
	sim  *ksim.Sim
	c    *libaudit.AuditClient
	errs []error
	mu   sync.Mutex
}

func newCloseHarness(p closeProg) *closeHarness {
	h := &closeHarness{p: p, sim: ksim.New(nil)}
	h.c = &libaudit.AuditClient{Netlink: h.sim}
	if p.SetPID {
		_ = h.c.SetPID(libaudit.NoWait)
	}
	return h
}

func (h *closeHarness) Body(x *sched.Exec) {
	x.Prime = true
	for i, n := range h.p.Threads {
		n := n
		x.Go(fmt.Sprintf("t%d", i), func() {
			for k := 0; k < n; k++ {
				sched.Yield("call-Close")
				err := h.c.Close()
				h.mu.Lock()
				h.errs = append(h.errs, err)
				h.mu.Unlock()
			}
		})
	}
}

func (h *closeHarness) Finish(res *sched.Result) (string, []explore.Finding) {
	var f []explore.Finding
	if res != nil && (res.Deadlock || res.Panic != nil) {
		return "aborted", nil
	}
	if h.sim.Closes != 1 {
		f = append(f, explore.Finding{Sig: "close-count", What: fmt.Sprintf("socket closed %d times by concurrent Close calls", h.sim.Closes)})
	}
	nClear := 0
	for _, s := range h.sim.Sends {
		if isPIDClear(s) {
			nClear++
		}
	}
	want := 0
	if h.p.SetPID {
		want = 1
	}
	if nClear != want {
		f = append(f, explore.Finding{Sig: "close-pid-clear-count", What: fmt.Sprintf("%d PID-clear requests sent, want %d", nClear, want)})
	}
	return strings.Join(h.sim.Log, " "), f
}

func closePrograms() []closeProg {
	var out []closeProg
	for _, pid := range []bool{false, true} {
		out = append(out, closeProg{Threads: []int{1, 1}, SetPID: pid}, closeProg{Threads: []int{2, 1}, SetPID: pid},
			closeProg{Threads: []int{1, 1, 1}, SetPID: pid}, closeProg{Threads: []int{2, 2}, SetPID: pid}, closeProg{Threads: []int{2, 1, 1}, SetPID: pid})
	}
	return out
}

func raceMain() {
	var j struct{ Reps int }
	_ = json.NewDecoder(os.Stdin).Decode(&j)
	var progress int64
	go func() {
		last, idle := int64(-1), 0
		for {
			time.Sleep(time.Second)
			now := atomic.LoadInt64(&progress)
			if now == last {
				idle++
			} else {
				idle = 0
			}
			last = now
			if idle >= 120 {
				fmt.Println("RACE-PASS-HANG")
				os.Exit(4)
			}
		}
	}()
	var it int64
	for rep := 0; rep < j.Reps; rep++ {
		for _, p := range closePrograms() {
			h := newCloseHarness(p)
			var wg sync.WaitGroup
			start := make(chan struct{})
			for _, n := range p.Threads {
				n := n
				wg.Add(1)
				go func() {
					defer wg.Done()
					<-start
					for k := 0; k < n; k++ {
						_ = h.c.Close()
					}
				}()
			}
			close(start)
			wg.Wait()
			if _, f := h.Finish(nil); len(f) > 0 {
				fmt.Printf("FREE-RUN-VIOLATION %s: %s\n", f[0].Sig, f[0].What)
			}
			it++
			atomic.AddInt64(&progress, 1)
		}
	}
	fmt.Printf("{\"iterations\":%d}\n", it)
}

func checkC17(tier string, raceBin string) int {
	run := ev.Begin("C17", tier, "model_checking")
	maxLen, bound := 4, 2
	if tier == "thorough" {
		maxLen, bound = 5, 4
	}
	hs := allHistories([]int{0, 1, 2, 3, 4, 5, 6, 7}, maxLen)
	var jobs []interface{}
	for _, c := range chunk(hs, 64) {
		jobs = append(jobs, Job{Kind: "c17", Histories: c, Bound: bound})
	}
	// time passes between calls, the effective uid changes between calls (nothing the kernel answers depends on it)
	for _, c := range chunk(allHistories([]int{aTimePasses, aEuidUser, aRateNoWait, aWaitAcks, aPIDWait, aBacklogWait, aClose}, 4), 16) {
		jobs = append(jobs, Job{Kind: "c17", Histories: c, Bound: 1})
	}
	// histories with a GetStatus whose reply names this very process, and transports whose sequence numbers wrap
	// past 2^32 (and cross 2^31, 2^16) while requests are pending
	for _, c := range chunk(allHistories([]int{aGetStatusSelf, aRateNoWait, aWaitAcks, aPIDWait, aClose}, 3), 8) {
		jobs = append(jobs, Job{Kind: "c17", Histories: c, Bound: 1})
	}
	wrapH := allHistories([]int{aRateNoWait, aEnabledNoWait, aWaitAcks, aPIDNoWait, aClose}, 5)
	for _, stt := range []uint32{1<<32 - 3, 1<<32 - 2, 1<<31 - 3, 1<<16 - 3} {
		for _, c := range chunk(wrapH, 8) {
			jobs = append(jobs, Job{Kind: "c17", Histories: c, Bound: 1, Shapes: []ksim.Shape{{SeqStart: stt}}})
		}
	}
	// sweeps over what the small alphabet holds constant: every single nlmsg_flags bit on everything the
	// kernel sends back, and every errno 1..133 (+512..530, 4095) as a verdict, for the short histories in
	// which one acknowledgement decides the outcome (NoWait + wait, SetPID in both modes + Close, listing)
	var sweepH [][]int
	for _, h := range allHistories([]int{aRateNoWait, aWaitAcks, aPIDNoWait, aPIDWait, aGetRules, aClose}, 3) {
		sweepH = append(sweepH, h)
	}
	var shapes []ksim.Shape
	for b := 0; b < 16; b++ {
		shapes = append(shapes, ksim.Shape{ReplyFlags: 1 << b})
	}
	shapes = append(shapes, ksim.Shape{ReplyFlags: 0xFFFF})
	for e := 2; e <= 4095; e++ {
		if e <= 133 || (e >= 512 && e <= 530) || e == 4095 {
			shapes = append(shapes, ksim.Shape{Errno: e})
		}
	}
	for i := 0; i < len(shapes); i += 6 {
		k := i + 6
		if k > len(shapes) {
			k = len(shapes)
		}
		jobs = append(jobs, Job{Kind: "c17", Histories: sweepH, Bound: 2, Shapes: shapes[i:k]})
	}
	collect(run, "C17", jobs, nil)
	stackPass(run, "C17")
	afterlifePass(run, "C17")
	panicPass(run, "C17")
	packageCounterPass(run, "C17", [][]int{{aRateNoWait, aEnabledNoWait, aWaitAcks, aClose}, {aPIDWait, aRateNoWait, aWaitAcks, aGetRules, aClose}, {aGetStatusSelf, aBacklogWait, aPIDNoWait, aWaitAcks, aClose}}, func(h []int) []Viol {
		v, _, _, _ := execC17(h, envdfs.New(nil), ksim.Shape{})
		return v
	})
	c17Scale(run)
	c17TwoClients(run)
	// concurrent Close: all interleavings
	var total int64
	for _, p := range closePrograms() {
		p := p
		e := &explore.Explorer{Bound: -1, MaxExec: 200000, Horizon: 2000, NewHarness: func() explore.Harness { return newCloseHarness(p) }}
		r := e.Explore()
		total += r.Executions
		run.Add("traces_validated_against_impl", r.Executions)
		run.Add("transitions", r.Executions*int64(r.MaxChoices+1))
		for _, n := range r.Nondeterminism {
			run.Errorf("nondeterminism: %s", n)
		}
		for _, f := range r.Findings {
			if strings.HasPrefix(f.Sig, "ERROR/") {
				run.Errorf("%s", f.What)
				continue
			}
			run.Report(ev.Violation{Sig: "C17 concurrent-" + f.Sig, What: f.What + fmt.Sprintf(" | program %+v", p), Replay: map[string]interface{}{"program": p, "schedule": f.Schedule}})
		}
	}
	run.Set("concurrent_close_schedules", total)
	run.Set("histories_enumerated", len(hs))
	run.Set("verdict_deviation_bound", bound)
	run.Set("exhaustive", true)
	reps := 300
	if tier == "thorough" {
		reps = 3000
	}
	runRace(run, raceBin, "C17", map[string]int{"Reps": reps})
	run.Set("explanation", fmt.Sprintf("every well-formed history of <=%d ops over {2 NoWait setters, WaitForPendingACKs, WaitForReply setter, SetPID in both modes, GetRules, Close} (misuse histories skipped) x every assignment of errno {0,EPERM} to at most %d requests, against the simulated kernel with one reused poisoned receive buffer; followed by drain calls so that exactly-once consumption is decided; plus every interleaving of 2-3 threads calling Close concurrently (scheduler points at Once.Do) and a free-running -race pass (sampling).", maxLen, bound))
	run.Assume("stop-or-continue after the first ACK error is not fixed by the statement: either is accepted, but the ACKs consumed must be a prefix of the pending list and none may be consumed twice")
	_ = bytes.Equal
	return run.Finish()
}
