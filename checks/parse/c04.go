package main

import (
	"fmt"
	"reflect"
	"sort"
	"strconv"
	"strings"
	"time"
	_ "time/tzdata"
	"unsafe"

	"github.com/elastic/go-libaudit/v2/auparse"

	"verif/engine/collide"
	"verif/engine/enumx"
	"verif/engine/guard"
	"verif/refdata"
)

func init() {
	gens["c04-types"] = c04Types
	gens["c04-ms"] = c04Ms
	gens["c04-product"] = c04Product
	gens["c04-errors"] = c04Errors
	gens["c04-bodybytes"] = c04BodyBytes
	gens["c04-long"] = c04Long
	gens["c04-runes"] = c04Runes
	gens["c04-literals"] = c04Literals
	gens["c04-collisions"] = c04Collisions
	gens["c04-now"] = c04Now
	gens["c04-selfsimilar"] = c04SelfSimilar
	gens["c04-related"] = c04Related
	gens["c04-samebuffer"] = c04SameBuffer
}

// c04Collisions: pairs of DIFFERENT well-formed headers of equal length that collide under the hash
// functions caches are keyed with (engine/collide), parsed back to back in both orders, plus pairs that
// only share their length and first / last bytes: every record reports ITS header.
func c04Collisions(c *enumx.Ctx) {
	gen := func(i int) string {
		return fmt.Sprintf("audit(17000%05d.%03d:%d):", (i*7919)%100000, (i*104729)%1000, 100000+(i*31)%900000)
	}
	spans := map[string]func(s string) string{
		"from-audit":      func(s string) string { return s },
		"from-paren":      func(s string) string { return s[strings.Index(s, "("):] },
		"inside":          func(s string) string { return s[strings.Index(s, "(")+1:] },
		"inside-to-paren": func(s string) string { return s[strings.Index(s, "(")+1 : strings.Index(s, ")")] },
		"paren-to-paren":  func(s string) string { return s[strings.Index(s, "(") : strings.Index(s, ")")+1] },
	}
	var names []string
	for n := range spans {
		names = append(names, n)
	}
	sort.Strings(names)
	n := 400000
	if c.Tier == "thorough" {
		n = 1500000
	}
	total := 0
	for _, sn := range names {
		pairs := collide.Find(n, gen, spans[sn], 3)
		total += len(pairs)
		for _, p := range pairs {
			if !c.Mine() {
				continue
			}
			for _, order := range [][2]string{{p.A, p.B}, {p.B, p.A}} {
				for _, h := range order {
					// "audit(S.mmm:N):" -> header fields
					in := h[strings.Index(h, "(")+1 : strings.Index(h, ")")]
					dot, colon := strings.Index(in, "."), strings.Index(in, ":")
					checkSuccess(c, header{"SYSCALL", 1300, in[:dot], in[dot+1 : colon], in[colon+1:], " a=b"})
				}
			}
		}
	}
	// same length, same first and last bytes, different middle
	for i := 0; i < 200; i++ {
		if !c.Mine() {
			continue
		}
		checkSuccess(c, header{"SYSCALL", 1300, "1700000000", "123", fmt.Sprint(100000 + i), " a=b"})
		checkSuccess(c, header{"SYSCALL", 1300, "1700000000", "123", fmt.Sprint(100000 + (i*37)%200), " a=b"})
		checkSuccess(c, header{"SYSCALL", 1300, fmt.Sprint(1700000000 + i), "123", "100000", " a=b"})
	}
	c.Sample(fmt.Sprintf("%d colliding header pairs under fnv32/fnv32a/crc32/crc32c/adler32/... over 5 spans, each parsed back to back in both orders", total))
}

// c04Literals: bodies made of the string literals of the tree's auparse package (whatever its code
// compares keys and values against): every key-like literal = every literal, plain and quoted, for the
// record-type classes and every AUDIT_ type the package names.  The header fields and ToMapStr's header
// keys do not depend on what the body says.
func c04Literals(c *enumx.Ctx) {
	hv := harvestedAuparse()
	types := append([]uint16{}, typeClasses...)
	for _, a := range hv.Audit {
		if t, err := auparse.GetAuditMessageType(a); err == nil {
			types = append(types, uint16(t))
		}
	}
	keyLike := func(s string) bool {
		if s == "" || len(s) > 24 {
			return false
		}
		for _, ch := range s {
			if !(ch >= 'a' && ch <= 'z' || ch >= '0' && ch <= '9' || ch == '_' || ch == '-') {
				return false
			}
		}
		return true
	}
	var keys, vals []string
	for _, l := range hv.Strings {
		if keyLike(l) {
			keys = append(keys, l)
		}
		if len(l) <= 40 && !strings.ContainsAny(l, "\x00\n") {
			vals = append(vals, l)
		}
	}
	for _, k := range keys {
		for _, v := range vals {
			for _, t := range types {
				if !c.Mine() {
					continue
				}
				name := auparse.AuditMessageType(t).String()
				checkSuccess(c, header{name, t, "1700000000", "123", "42", " pid=1 " + k + "=" + v + " uid=0"})
				checkSuccess(c, header{name, t, "1700000000", "123", "42", " " + k + "=\"" + v + "\" res=1"})
			}
		}
	}
	c.Sample(fmt.Sprintf("%d key-like x %d literals of auparse x %d record types x plain/quoted", len(keys), len(vals), len(types)))
}

// c04Runes: multi-byte text (every Unicode white-space code point, invisible characters,
// malformed UTF-8) at the start, in the middle and at the end of the body, single and doubled:
// "trimmed" means the same for ParseLogLine and Parse, and nothing else is removed.
func c04Runes(c *enumx.Ctx) {
	shapes := []string{"%s", " %s", "%s ", " a=b%s", " a=b %s", " %sa=b", " %s a=b", " a=%sb c=d", " a=b%s c=d", " a=b\t%s\n"}
	for _, r := range enumx.HostileRunes {
		for _, rep := range []int{1, 2} {
			for _, shape := range shapes {
				for _, t := range []uint16{1300, 1112} {
					if !c.Mine() {
						continue
					}
					body := fmt.Sprintf(shape, strings.Repeat(r, rep))
					checkSuccess(c, header{auparse.AuditMessageType(t).String(), t, "1700000000", "123", "42", body})
				}
			}
		}
	}
	// pairs of different fragments at the end (mixed white space)
	for _, a := range enumx.HostileRunes {
		for _, b := range enumx.HostileRunes {
			if !c.Mine() {
				continue
			}
			checkSuccess(c, header{"SYSCALL", 1300, "1700000000", "123", "42", " a=b" + a + b})
		}
	}
	c.Sample("type=SYSCALL msg=audit(1700000000.123:42): a=b\u00a0 => RawData trimmed the same way by ParseLogLine and Parse")
}

// c04Long: long bodies and long type-name / number parts (limits such as the kernel's 8970
// byte record size live far above the boundary product).
func c04Long(c *enumx.Ctx) {
	for _, n := range []int{10, 100, 1000, 4095, 4096, 4097, 8900, 8969, 8970, 8971, 9000, 16384, 65535, 65536, 70000, 1 << 20} {
		for _, f := range []string{"a=b ", "x", " ", "msg=audit(1.002:3): ", "\"", ")"} {
			for _, t := range []uint16{1300, 1112, 65535} {
				if !c.Mine() {
					continue
				}
				body := " k=v " + strings.Repeat(f, (n+len(f)-1)/len(f))[:n] + "end"
				checkSuccess(c, header{auparse.AuditMessageType(t).String(), t, "1700000000", "123", "42", body})
			}
		}
	}
	// leading zeros make the numeric parts long without changing their value
	for _, z := range []int{1, 8, 9, 10, 11, 19, 20, 40, 200} {
		if !c.Mine() {
			continue
		}
		checkSuccess(c, header{"SYSCALL", 1300, strings.Repeat("0", z) + "1700000000", "123", strings.Repeat("0", z) + "42", " a=b"})
	}
}

// c04BodyBytes: every byte value (and every pair of "interesting" bytes) inside the
// body: RawData / raw_msg must be exactly the trimmed text after msg=, and
// ParseLogLine must agree with Parse, whatever bytes the body holds.
func c04BodyBytes(c *enumx.Ctx) {
	for b := 0; b < 256; b++ {
		for _, shape := range []string{" a=%sb", " %s", " key=\"x%sy\" z=1", ":%s: a=b", " a=b%s"} {
			if !c.Mine() {
				continue
			}
			body := fmt.Sprintf(shape, string([]byte{byte(b)}))
			checkSuccess(c, header{"SYSCALL", 1300, "1700000000", "123", "42", body})
		}
	}
	var special []byte
	for b := 0; b < 0x21; b++ {
		special = append(special, byte(b))
	}
	special = append(special, 0x7f, 0x80, 0x85, 0xa0, 0xc2, 0xe2, 0xff, '\\', '"', '\'', '=', ')', '(', ':')
	for _, x := range special {
		for _, y := range special {
			if !c.Mine() {
				continue
			}
			checkSuccess(c, header{"USER_LOGIN", 1112, "1", "000", "7", " a=" + string([]byte{x}) + "m" + string([]byte{y}) + " b=c"})
		}
	}
	c.Sample("type=SYSCALL msg=audit(1700000000.123:42): a=\\x1db => RawData keeps the byte")
}

// header is the independent description of a written header.
type header struct {
	name string // type name as written
	typ  uint16
	sec  string
	ms   string
	seq  string
	body string
}

func (h header) line() string {
	return "type=" + h.name + " msg=audit(" + h.sec + "." + h.ms + ":" + h.seq + "):" + h.body
}

// checkSuccess applies the success-side oracle of C04 to a well-formed header.
func checkSuccess(c *enumx.Ctx, h header) {
	line := h.line()
	c.Begin(func() string { return strconv.Quote(line) })
	c.Try("C04", func() {
		sec, _ := strconv.ParseInt(h.sec, 10, 64)
		ms, _ := strconv.ParseInt(h.ms, 10, 64)
		seq, _ := strconv.ParseUint(h.seq, 10, 32)
		wantTime := time.Unix(sec, ms*1_000_000)
		rest := line[strings.Index(line, "msg=")+4:]
		wantRaw := strings.TrimSpace(rest)

		keep := strings.Clone(line)
		m, err := auparse.ParseLogLine(line)
		if line != keep {
			// a Go string is immutable; the text the caller handed in reads the same afterwards
			c.Report("C04 input-line-modified", fmt.Sprintf("after ParseLogLine the caller's line reads %q; it was %q", line, keep), nil)
			return
		}
		if err != nil || m == nil {
			c.Report("C04 valid-header-rejected", fmt.Sprintf("ParseLogLine(%q) = (%v, %v)", line, m, err), nil)
			return
		}
		ok := true
		if roEvery++; roEvery%53 == 0 {
			// the same line in memory that cannot be written (a string constant, a read-only file mapping), its last byte
			// in front of an inaccessible page: same answer, no fault
			if g := c04Region(); g != nil && len(line) <= g.Cap() {
				ro := g.ReadOnly(line)
				var m3 *auparse.AuditMessage
				var err3 error
				r := guard.Call(func() { m3, err3 = auparse.ParseLogLine(ro) })
				if r == nil && m3 != nil {
					_ = m3.ToMapStr()
					_, _ = m3.Data()
				}
				bad := r != nil || err3 != nil || m3 == nil || m3.RecordType != m.RecordType || m3.Sequence != m.Sequence || strings.Clone(m3.RawData) != m.RawData
				g.Writable()
				if bad {
					c.Report("C04 line-in-read-only-memory", fmt.Sprintf("ParseLogLine(%q) with the line in read-only memory: fault %v, result (%v, %v); on the heap it parses", keep, r, m3 != nil, err3), nil)
					return
				}
			}
		}
		if uint16(m.RecordType) != h.typ {
			c.Report("C04 record-type", fmt.Sprintf("ParseLogLine(%q).RecordType = %d, written type %d", line, m.RecordType, h.typ), nil)
			ok = false
		}
		if !m.Timestamp.Equal(wantTime) || m.Timestamp.Location() != time.UTC {
			c.Report("C04 timestamp", fmt.Sprintf("ParseLogLine(%q).Timestamp = %v (loc %v), written %s.%s = %v UTC", line, m.Timestamp, m.Timestamp.Location(), h.sec, h.ms, wantTime.UTC()), nil)
			ok = false
		}
		if uint64(m.Sequence) != seq {
			c.Report("C04 sequence", fmt.Sprintf("ParseLogLine(%q).Sequence = %d, written %s", line, m.Sequence, h.seq), nil)
			ok = false
		}
		if m.RawData != wantRaw {
			c.Report("C04 rawdata", fmt.Sprintf("ParseLogLine(%q).RawData = %q, want the trimmed text after msg= %q", line, m.RawData, wantRaw), nil)
			ok = false
		}
		// Parse agrees
		m2, err2 := auparse.Parse(auparse.AuditMessageType(h.typ), rest)
		if err2 != nil || m2 == nil {
			c.Report("C04 parse-disagrees", fmt.Sprintf("ParseLogLine accepted %q but Parse(%d, %q) = %v", line, h.typ, rest, err2), nil)
			return
		}
		if m2.RecordType != m.RecordType || !m2.Timestamp.Equal(m.Timestamp) || m2.Sequence != m.Sequence || m2.RawData != m.RawData {
			c.Report("C04 parse-disagrees", fmt.Sprintf("ParseLogLine and Parse disagree on %q: %v/%v/%d/%q vs %v/%v/%d/%q", line, m.RecordType, m.Timestamp, m.Sequence, m.RawData, m2.RecordType, m2.Timestamp, m2.Sequence, m2.RawData), nil)
			ok = false
		}
		// ToMapStr: header keys win over body keys
		ms2 := m.ToMapStr()
		wantKeys := map[string]string{
			"record_type": m.RecordType.String(),
			"@timestamp":  wantTime.UTC().String(),
			"sequence":    strconv.FormatUint(seq, 10),
			"raw_msg":     wantRaw,
		}
		for k, w := range wantKeys {
			if g, _ := ms2[k].(string); g != w {
				c.Report("C04 tomapstr:"+k, fmt.Sprintf("ToMapStr()[%q] = %q, want %q from the header of %q", k, ms2[k], w, line), nil)
				ok = false
			}
		}
		// exported fields the caller may fill in (Payload interface{} ...) are the caller's: whatever is put there,
		// maps that use the header's key names included, the header keys come from the header
		mv := reflect.ValueOf(m).Elem()
		hostile := []interface{}{
			map[string]interface{}{"record_type": "payload", "@timestamp": "payload", "sequence": "payload", "raw_msg": "payload", "x": 1},
			map[string]string{"record_type": "payload", "@timestamp": "payload", "sequence": "payload", "raw_msg": "payload"},
			[]string{"record_type", "payload"}, "payload", 42, struct{ Sequence string }{"payload"},
		}
		for fi := 0; fi < mv.NumField(); fi++ {
			f := mv.Field(fi)
			if !f.CanSet() || f.Kind() != reflect.Interface {
				continue
			}
			for _, hv := range hostile {
				f.Set(reflect.ValueOf(hv))
				msp := m.ToMapStr()
				for k, w := range wantKeys {
					if g, _ := msp[k].(string); g != w {
						c.Report("C04 tomapstr-caller-field:"+k, fmt.Sprintf("with the exported field %s set to %#v, ToMapStr()[%q] = %v, want %q from the header of %q", mv.Type().Field(fi).Name, hv, k, msp[k], w, line), nil)
						ok = false
					}
				}
			}
			f.Set(reflect.Zero(f.Type()))
		}
		// the same instant in another representation: the exported Timestamp re-zoned by the caller (display code does
		// that) to fixed and named zones - offset zero but not UTC, fractional-hour, +14h, the process's local zone:
		// @timestamp is the header's instant in UTC
		orig := m.Timestamp
		for _, loc := range zones() {
			m.Timestamp = orig.In(loc)
			if g, _ := m.ToMapStr()["@timestamp"].(string); g != wantKeys["@timestamp"] {
				c.Report("C04 tomapstr-rezoned-timestamp", fmt.Sprintf("with Timestamp re-zoned to %v (same instant), ToMapStr()[@timestamp] = %q, want %q from the header of %q", loc, g, wantKeys["@timestamp"], line), nil)
				ok = false
				break
			}
		}
		m.Timestamp = orig
		// "always": also after the caller has post-processed the map it was given (dropped raw_msg,
		// renamed @timestamp, turned the sequence into a number) - the next ToMapStr starts from the header
		delete(ms2, "raw_msg")
		delete(ms2, "@timestamp")
		ms2["sequence"] = seq
		ms2["record_type"] = "scribbled"
		ms3 := m.ToMapStr()
		for k, w := range wantKeys {
			if g, _ := ms3[k].(string); g != w {
				c.Report("C04 tomapstr-after-edit:"+k, fmt.Sprintf("after the caller edited the map returned by ToMapStr, the next ToMapStr()[%q] = %v, want %q from the header of %q", k, ms3[k], w, line), nil)
				ok = false
			}
		}
		if ok {
			c.Nontrivial()
		}
	})
}

var roEvery int
var c04Reg *guard.Region

func c04Region() *guard.Region {
	if c04Reg == nil {
		r, err := guard.New(1 << 16)
		if err != nil {
			return nil
		}
		c04Reg = r
	}
	return c04Reg
}

var zoneList []*time.Location

func zones() []*time.Location {
	if zoneList == nil {
		zoneList = []*time.Location{time.UTC, time.Local, time.FixedZone("GMT", 0), time.FixedZone("", 0), time.FixedZone("UTC", 0), time.FixedZone("CET", 3600), time.FixedZone("X", -11*3600), time.FixedZone("Y", 1), time.FixedZone("Z", -1)}
		for _, n := range []string{"Europe/London", "Europe/Lisbon", "Africa/Abidjan", "Atlantic/Reykjavik", "Etc/GMT", "Etc/UCT", "America/New_York", "Asia/Kolkata", "Asia/Kathmandu", "Pacific/Kiritimati", "Pacific/Pago_Pago", "Australia/Lord_Howe"} {
			if l, err := time.LoadLocation(n); err == nil {
				zoneList = append(zoneList, l)
			}
		}
	}
	return zoneList
}

func typeSpellings(t uint16) []string {
	name := auparse.AuditMessageType(t).String()
	return []string{name, strings.ToLower(name), fmt.Sprintf("UNKNOWN[%d]", t)}
}

func c04Types(c *enumx.Ctx) {
	secs := []string{"1700000000"}
	seqs := []string{"42"}
	bodies := []string{" a=b"}
	if c.Tier == "thorough" {
		secs = []string{"0", "1700000000", "17179869183"}
		seqs = []string{"0", "42", "4294967295"}
		bodies = []string{"", " a=b msg=audit(1.002:3): x", " record_type=X sequence=9 @timestamp=Y raw_msg=Z "}
	}
	for t := 0; t < 65536; t++ {
		for _, name := range typeSpellings(uint16(t)) {
			for _, s := range secs {
				for _, q := range seqs {
					for _, b := range bodies {
						if !c.Mine() {
							continue
						}
						checkSuccess(c, header{name, uint16(t), s, "123", q, b})
					}
				}
			}
		}
	}
	// independent anchor: kernel names from linux/audit.h
	if c.Shard == 0 {
		unknown := 0
		for k, v := range refdata.Audit() {
			if v < 1000 || v > 2999 || strings.Contains(k, "FIRST") || strings.Contains(k, "LAST") || !strings.HasPrefix(k, "AUDIT_") {
				continue
			}
			name := strings.TrimPrefix(k, "AUDIT_")
			if name == "GET" || name == "SET" || name == "LIST" || name == "ADD" || name == "DEL" {
				// control message types: named like this in the library too
			}
			got, err := auparse.GetAuditMessageType(name)
			if err != nil {
				unknown++
				continue
			}
			c.Begin(func() string { return "kernel name " + name })
			if uint64(got) != v {
				c.Report("C04 kernel-name-number:"+name, fmt.Sprintf("type name %s maps to %d, linux/audit.h says %d", name, got, v), nil)
			} else {
				checkSuccess(c, header{name, uint16(v), "1700000000", "000", "7", " x=y"})
			}
		}
		c.Count("kernel_header_names_unknown_to_library", int64(unknown))
	}
	c.Sample(header{"UNKNOWN[1300]", 1300, "1700000000", "123", "42", " a=b"}.line())
}

var (
	bTypes  = []uint16{0, 1, 999, 1000, 1006, 1100, 1112, 1199, 1299, 1300, 1302, 1305, 1306, 1307, 1309, 1319, 1320, 1326, 1327, 1329, 1336, 1399, 1400, 1700, 1799, 1800, 2000, 2099, 2100, 2500, 2999, 3000, 4096, 9999, 32767, 32768, 65534, 65535, 1123, 1130}
	bSecs   = []string{"0", "1", "9", "10", "999999999", "1000000000", "1700000000", "2147483647", "2147483648", "4294967295", "4294967296", "9999999999", "17179869183", "0000000001", "01700000000", "8589934592"}
	bMs     = []string{"000", "001", "009", "010", "099", "100", "500", "900", "990", "999"}
	bSeqs   = []string{"0", "1", "9", "10", "99", "65535", "65536", "65537", "16777215", "16777216", "16777217", "2147483647", "2147483648", "2147483649", "4294967294", "4294967295", "00", "007", "0000000042", "04294967295", "123456", "1000000", "4000000000", "19469538"}
	bBodies = []string{
		"", " ", " a=b", ": a=b", " msg=audit(9.999:9): inner", " x=) y=( z=: w=.", " (", " )", " :", " .", " record_type=FAKE", " @timestamp=FAKE", " sequence=FAKE", " raw_msg=FAKE",
		" record_type=FAKE @timestamp=FAKE sequence=FAKE raw_msg=FAKE tags=FAKE error=FAKE", " msg='op=login acct=\"root\" res=success'", " key=\"a\"", " a=\"unterminated", " a='x", "  leading and trailing  ",
		" type=SYSCALL msg=audit(1.002:3): nested", " audit(1.1:1):", " \t tab", " msg=", " msg=msg=msg=", " arch=c000003e syscall=2 success=yes exit=0", " saddr=0200", "\x00", " \xff\xfe", " =",
	}
)

// c04Now: records stamped around the present (the real clock of the machine that runs the check): seconds = now + d for
// d from ten minutes ago to a day ahead - a record from a host whose clock runs ahead, a replayed log.  The header is
// reported as written, whatever the reader's clock says.
func c04Now(c *enumx.Ctx) {
	now := time.Now().Unix()
	for _, d := range []int64{-86400, -600, -301, -300, -299, -61, -60, -59, -2, -1, 0, 1, 2, 5, 30, 59, 60, 61, 120, 299, 300, 301, 600, 3599, 3600, 3601, 86400, 31536000} {
		for _, ms := range []string{"000", "001", "500", "999"} {
			for _, typ := range []uint16{1300, 1112, 1006} {
				if !c.Mine() {
					continue
				}
				checkSuccess(c, header{auparse.AuditMessageType(typ).String(), typ, strconv.FormatInt(now+d, 10), ms, "77", " a=b"})
			}
		}
	}
	c.Sample("type=SYSCALL msg=audit(<now+60>.000:77): a=b => @timestamp is now+60 s")
}

// c04SelfSimilar: bodies that repeat the record's OWN header (a dispatcher relaying a record it was given, text
// quoted inside a message): at the very start, after blanks, after a colon, twice, and another record's header - RawData is
// the trimmed text after msg=, all of it.
func c04SelfSimilar(c *enumx.Ctx) {
	for _, h := range []header{{"SYSCALL", 1300, "1700000000", "123", "42", ""}, {"USER_CMD", 1123, "1", "001", "4294967295", ""}, {"UNKNOWN[1999]", 1999, "17179869183", "999", "0", ""}} {
		own := "audit(" + h.sec + "." + h.ms + ":" + h.seq + ")"
		other := "audit(" + h.sec + "." + h.ms + ":7)"
		for _, b := range []string{own, " " + own, ": " + own, " " + own + ": a=b", " " + own + ": " + own + ": a=b", ": " + own + " a=b", " " + other + ": a=b", " a=b " + own + ": c=d", " msg=" + own + ": a=b", " " + own[:len(own)-1], " " + own + ":", own + own} {
			if !c.Mine() {
				continue
			}
			hh := h
			hh.body = b
			checkSuccess(c, hh)
		}
	}
	c.Sample("type=SYSCALL msg=audit(1700000000.123:42): audit(1700000000.123:42): a=b => RawData holds both copies")
}

// c04Related: headers parsed (and rendered) BACK TO BACK whose numbers are arithmetically related - seconds that differ
// by 2^k (k = 8 .. 33) or by a multiple of 2^32, sequence numbers that differ by 2^k, everything else equal - in both
// orders: whatever is remembered of the previous record under a narrowed or hashed key answers for the next one.
func c04Related(c *enumx.Ctx) {
	for _, base := range []uint64{5, 1490137971, 1<<31 - 1} {
		var others []uint64
		for k := uint(8); k <= 33; k++ {
			others = append(others, base+1<<k, base^(1<<k))
		}
		for m := uint64(1); m <= 3; m++ {
			others = append(others, base+m<<32)
		}
		for _, o := range others {
			if o > 17179869183 || !c.Mine() {
				continue
			}
			for _, ms := range []string{"000", "123"} {
				for _, pair := range [][2]uint64{{base, o}, {o, base}} {
					for _, sec := range pair {
						checkSuccess(c, header{"SYSCALL", 1300, fmt.Sprint(sec), ms, "77", " a=b"})
					}
				}
			}
		}
	}
	for _, base := range []uint64{0, 77, 1<<31 - 1} {
		for k := uint(8); k <= 31; k++ {
			if !c.Mine() {
				continue
			}
			o := base ^ (1 << k)
			for _, pair := range [][2]uint64{{base, o}, {o, base}} {
				for _, seq := range pair {
					checkSuccess(c, header{"SYSCALL", 1300, "1700000000", "123", fmt.Sprint(seq), " a=b"})
				}
			}
		}
	}
	c.Sample("audit(1490137971.123:77) then audit(5785105267.123:77) (2^32 s later): each ToMapStr()[@timestamp] is its own")
}

// c04SameBuffer: a reader that keeps ONE line buffer and hands the parser a string view of it (unsafe.String, no copy):
// the next line sits at the same address with the same length.  For every ordered pair of record type names of equal
// length: line A is parsed, the buffer is overwritten with line B (other type, time, sequence, body) and parsed again -
// the answer is that of a fresh copy of line B.  (What was remembered by address or length of the previous input shows.)
func c04SameBuffer(c *enumx.Ctx) {
	byLen := map[int][]string{}
	for t := 1000; t < 3000; t++ {
		n := auparse.AuditMessageType(t).String()
		if !strings.HasPrefix(n, "UNKNOWN") {
			byLen[len(n)] = append(byLen[len(n)], n)
		}
	}
	buf := make([]byte, 0, 512)
	pairs := 0
	for _, names := range byLen {
		for _, a := range names {
			for _, b := range names {
				if a == b || !c.Mine() {
					continue
				}
				la := "type=" + a + " msg=audit(1700000000.123:42): a=b"
				lb := "type=" + b + " msg=audit(1700000001.124:43): c=d"
				c.Begin(func() string { return la + "  then, in the same buffer,  " + lb })
				c.Try("C04", func() {
					buf = append(buf[:0], la...)
					_, _ = auparse.ParseLogLine(unsafe.String(&buf[0], len(buf)))
					copy(buf, lb)
					got, gerr := auparse.ParseLogLine(unsafe.String(&buf[0], len(buf)))
					want, werr := auparse.ParseLogLine(strings.Clone(lb))
					if (gerr == nil) != (werr == nil) || (gerr == nil && (got.RecordType != want.RecordType || got.Sequence != want.Sequence || !got.Timestamp.Equal(want.Timestamp) || got.RawData != want.RawData)) {
						c.Report("C04 parse-depends-on-previous-buffer-content", fmt.Sprintf("line %q parsed from a buffer that held %q before: got (%+v, %v), a fresh copy gives (%+v, %v)", lb, la, got, gerr, want, werr), nil)
						return
					}
					c.Nontrivial()
				})
				pairs++
			}
		}
	}
	c.Sample("type=SYSCALL ... then type=SECCOMP ... at the same address and length => SECCOMP (1326)")
}

func c04Ms(c *enumx.Ctx) {
	for ms := 0; ms < 1000; ms++ {
		for _, s := range []string{"0", "1700000000", "17179869183"} {
			for _, q := range []string{"0", "4294967295"} {
				for _, t := range []uint16{1300, 1112, 65535} {
					if !c.Mine() {
						continue
					}
					checkSuccess(c, header{auparse.AuditMessageType(t).String(), t, s, fmt.Sprintf("%03d", ms), q, " a=b"})
				}
			}
		}
	}
}

func c04Product(c *enumx.Ctx) {
	types, secs, mss, seqs, bodies := bTypes, bSecs, bMs, bSeqs, bBodies
	if c.Tier != "thorough" {
		types = []uint16{0, 1112, 1300, 1320, 1327, 2100, 32768, 65535}
		mss = []string{"000", "009", "999"}
	}
	for _, t := range types {
		name := auparse.AuditMessageType(t).String()
		for _, s := range secs {
			for _, ms := range mss {
				for _, q := range seqs {
					for _, b := range bodies {
						if !c.Mine() {
							continue
						}
						checkSuccess(c, header{name, t, s, ms, q, b})
					}
				}
			}
		}
	}
	c.Sample(header{"SYSCALL", 1300, "17179869183", "999", "4294967295", " msg=audit(9.999:9): inner"}.line())
}

// mustFail is the deliberately narrow error-side rule: the four delimiters
// cannot be located in order after msg=, or a numeric part is empty /
// non-numeric / out of range, or there is no 'msg=' at all.  Returns
// (mustFail, mayEitherWay).
func classifyCorrupt(line string) (must bool, either bool) {
	i := strings.Index(line, "msg=")
	if i < 0 {
		return true, false
	}
	if i < len("type=")+1 {
		return true, false
	}
	rest := strings.TrimSpace(line[i+4:])
	p := strings.IndexByte(rest, '(')
	if p < 0 {
		return true, false
	}
	d := strings.IndexByte(rest[p:], '.')
	if d < 0 {
		return true, false
	}
	d += p
	s := strings.IndexByte(rest[d:], ':')
	if s < 0 {
		return true, false
	}
	s += d
	e := strings.IndexByte(rest[s:], ')')
	if e < 0 {
		return true, false
	}
	e += s
	num := func(x string, bits int, unsigned bool) (bad bool, cosmetic bool) {
		if x == "" {
			return true, false
		}
		body := x
		if x[0] == '+' || x[0] == '-' {
			cosmetic = true
			body = x[1:]
			if body == "" {
				return true, false
			}
		}
		for _, ch := range body {
			if ch < '0' || ch > '9' {
				return true, false
			}
		}
		if unsigned {
			if _, err := strconv.ParseUint(body, 10, bits); err != nil {
				return true, false
			}
		} else if _, err := strconv.ParseInt(body, 10, bits); err != nil {
			return true, false
		}
		return false, cosmetic
	}
	b1, c1 := num(rest[p+1:d], 64, false)
	b2, c2 := num(rest[d+1:s], 64, false)
	b3, c3 := num(rest[s+1:e], 32, true)
	if b1 || b2 || b3 {
		return true, false
	}
	return false, c1 || c2 || c3
}

func checkCorrupt(c *enumx.Ctx, line string, validTypeName bool) {
	c.Begin(func() string { return strconv.Quote(line) })
	c.Try("C04", func() {
		m, err := auparse.ParseLogLine(line)
		if (m == nil) != (err != nil) {
			c.Report("C04 nil-xor-error", fmt.Sprintf("ParseLogLine(%q) = (%v, %v): message and error must be exclusive", line, m, err), nil)
			return
		}
		must, _ := classifyCorrupt(line)
		if must {
			if err == nil {
				c.Report("C04 malformed-header-accepted", fmt.Sprintf("ParseLogLine(%q) accepted a header whose delimiters/numbers are malformed: seq=%d time=%v", line, m.Sequence, m.Timestamp), nil)
				return
			}
			c.Nontrivial()
		}
	})
}

func c04Errors(c *enumx.Ctx) {
	hs := []header{
		{"SYSCALL", 1300, "1700000000", "123", "42", " a=b"},
		{"UNKNOWN[1329]", 1329, "0", "000", "0", ""},
		{"USER_LOGIN", 1112, "17179869183", "999", "4294967295", " msg='op=login (x.y:z)'"},
		{"EOE", 1320, "1", "001", "4294967295", ": "},
	}
	subs := []byte{'0', '9', 'x', '(', ')', '.', ':', ' ', '-', '+', '=', 0}
	for _, h := range hs {
		line := h.line()
		hdrEnd := strings.Index(line, ")") + 2
		// every proper prefix
		for n := 0; n < len(line); n++ {
			if !c.Mine() {
				continue
			}
			checkCorrupt(c, line[:n], true)
		}
		// every single-byte substitution / deletion / duplication inside the header
		for pos := 0; pos < hdrEnd && pos < len(line); pos++ {
			for _, sb := range subs {
				if !c.Mine() {
					continue
				}
				var mut string
				if sb == 0 {
					mut = line[:pos] + line[pos+1:]
				} else {
					mut = line[:pos] + string(sb) + line[pos+1:]
				}
				checkCorrupt(c, mut, false)
			}
		}
		// every multi-byte fragment of the shared menu (digits of other scripts, full-width punctuation, white space, control
		// sequences, malformed UTF-8) INSERTED at and SUBSTITUTED for every position of the header
		for pos := strings.Index(line, "msg=") + 4; pos < hdrEnd && pos < len(line); pos++ {
			for _, r := range enumx.HostileRunes {
				if !c.Mine() {
					continue
				}
				checkCorrupt(c, line[:pos]+r+line[pos:], false)
				checkCorrupt(c, line[:pos]+r+line[pos+1:], false)
			}
		}
		// out-of-range numbers
		for _, q := range []string{"4294967296", "99999999999", "-1", "18446744073709551616", "", "1e3", "0x10", "1_0", " 1"} {
			if !c.Mine() {
				continue
			}
			hh := h
			hh.seq = q
			checkCorrupt(c, hh.line(), true)
		}
		for _, s := range []string{"9223372036854775808", "", "abc", "1e9", "0x1", "1_000", "99999999999999999999"} {
			if !c.Mine() {
				continue
			}
			hh := h
			hh.sec = s
			checkCorrupt(c, hh.line(), true)
			hh = h
			hh.ms = s
			checkCorrupt(c, hh.line(), true)
		}
	}
	// unknown type names
	for _, n := range []string{"NOPE", "UNKNOWN[65536]", "UNKNOWN[-1]", "UNKNOWN[]", "UNKNOWN[1300", "UNKNOWN1300]", "", "SYSCALL ", "[", "]", "UNKNOWN[99999999999]", "UNKNOWN[0x10]"} {
		if !c.Mine() {
			continue
		}
		line := "type=" + n + " msg=audit(1.002:3): a=b"
		c.Begin(func() string { return strconv.Quote(line) })
		c.Try("C04", func() {
			m, err := auparse.ParseLogLine(line)
			if (m == nil) != (err != nil) {
				c.Report("C04 nil-xor-error", fmt.Sprintf("ParseLogLine(%q) = (%v, %v)", line, m, err), nil)
			}
			if n != "SYSCALL " && err == nil {
				c.Report("C04 unknown-type-accepted", fmt.Sprintf("ParseLogLine(%q) accepted an unknown type name as %d", line, m.RecordType), nil)
			} else {
				c.Nontrivial()
			}
		})
	}
	c.Sample("type=SYSCALL msg=audit(1700000000.123:4x): a=b  => must be rejected")
}
