package main

import (
	"encoding/hex"
	"fmt"
	"sort"
	"strings"
	"time"

	"github.com/elastic/go-libaudit/v2/auparse"

	"verif/engine/ev"
	"verif/engine/par"
)

// Order pass (C12): what a field decodes to is a function of the record alone - not of which OTHER records of the
// process carried the same bytes before.  The same encoded texts (byte strings with embedded NULs, trailing bytes,
// spaces, quotes ...) are sent through every decoding context (exe, cwd, name, proctitle, EXECVE argument, TTY data,
// cmd, acct, unix / inet socket address) in one fresh process per visiting order - each context comes first in one of
// them - and the answers are compared between the processes.  No expectation is needed: agreement across orders.

type orderJob struct {
	Order []int
}

var orderTexts = []string{"/run/user/1000/bus\x00--session\x00x", "/bin/sh\x00-c\x00ls", "a\x00b", "\x00a", "a\x00", "a b", "ab", "/tmp/x y\x00z", "\x00", "a\x00\x00b", "/dev/log\x00\x00\x00\x00", "x\x00" + strings.Repeat("y", 40), "é\x00ü", "/a\x00/b\x00/c", "0200\x00", "sshd: root@pts/0"}

// orderContexts: each renders a record carrying the text in one decoding context and names the field to read.
var orderContexts = []struct {
	name  string
	typ   uint16
	field string
	body  func(h string) string
}{
	{"exe", 1300, "exe", func(h string) string { return "arch=c000003e syscall=2 success=yes exit=0 a0=0 items=0 pid=1 exe=" + h }},
	{"cwd", 1307, "cwd", func(h string) string { return "cwd=" + h }},
	{"name", 1302, "name", func(h string) string { return "item=0 name=" + h + " inode=1 nametype=NORMAL" }},
	{"proctitle", 1327, "proctitle", func(h string) string { return "proctitle=" + h }},
	{"execve", 1309, "a0", func(h string) string { return "argc=1 a0=" + h }},
	{"tty", 1319, "data", func(h string) string { return "tty pid=1 uid=0 auid=0 ses=1 major=136 minor=0 comm=\"x\" data=" + h }},
	{"cmd", 1123, "cmd", func(h string) string {
		return "pid=9 uid=0 auid=0 ses=1 msg='cwd=\"/\" cmd=" + h + " terminal=pts/0 res=success'"
	}},
	{"acct", 1112, "acct", func(h string) string {
		return "pid=9 uid=0 auid=0 ses=1 msg='op=login acct=" + h + " exe=\"/x\" hostname=? addr=? terminal=ssh res=failed'"
	}},
	{"saddr-unix", 1306, "path", func(h string) string { return "saddr=0100" + h }},
	{"saddr-unix-padded", 1306, "path", func(h string) string { return "saddr=0100" + h + "0000000000" }},
	{"comm", 1300, "comm", func(h string) string {
		return "arch=c000003e syscall=2 success=yes exit=0 a0=0 items=0 pid=1 comm=" + h + " exe=\"/x\""
	}},
	{"key", 1300, "key", func(h string) string {
		return "arch=c000003e syscall=2 success=yes exit=0 a0=0 items=0 pid=1 exe=\"/x\" key=" + h
	}},
}

func orderWorker(j orderJob) map[string]string {
	out := map[string]string{}
	for _, ci := range j.Order {
		cx := orderContexts[ci]
		for ti, t := range orderTexts {
			h := strings.ToUpper(hex.EncodeToString([]byte(t)))
			key := fmt.Sprintf("%s|%d", cx.name, ti)
			func() {
				defer func() {
					if r := recover(); r != nil {
						out[key] = fmt.Sprintf("PANIC %v", r)
					}
				}()
				m, err := auparse.Parse(auparse.AuditMessageType(cx.typ), hdr+cx.body(h))
				if err != nil {
					out[key] = "parse error: " + err.Error()
					return
				}
				d, err := m.Data()
				if err != nil {
					out[key] = "data error: " + err.Error()
					return
				}
				v, ok := d[cx.field]
				out[key] = fmt.Sprintf("%q present=%v", v, ok)
			}()
		}
	}
	return out
}

func orderPass(run *ev.Run) {
	n := len(orderContexts)
	var jobs []interface{}
	var orders [][]int
	for rot := 0; rot < n; rot++ {
		var o []int
		for i := 0; i < n; i++ {
			o = append(o, (rot+i)%n)
		}
		orders = append(orders, o)
	}
	rev := make([]int, n)
	for i := range rev {
		rev[i] = n - 1 - i
	}
	orders = append(orders, rev)
	for _, o := range orders {
		jobs = append(jobs, orderJob{Order: o})
	}
	results := make([]map[string]string, len(jobs))
	par.Map("c12order", jobs, 10*time.Minute, nil, func(r par.Result) {
		if r.Died {
			run.Errorf("order-pass worker %d died: %s", r.Job, r.Stderr)
			return
		}
		m := map[string]string{}
		if err := jsonUnmarshal(r.Out, &m); err != nil {
			run.Errorf("order-pass worker %d: %v", r.Job, err)
			return
		}
		results[r.Job] = m
	})
	var keys []string
	for k := range results[0] {
		keys = append(keys, k)
	}
	sort.Strings(keys)
	bad := 0
	for _, k := range keys {
		for j := 1; j < len(results); j++ {
			if results[j] == nil || results[0] == nil {
				continue
			}
			if results[j][k] != results[0][k] {
				parts := strings.SplitN(k, "|", 2)
				var ti int
				fmt.Sscan(parts[1], &ti)
				if bad < 3 {
					run.Report(ev.Violation{Sig: "C12 decoded-value-depends-on-earlier-records:" + parts[0], What: fmt.Sprintf("the %s context decodes the bytes %q as %s when the contexts are visited in the order %v, but as %s in the order %v (one fresh process per order; every other record of the process carried the same bytes in another field)", parts[0], orderTexts[ti], results[0][k], orders[0], results[j][k], orders[j]), Replay: map[string]interface{}{"context": parts[0], "bytes": orderTexts[ti], "orders": [][]int{orders[0], orders[j]}}})
				}
				bad++
				break
			}
		}
	}
	run.Add("evaluations", int64(len(keys)*len(results)))
	run.Set("order_pass", fmt.Sprintf("%d texts x %d decoding contexts in %d visiting orders (one fresh process each); %d answers differed", len(orderTexts), n, len(orders), bad))
}
