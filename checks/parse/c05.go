package main

import (
	"bufio"
	"fmt"
	"os"
	"path/filepath"
	"reflect"
	"sort"
	"strconv"
	"strings"

	"github.com/elastic/go-libaudit/v2/auparse"

	"verif/engine/enumx"
	"verif/engine/ev"
)

func init() {
	gens["c05-lines"] = c05Lines
	gens["c05-bodies"] = c05Bodies
	gens["c05-alltypes"] = c05AllTypes
	gens["c05-golden"] = c05Golden
	gens["c05-typenames"] = c05TypeNames
	gens["c05-long"] = c05Long
	gens["c05-padding"] = c05Padding
	gens["c05-multikey"] = c05MultiKey
	gens["c05-runes"] = c05Runes
	gens["c05-numbers"] = c05Numbers
	gens["c05-keypairs"] = c05KeyPairs
	gens["c05-literals"] = c05Literals
	gens["c05-case"] = c05Case
	gens["c05-saddr-bytes"] = c05SaddrBytes
	gens["c05-prefix"] = c05Prefix
	gens["c05-amounts"] = c05Amounts
	gens["c05-avc"] = c05AVC
}

// c05Long: LONG values - fixed-size buffers and limits inside the parser sit far above the
// token alphabet (sun_path is 108 bytes, sockaddr_storage 128, PATH_MAX 4096, a record 8970).
// c05Padding: a header (or a header and a little text) followed by RUNS of one padding byte of every
// length 0..80 (netlink payloads are NUL padded; logs end in blanks / CR LF), followed by every
// sequence of <=2 bytes over {NUL, blank, TAB, LF, 'a', '='}: offsets computed on one form of the text
// and applied to another (trimmed, padded) form go out of range only for particular run lengths.
func c05Padding(c *enumx.Ctx) {
	pads := []string{"\x00", " ", "\t", "\n", "\r", "\r\n", "\x00 ", " \x00"}
	tails := []string{""}
	tb := []string{"\x00", " ", "\t", "\n", "a", "="}
	for _, a := range tb {
		tails = append(tails, a)
		for _, b := range tb {
			tails = append(tails, a+b)
		}
	}
	heads := []string{"audit(1700000000.123:42)", "audit(1.2:3)", "audit(1700000000.123:42):", "audit(1700000000.123:42): ", "audit(1700000000.123:42): a=b", "audit(1.2:3):", "audit(1700000000.123:42): msg='a=b'"}
	for _, h := range heads {
		for _, p := range pads {
			for k := 0; k <= 80; k++ {
				for _, t := range tails {
					if !c.Mine() {
						continue
					}
					raw := h + strings.Repeat(p, k) + t
					parseBody(c, 1300, raw)
					if k%8 == 0 {
						parseBody(c, 1112, raw)
						parseLine(c, "type=SYSCALL msg="+raw)
					}
				}
			}
		}
	}
	c.Sample("Parse(1300, header + 27 x NUL + \" \\x00\") : Data/Tags/ToMapStr on a record that is all padding")
}

// c05MultiKey: the key field as the kernel writes several keys (hex, 0x01 separated): every sequence
// of <=4 keys over {a, b, net, ""} incl. repeated and empty ones - Tags() twice, and again after
// other messages.
func c05MultiKey(c *enumx.Ctx) {
	keys := []string{"a", "b", "net", ""}
	var rec func(cur []string)
	rec = func(cur []string) {
		if len(cur) > 0 && c.Mine() {
			hex := strings.ToUpper(fmt.Sprintf("%x", strings.Join(cur, "\x01")))
			for _, t := range []uint16{1300, 1305, 1326} {
				parseBody(c, t, "audit(1700000000.123:42): arch=c000003e syscall=2 success=yes exit=0 items=0 pid=1 auid=0 uid=0 key="+hex)
			}
			parseBody(c, 1300, "audit(1700000000.123:42): pid=1 key=\""+strings.Join(cur, ",")+"\" uid=0")
		}
		if len(cur) == 4 {
			return
		}
		for _, k := range keys {
			rec(append(append([]string{}, cur...), k))
		}
	}
	rec(nil)
	c.Sample("Parse(1300, ... key=6E6574016E65740162) : keys net,net,b - Tags() twice")
}

// c05Runes: every fragment of the shared multi-byte menu inside keys, values, quoted values and
// msg='...' blocks of every record-type class.
func c05Runes(c *enumx.Ctx) {
	shapes := []string{"a=%s", "a=\"%s\"", "%s=b", "a=b %s c=d", "msg='op=x acct=\"%s\" res=success'", "exe=\"/bin/%s\" key=\"%s\"", "name=%s", "%s"}
	for _, r := range enumx.HostileRunes {
		for _, sh := range shapes {
			for _, t := range typeClasses {
				if !c.Mine() {
					continue
				}
				body := strings.ReplaceAll(sh, "%s", r)
				parseBody(c, t, "audit(1700000000.123:42): "+body)
			}
		}
	}
}

// c05Numbers: every numeric field x the arithmetic edges of every integer width (2^7 ... 2^64, +-1, both
// signs, decimal, hex and octal spellings) x record-type classes.
func c05Numbers(c *enumx.Ctx) {
	var nums []string
	for _, bits := range []uint{7, 8, 15, 16, 24, 31, 32, 53, 63, 64} {
		for d := -1; d <= 1; d++ {
			var v uint64
			var s string
			if bits == 64 {
				s = []string{"18446744073709551615", "18446744073709551616", "18446744073709551617"}[d+1]
			} else {
				v = uint64(1)<<bits + uint64(int64(d))
				s = fmt.Sprint(v)
			}
			nums = append(nums, s, "-"+s)
			if bits < 64 {
				nums = append(nums, fmt.Sprintf("%x", v), fmt.Sprintf("0x%x", v), fmt.Sprintf("0%o", v))
			}
		}
	}
	nums = append(nums, "-0", "+1", "00", "1e3", "0x", "-", "99999999999999999999999999")
	fields := []string{"exit", "syscall", "arch", "a0", "a1", "a2", "a3", "items", "ppid", "pid", "auid", "uid", "gid", "euid", "ses", "sig", "argc", "inode", "mode", "dev", "ouid", "ogid", "major", "minor", "res", "success", "item", "nametype", "cap_fver", "id", "old-auid", "old_auid", "port", "family", "saddr"}
	for _, f := range fields {
		for _, n := range nums {
			for _, t := range typeClasses {
				if !c.Mine() {
					continue
				}
				parseBody(c, t, "audit(1700000000.123:42): arch=c000003e syscall=2 success=no "+f+"="+n+" a0=1 pid=7 comm=\"x\"")
				parseBody(c, t, "audit(1700000000.123:42): "+f+"="+n)
			}
		}
	}
	c.Sample("Parse(1300, ... exit=-9223372036854775808 ...) : Data/Tags/ToMapStr")
}

// c05KeyPairs: two keys of ONE record that differ only by '-' / '_' / '.' / letter case (old-auid and
// old_auid, ...) with different values: whatever is reported for them is the same on every call - asked 24
// times, because code that folds such keys together picks the winner in map order.
func c05KeyPairs(c *enumx.Ctx) {
	bases := []string{"old-auid", "new-auid", "old-ses", "a-b", "cap_fver", "obj_role", "sub-j", "x-y-z", "res", "auid", "old-enforcing", "old_prom"}
	variant := func(k string) []string {
		out := []string{strings.ReplaceAll(k, "-", "_"), strings.ReplaceAll(k, "_", "-"), strings.ReplaceAll(strings.ReplaceAll(k, "-", "."), "_", "."), strings.ToUpper(k), strings.ReplaceAll(k, "-", ""), "old " + strings.TrimPrefix(k, "old-"), k + "_", "_" + k}
		return out
	}
	for _, k := range bases {
		for _, k2 := range variant(k) {
			if k2 == k {
				continue
			}
			for _, vals := range [][2]string{{"4294967295", "1000"}, {"1000", "4294967295"}, {"a", "b"}, {"0", "1"}} {
				for _, t := range []uint16{1006, 1300, 1112, 1400, 1305} {
					if !c.Mine() {
						continue
					}
					raw := "audit(1700000000.123:42): pid=1 uid=0 " + k + "=" + vals[0] + " " + k2 + "=" + vals[1] + " res=1"
					c.Begin(func() string { return fmt.Sprintf("Parse(%d, %s) x24", t, strconv.Quote(raw)) })
					c.Try("C05", func() {
						m, err := auparse.Parse(auparse.AuditMessageType(t), raw)
						if err != nil || m == nil {
							return
						}
						first := fmt.Sprint(m.ToMapStr())
						d1, _ := m.Data()
						firstD := fmt.Sprint(d1)
						for i := 0; i < 24; i++ {
							if s := fmt.Sprint(m.ToMapStr()); s != first {
								c.Report("C05 tomapstr-not-repeatable", fmt.Sprintf("ToMapStr() on Parse(%d, %q) gave %s and on call %d %s", t, raw, first, i+2, s), nil)
								return
							}
							d, _ := m.Data()
							if s := fmt.Sprint(d); s != firstD {
								c.Report("C05 data-not-repeatable", fmt.Sprintf("Data() on Parse(%d, %q) gave %s and on call %d %s", t, raw, firstD, i+2, s), nil)
								return
							}
						}
						c.Nontrivial()
					})
				}
			}
		}
	}
}

// c05Literals: token sequences of length <= 2 over the string literals of the tree's auparse package (plus
// '=' and blank glue), as bodies of every record-type class: one input per literal the code reacts to, also
// for literals a later edit introduces.
func c05Literals(c *enumx.Ctx) {
	hv := harvestedAuparse()
	var lits []string
	for _, l := range hv.Strings {
		if len(l) <= 40 {
			lits = append(lits, l)
		}
	}
	for _, a := range lits {
		for _, t := range typeClasses {
			if !c.Mine() {
				continue
			}
			parseBody(c, t, "audit(1700000000.123:42): "+a)
			parseBody(c, t, "audit(1700000000.123:42): k="+a+" z=1")
			parseBody(c, t, "audit(1700000000.123:42): "+a+"=v z=1")
		}
		for _, b := range lits {
			if !c.Mine() {
				continue
			}
			for _, t := range []uint16{1300, 1400, 1112} {
				parseBody(c, t, "audit(1700000000.123:42): "+a+"="+b)
				parseBody(c, t, "audit(1700000000.123:42): "+a+" "+b)
				parseBody(c, t, "audit(1700000000.123:42): x="+a+b+" y=2")
			}
		}
	}
}

// c05Prefix: Parse takes the text of a record; the parser looks for the parenthesised header and does not insist on
// the word in front of it.  Every token / harvested literal, behind 0, 1 or 2 other bytes, IN FRONT of the header
// (and between the header and the body): positions computed relative to the header apply to text that starts earlier.
func c05Prefix(c *enumx.Ctx) {
	hv := harvestedAuparse()
	words := append([]string{}, tokens...)
	for _, l := range hv.Strings {
		if len(l) <= 12 {
			words = append(words, l)
		}
	}
	bodies := []string{"pid=1 uid=0 old auid=4294967295 new auid=1000 old ses=4294967295 new ses=5 res=1", "arch=c000003e syscall=2 success=yes exit=0 a0=1 items=0 exe=\"/x\" key=(null)", "pid=1 msg='op=login acct=\"root\" exe=\"/x\" hostname=? addr=? terminal=ssh res=failed'"}
	for _, w := range words {
		for _, pad := range []string{"", "x", " ", "xy", "audit", "\xff"} {
			if !c.Mine() {
				continue
			}
			for _, t := range typeClasses {
				for _, b := range bodies {
					parseBody(c, t, pad+w+"(1700000000.123:42): "+b)
					parseBody(c, t, pad+w+" audit(1700000000.123:42): "+b)
					parseBody(c, t, "audit(1700000000.123:42)"+pad+w+": "+b)
				}
			}
		}
	}
	c.Sample("Parse(1006, \"xold (1700000000.123:42): pid=1 uid=0 old auid=...\")")
}

// c05Case: the tokens of a log line in other letter cases (MSG=, Msg=, TYPE=, AUDIT( ...), with and without
// the exact token elsewhere in the line, behind k = 1, 5, 20, 100 copies of runes whose case-mapped form has
// another UTF-8 length (an index found in a case-folded copy does not fit the original text), and truncated.
func c05Case(c *enumx.Ctx) {
	grow := []string{"\u023a", "\u023e", "\u0130", "\u212a", "\u1e9e", "\xff", "\xc3", "A", ""}
	variants := func(tok string) []string {
		return []string{tok, strings.ToUpper(tok), strings.ToUpper(tok[:1]) + tok[1:], strings.ToUpper(tok[:len(tok)-1]) + tok[len(tok)-1:]}
	}
	for _, g := range grow {
		for _, k := range []int{0, 1, 5, 20, 100} {
			pre := strings.Repeat(g, k)
			for _, ty := range variants("type=") {
				for _, ms := range variants("msg=") {
					for _, au := range variants("audit(") {
						for _, tail := range []string{"1.1:1): a=b", "1.1:1):", "1.1:1", "", "1"} {
							if !c.Mine() {
								continue
							}
							parseLine(c, pre+ty+"SYSCALL "+ms+au+tail)
							parseLine(c, pre+ty+"syscall "+ms+au+tail)
							parseLine(c, ty+"User_Login "+ms+au+tail)
							parseLine(c, ty+"SYSCALL "+pre+" "+ms+au+tail)
							parseLine(c, pre+" "+ms+au+tail)
							parseBody(c, 1300, pre+au+tail)
						}
					}
				}
			}
		}
	}
	c.Sample("ParseLogLine(20 x U+023A + \" MSG=audit(1.1:1):\") : an error, not a panic")
}

// c05SaddrBytes: every byte value at every position of golden IPv4 / IPv6 / unix / netlink socket addresses
// (signs, blanks, 'x', non-hex letters where hex digits belong).
func c05SaddrBytes(c *enumx.Ctx) {
	golden := []string{"020001BB0A141E280000000000000000", "0A0001BB00000000FE80000000000000000000000000000100000000", "01002F72756E2F782E736F636B00", "100000000000000000000000"}
	for _, g := range golden {
		for pos := 0; pos < len(g); pos++ {
			for b := 0; b < 256; b++ {
				if !c.Mine() {
					continue
				}
				m := g[:pos] + string([]byte{byte(b)}) + g[pos+1:]
				parseBody(c, 1306, "audit(1700000000.123:42): saddr="+m)
			}
		}
	}
	// EVERY address family (0..46, 127, 128, 255; thorough: 0..255 - a family the decoder learns tomorrow sits in today's default branch) x lengths of 16 ...
	// 128 hex digits x a zero / FF fill with ONE byte anywhere set to each of 8 values: lengths, counts and offsets that
	// the payload states about itself (sll_halen, sun_path, scope ids) may point beyond what is there
	for fam := 0; fam < 256; fam++ {
		if c.Tier != "thorough" && fam > 46 && fam != 127 && fam != 128 && fam != 255 {
			continue // AF_MAX is 46: quick takes the defined families and three more
		}
		for _, n := range []int{16, 24, 32, 40, 48, 56, 64, 112, 128} {
			if !c.Mine() {
				continue
			}
			for _, fill := range []string{"00", "FF"} {
				base := fmt.Sprintf("%02X00", fam) + strings.Repeat(fill, (n-4)/2)
				parseBody(c, 1306, "audit(1700000000.123:42): saddr="+base)
				for pos := 4; pos+2 <= n; pos += 2 {
					for _, v := range []string{"01", "06", "08", "14", "7F", "80", "FE", "FF"} {
						parseBody(c, 1306, "audit(1700000000.123:42): saddr="+base[:pos]+v+base[pos+2:])
					}
				}
			}
		}
	}
	c.Sample("Parse(1306, saddr=02000050-A000001...) : a sign where a hex digit belongs")
}

func c05Long(c *enumx.Ctx) {
	lens := []int{60, 100, 106, 107, 108, 109, 110, 111, 126, 127, 128, 129, 255, 256, 257, 1023, 1024, 1025, 4095, 4096, 4097, 8969, 8970, 8971, 65535, 65536, 70000}
	if c.Tier == "thorough" {
		for n := 1; n <= 600; n++ {
			lens = append(lens, n)
		}
		lens = append(lens, 1<<20)
	}
	fills := []string{"41", "00", "FF", "2F", "A", "a", "0", "\"", "'", " ", "=", ",", "\\"}
	prefixes := []string{"saddr=0100", "saddr=0200", "saddr=0A00", "saddr=1000", "saddr=0100002F", "saddr=", "proctitle=", "exe=", "cwd=", "name=", "cmd=", "data=", "acct=", "key=", "subj=", "argc=1 a0=", "argc=", "arch=", "syscall=", "exit=-", "sig=", "msg='a=", "a=\"", "x"}
	for _, n := range lens {
		for _, f := range fills {
			val := strings.Repeat(f, (n+len(f)-1)/len(f))[:n]
			for _, p := range prefixes {
				for _, t := range []uint16{1306, 1327, 1300, 1309, 1123, 1319, 1302, 1112, 1400, 1307} {
					if !c.Mine() {
						continue
					}
					parseBody(c, t, "audit(1700000000.123:42): "+p+val+" z=1")
				}
			}
		}
	}
	c.Sample("Parse(1306, \"audit(...): saddr=0100\" + 222 hex digits) : a unix path longer than sun_path")
}

// c05TypeNames: every sequence of <=4 (quick) / <=5 (thorough) pieces as the type
// name of an otherwise valid line, and through the text (un)marshalling entry points.
// c05Amounts: ONE record with very many fields: EXECVE records whose argc arguments are all present, for argc around
// every power of ten up to 10^5 (the width of a decimal index) and around 2^16 / 2^17, SYSCALL-like records with as many
// key=value pairs.
func c05Amounts(c *enumx.Ctx) {
	for _, n := range []int{9, 10, 11, 99, 100, 101, 999, 1000, 1001, 9999, 10000, 10001, 65535, 65536, 65537, 99999, 100000, 100001, 131072, 131073} {
		if !c.Mine() {
			continue
		}
		var b strings.Builder
		fmt.Fprintf(&b, "audit(1700000000.123:42): argc=%d", n)
		for i := 0; i < n; i++ {
			fmt.Fprintf(&b, " a%d=\"x\"", i)
		}
		parseBody(c, 1309, b.String())
		var k strings.Builder
		k.WriteString("audit(1700000000.123:42): arch=c000003e syscall=2")
		for i := 0; i < n; i++ {
			fmt.Fprintf(&k, " k%d=%d", i, i)
		}
		parseBody(c, 1300, k.String())
	}
	c.Sample("Parse(1309, argc=100001 with a0..a100000 present)")
}

// c05AVC: the free-text head of AVC records ("avc:  denied  { read } for  pid=1 ..."): every sequence of <=5 of its
// tokens (a head without braces, with empty braces, with two verdicts, without "for" ...) for the kernel's and the
// user-space AVC types.
func c05AVC(c *enumx.Ctx) {
	toks := []string{"avc:", "denied", "granted", "{", "}", "read", "for", "pid=1", "{ read write }", "apparmor=\"DENIED\"", "seresult=denied"}
	var rec func(cur []string)
	rec = func(cur []string) {
		if len(cur) > 0 && c.Mine() {
			for _, sep := range []string{" ", "  "} {
				b := strings.Join(cur, sep)
				for _, t := range []uint16{1400, 1107, 1403} {
					parseBody(c, t, "audit(1700000000.123:42): "+b)
					parseBody(c, t, "audit(1700000000.123:42): pid=1 uid=0 msg='"+b+" exe=\"/x\"'")
				}
			}
		}
		if len(cur) == 5 {
			return
		}
		for _, t := range toks {
			rec(append(append([]string{}, cur...), t))
		}
	}
	rec(nil)
	c.Sample("Parse(1400, \"audit(...): avc:  denied  for  pid=1\")")
}

func c05TypeNames(c *enumx.Ctx) {
	pieces := []string{"UNKNOWN", "unknown", "[", "]", "1329", "0", "65535", "65536", "-1", "SYSCALL", "_", " ", "x", "99999999999999999999", "\x00", "="}
	maxLen := 4
	if c.Tier == "thorough" {
		maxLen = 5
	}
	forSeqs(pieces, maxLen, func(name string) {
		if !c.Mine() {
			return
		}
		parseLine(c, "type="+name+" msg=audit(1700000000.123:42): a=b")
		c.Begin(func() string { return "GetAuditMessageType(" + strconv.Quote(name) + ")" })
		c.Try("C05", func() {
			t, err := auparse.GetAuditMessageType(name)
			var u auparse.AuditMessageType
			uerr := u.UnmarshalText([]byte(name))
			if (err == nil) != (uerr == nil) || (err == nil && t != u) {
				c.Report("C05 typename-entry-points-disagree", fmt.Sprintf("GetAuditMessageType(%q) = (%d, %v) but UnmarshalText gives (%d, %v)", name, t, err, u, uerr), nil)
			}
		})
	})
}

// tokens: one per literal / branch condition the parser reacts to.
var tokens = []string{
	"type=", "msg=", "audit(", "1.2", ":", ")", " ", "a0=", "a1=", "argc=2", "argc=", "\"", "'", "\\", "=", "41", "4A", "4a",
	"saddr=", "0100", "0200", "0A00", "1000", "2F746D70002F78", "0A000050000000000000000000000000000000000000000100000000", "020000507F0000010000000000000000",
	"key=", "subj=", "obj=", "a:b:c:d:e:f", "exit=-", "exit=", "arch=", "c000003e", "syscall=", "sig=", "avc:  denied  { read } for  ", "old ", "new ", " (hostname=", ")'",
	"\x00", "\xff", "(null)", "?", "?,", "success=", "res=", "yes", "auid=4294967295", "ses=-1", "exe=", "cwd=", "proctitle=", "cmd=", "data=", "name=", "acct=", "SYSCALL", "UNKNOWN[", "]", "9", "-1", "msg='", "old-auid=", ",", "{", "}",
}

func quickTokens() []string {
	// the quick tier uses a subset so that length-3 sequences stay ~10^5
	keep := map[string]bool{}
	for _, t := range []string{"type=", "msg=", "audit(", "1.2", ":", ")", " ", "a0=", "argc=2", "\"", "'", "\\", "=", "41", "saddr=", "0200", "0A00", "2F746D70002F78", "key=", "subj=", "a:b:c:d:e:f", "exit=-", "arch=", "c000003e", "syscall=", "sig=", "avc:  denied  { read } for  ", "old ", " (hostname=", ")'", "\x00", "\xff", "(null)", "?", "success=", "res=", "exe=", "proctitle=", "cmd=", "data=", "msg='", "9", "SYSCALL", "UNKNOWN[", "]"} {
		keep[t] = true
	}
	var out []string
	for _, t := range tokens {
		if keep[t] {
			out = append(out, t)
		}
	}
	return out
}

// record-type classes that select distinct enrichment paths
var typeClasses = []uint16{1400 /*AVC*/, 1006 /*LOGIN*/, 1104 /*CRED_DISP*/, 1105 /*USER_START*/, 1106 /*USER_END*/, 1326 /*SECCOMP*/, 1300 /*SYSCALL*/, 1306 /*SOCKADDR*/, 1327 /*PROCTITLE*/, 1123 /*USER_CMD*/, 1319 /*TTY*/, 1124 /*USER_TTY*/, 1309 /*EXECVE*/, 1302 /*PATH*/, 1112 /*USER_LOGIN*/, 1307 /*CWD: other*/}

// ring keeps the last few messages that decoded something together with a
// deep (byte-cloned) snapshot of what they reported; each is re-checked when it
// is evicted, i.e. after several OTHER messages have been parsed in between:
// "repeated calls on the same message return the same result" must also hold
// across other parses (shared scratch buffers, pooled memory, global state).
type held struct {
	m    *auparse.AuditMessage
	snap map[string]string
	tags []string
	what string
}

var ring [8]*held
var ringPos int

func cloneMap(m map[string]string) map[string]string {
	out := make(map[string]string, len(m))
	for k, v := range m {
		out[strings.Clone(k)] = strings.Clone(v)
	}
	return out
}

func remember(c *enumx.Ctx, m *auparse.AuditMessage, d map[string]string, tags []string, what string) {
	if old := ring[ringPos]; old != nil {
		d2, _ := old.m.Data()
		t2, _ := old.m.Tags()
		if !reflect.DeepEqual(nz(d2), old.snap) || !reflect.DeepEqual(append([]string{}, t2...), old.tags) {
			c.Report("C05 data-changed-after-other-parses", fmt.Sprintf("%s reported %v / tags %v; after parsing %d other messages (the last: %s) it reports %v / tags %v", old.what, old.snap, old.tags, len(ring), what, d2, t2), nil)
		}
	}
	var tc []string
	for _, t := range tags {
		tc = append(tc, strings.Clone(t))
	}
	ring[ringPos] = &held{m: m, snap: cloneMap(d), tags: append([]string{}, tc...), what: what}
	ringPos = (ringPos + 1) % len(ring)
}

// exercise runs the totality oracle on one message.
func exercise(c *enumx.Ctx, m *auparse.AuditMessage, what string) {
	d1, e1 := m.Data()
	snap := map[string]string{}
	for k, v := range d1 {
		snap[k] = v
	}
	d2, e2 := m.Data()
	if !sameErr(e1, e2) || !reflect.DeepEqual(snap, nz(d2)) {
		c.Report("C05 data-not-repeatable", fmt.Sprintf("Data() twice on %s gave (%v,%v) then (%v,%v)", what, snap, e1, d2, e2), nil)
	}
	t1, te1 := m.Tags()
	t1c := append([]string{}, t1...)
	t2, te2 := m.Tags()
	if !sameErr(te1, te2) || !reflect.DeepEqual(t1c, append([]string{}, t2...)) {
		c.Report("C05 tags-not-repeatable", fmt.Sprintf("Tags() twice on %s gave %v then %v", what, t1c, t2), nil)
	}
	if !sameErr(e1, te1) {
		c.Report("C05 tags-error-differs", fmt.Sprintf("Data() error %v but Tags() error %v on %s", e1, te1, what), nil)
	}
	m1 := m.ToMapStr()
	m2 := m.ToMapStr()
	if !reflect.DeepEqual(m1, m2) {
		c.Report("C05 tomapstr-not-repeatable", fmt.Sprintf("ToMapStr() twice on %s differs: %v vs %v", what, m1, m2), nil)
	}
	if e1 != nil {
		if s, _ := m1["error"].(string); s != e1.Error() {
			c.Report("C05 tomapstr-error-key", fmt.Sprintf("Data() failed with %q but ToMapStr()[error] = %v on %s", e1, m1["error"], what), nil)
		}
	} else if len(d1) > 0 {
		c.Nontrivial()
		remember(c, m, d1, t1c, what)
	}
}

func nz(m map[string]string) map[string]string {
	if m == nil {
		return map[string]string{}
	}
	return m
}

func sameErr(a, b error) bool {
	if a == nil || b == nil {
		return a == nil && b == nil
	}
	return a.Error() == b.Error()
}

func parseLine(c *enumx.Ctx, line string) {
	c.Begin(func() string { return "ParseLogLine(" + strconv.Quote(line) + ")" })
	c.Try("C05", func() {
		keep := strings.Clone(line)
		m, err := auparse.ParseLogLine(line)
		if line != keep {
			c.Report("C05 input-modified", fmt.Sprintf("after ParseLogLine the caller's line reads %q; it was %q (a Go string is immutable)", line, keep), nil)
			return
		}
		if (m == nil) != (err != nil) {
			c.Report("C05 nil-xor-error", fmt.Sprintf("ParseLogLine(%q) = (%v, %v)", line, m, err), nil)
			return
		}
		if m != nil {
			exercise(c, m, "ParseLogLine("+strconv.Quote(line)+")")
		}
	})
}

func parseBody(c *enumx.Ctx, typ uint16, raw string) {
	c.Begin(func() string { return fmt.Sprintf("Parse(%d, %s)", typ, strconv.Quote(raw)) })
	c.Try("C05", func() {
		keep := strings.Clone(raw)
		m, err := auparse.Parse(auparse.AuditMessageType(typ), raw)
		if (m == nil) != (err != nil) {
			c.Report("C05 nil-xor-error", fmt.Sprintf("Parse(%d, %q) = (%v, %v)", typ, raw, m, err), nil)
			return
		}
		if m != nil {
			_, _ = m.Data()
		}
		if raw != keep {
			c.Report("C05 input-modified", fmt.Sprintf("after Parse + Data the caller's text reads %q; it was %q (a Go string is immutable)", raw, keep), nil)
			return
		}
		if m != nil {
			exercise(c, m, fmt.Sprintf("Parse(%d, %s)", typ, strconv.Quote(raw)))
		}
	})
}

func forSeqs(toks []string, maxLen int, f func(s string)) {
	var rec func(prefix string, n int)
	rec = func(prefix string, n int) {
		f(prefix)
		if n == maxLen {
			return
		}
		for _, t := range toks {
			rec(prefix+t, n+1)
		}
	}
	rec("", 0)
}

func c05Lines(c *enumx.Ctx) {
	toks, maxLen := quickTokens(), 3
	if c.Tier == "thorough" {
		toks, maxLen = tokens, 4
	}
	forSeqs(toks, maxLen, func(s string) {
		if !c.Mine() {
			return
		}
		parseLine(c, s)
		// and behind a valid type prefix so that the header code is reached
		parseLine(c, "type=SYSCALL msg="+s)
	})
	c.Sample(strconv.Quote("type=SYSCALL msg=" + toks[2] + toks[3] + toks[4]))
}

func c05Bodies(c *enumx.Ctx) {
	toks, maxLen := quickTokens(), 2
	if c.Tier == "thorough" {
		toks, maxLen = tokens, 3
	}
	// bodies behind a fixed valid header x record-type classes
	forSeqs(toks, maxLen, func(s string) {
		for _, sep := range []string{": ", ":", " "} {
			if sep != ": " && len(s) > 12 {
				continue
			}
			for _, t := range typeClasses {
				if !c.Mine() {
					continue
				}
				parseBody(c, t, "audit(1700000000.123:42)"+sep+s)
			}
		}
	})
	// structured bodies: one key from the enrichment set with each value token
	keys := []string{"arch", "syscall", "sig", "exit", "saddr", "proctitle", "cmd", "data", "argc", "a0", "a1", "name", "acct", "key", "subj", "obj", "success", "res", "auid", "ses", "old-auid", "exe", "cwd", "msg"}
	for _, k := range keys {
		for _, v := range tokens {
			for _, v2 := range []string{"", " arch=c000003e", " argc=1", " a0=41", " syscall=1", " sig=9", " argc=4294967295", " argc=2 a0=4", " arch=zz syscall=x"} {
				for _, t := range typeClasses {
					if !c.Mine() {
						continue
					}
					parseBody(c, t, "audit(1700000000.123:42): "+k+"="+v+v2)
				}
			}
		}
	}
	// every byte value in a value, in a key, between fields and right after the header
	for b := 0; b < 256; b++ {
		bs := string([]byte{byte(b)})
		for _, body := range []string{"a=" + bs + " b=c", "a" + bs + "=b c=d", "a=b" + bs + "c=d", bs + "a=b", "a=\"" + bs + "\" b=c", "msg='a=" + bs + " b=c'", "saddr=" + bs + "200", "proctitle=" + bs, "argc=1 a0=" + bs} {
			for _, t := range typeClasses {
				if !c.Mine() {
					continue
				}
				parseBody(c, t, "audit(1700000000.123:42): "+body)
			}
		}
	}
	c.Sample("Parse(1309, \"audit(1700000000.123:42): argc=2 a0=4\")")
}

func c05AllTypes(c *enumx.Ctx) {
	bodies := []string{"", ": ", ": a=b", ": arch=c000003e syscall=59 success=yes exit=0 sig=9 saddr=0200 proctitle=41 cmd=41 data=41 argc=1 a0=41 name=41 acct=41 key=41 subj=a:b res=1",
		": argc=2", ": saddr=0", ": arch=x", ": avc:  denied  { } for  x", ": old auid=1 new auid=2 old ses=1 new ses=2", ": msg='op=x (hostname=a, addr=b)'"}
	if c.Tier != "thorough" {
		bodies = bodies[:5]
	}
	for t := 0; t < 65536; t++ {
		for _, b := range bodies {
			if !c.Mine() {
				continue
			}
			parseBody(c, uint16(t), "audit(1700000000.123:42)"+b)
		}
	}
}

func c05Golden(c *enumx.Ctx) {
	files, _ := filepath.Glob(filepath.Join(ev.Repo(), "auparse", "testdata", "*.log"))
	more, _ := filepath.Glob(filepath.Join(ev.Repo(), "testdata", "*.log"))
	files = append(files, more...)
	sort.Strings(files)
	if len(files) == 0 {
		c.Report("ERROR/no-golden-files", "no golden logs found under "+ev.Repo(), nil)
		return
	}
	seen := map[string]bool{}
	for _, f := range files {
		fh, err := os.Open(f)
		if err != nil {
			continue
		}
		sc := bufio.NewScanner(fh)
		sc.Buffer(make([]byte, 1<<20), 1<<20)
		n := 0
		for sc.Scan() {
			line := sc.Text()
			if seen[line] || !strings.HasPrefix(line, "type=") {
				continue
			}
			seen[line] = true
			n++
			if c.Tier != "thorough" && n > 60 {
				break
			}
			for cut := 0; cut <= len(line); cut++ {
				if !c.Mine() {
					continue
				}
				parseLine(c, line[:cut])
			}
		}
		fh.Close()
	}
}
