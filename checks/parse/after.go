package main

import (
	"encoding/json"
	"fmt"
	"reflect"
	"strings"

	"github.com/elastic/go-libaudit/v2/aucoalesce"
	"github.com/elastic/go-libaudit/v2/auparse"

	"verif/engine/enumx"
)

// Messages are handed on: the usual consumer of parsed messages is aucoalesce.CoalesceMessages, which reads
// their Data() maps.  What a message reports - before, and again after the event it belongs to was coalesced
// (once, twice, with the records in another order) - is the same, and equal to what a separately parsed copy of
// the same text reports (whose values the other C12 generators compare with the kernel-side encoding).
//
// Groups: a SYSCALL record plus every selection from menus of SOCKADDR records (every address family and the
// IPv4-in-IPv6 forms), PATH records (items in order, out of order, the same item twice with different fields),
// EXECVE (plain and pieced arguments), CWD, PROCTITLE, user-space singletons.

type snapshot struct {
	data map[string]string
	tags []string
	mstr string
	err  string
}

func snapOf(m *auparse.AuditMessage) snapshot {
	var s snapshot
	d, err := m.Data()
	if err != nil {
		s.err = err.Error()
	}
	s.data = cloneMap(d)
	t, _ := m.Tags()
	for _, x := range t {
		s.tags = append(s.tags, strings.Clone(x))
	}
	b, _ := json.Marshal(m.ToMapStr())
	s.mstr = string(b)
	return s
}

func (a snapshot) diff(b snapshot) string {
	if a.err != b.err {
		return fmt.Sprintf("error %q vs %q", a.err, b.err)
	}
	for k, v := range a.data {
		if w, ok := b.data[k]; !ok || w != v {
			return fmt.Sprintf("Data()[%q] = %q vs %q (present %v)", k, v, w, ok)
		}
	}
	for k, w := range b.data {
		if _, ok := a.data[k]; !ok {
			return fmt.Sprintf("Data()[%q] absent vs %q", k, w)
		}
	}
	if !reflect.DeepEqual(a.tags, b.tags) {
		return fmt.Sprintf("Tags() %q vs %q", a.tags, b.tags)
	}
	if a.mstr != b.mstr {
		return fmt.Sprintf("ToMapStr() %s vs %s", a.mstr, b.mstr)
	}
	return ""
}

type rawRec struct {
	typ auparse.AuditMessageType
	raw string
}

func afterGroups() [][]rawRec {
	sys := func(nr int, rest string) rawRec {
		return rawRec{auparse.AUDIT_SYSCALL, hdr + fmt.Sprintf("arch=c000003e syscall=%d success=yes exit=0 a0=3 a1=7ffe a2=10 a3=0 items=2 ppid=1 pid=2 auid=1000 uid=0 gid=0 euid=0 suid=0 fsuid=0 egid=0 sgid=0 fsgid=0 tty=pts0 ses=1 comm=\"x\" exe=\"/usr/bin/x\" subj=unconfined key=\"k\"%s", nr, rest)}
	}
	v4 := [4]byte{10, 1, 2, 3}
	mapped := [16]byte{0, 0, 0, 0, 0, 0, 0, 0, 0, 0, 0xff, 0xff, 10, 1, 2, 3}
	compat := [16]byte{0, 0, 0, 0, 0, 0, 0, 0, 0, 0, 0, 0, 10, 1, 2, 3}
	loop6 := [16]byte{15: 1}
	real6 := [16]byte{0x20, 0x01, 0x0d, 0xb8, 15: 1}
	nat64 := [16]byte{0x00, 0x64, 0xff, 0x9b, 12: 10, 13: 1, 14: 2, 15: 3}
	saddrs := []string{saddrIn(443, v4), saddrIn(0, [4]byte{}), saddrIn6(443, 0, mapped, 0), saddrIn6(443, 0, compat, 0), saddrIn6(22, 0, loop6, 0), saddrIn6(80, 1, real6, 2), saddrIn6(80, 0, nat64, 0), saddrIn6(0, 0, [16]byte{}, 0),
		saddrUn("/run/x.sock", 110), saddrUn("", 110), "100000000000000000000000", "0000", "1100000003000000000000000000000000000000", "2C00"}
	path := func(item int, name, rest string) rawRec {
		return rawRec{auparse.AUDIT_PATH, hdr + fmt.Sprintf("item=%d name=\"%s\" inode=%d dev=fd:00 mode=0100644 ouid=0 ogid=0 rdev=00:00 nametype=%s", item, name, 100+item+len(name), rest)}
	}
	pathSets := [][]rawRec{
		nil,
		{path(0, "/etc/a", "NORMAL"), path(1, "/etc/b", "CREATE")},
		{path(1, "/etc/b", "CREATE"), path(0, "/etc/a", "PARENT")},
		{path(0, "/etc/a", "PARENT"), path(0, "/etc/other", "DELETE")},
		{path(0, "/etc/a", "NORMAL"), path(1, "/etc/b", "CREATE"), path(0, "/etc/c", "DELETE")},
		{path(1, "/etc/b", "NORMAL")},
		{path(0, "/etc/a", "NORMAL"), path(0, "/etc/a", "NORMAL")},
		{path(2, "/x", "NORMAL"), path(2, "/y", "NORMAL"), path(2, "/z", "NORMAL")},
	}
	extras := [][]rawRec{
		nil,
		{{auparse.AUDIT_CWD, hdr + "cwd=\"/root\""}, {auparse.AUDIT_PROCTITLE, hdr + "proctitle=2F62696E2F7800612062"}},
		{{auparse.AUDIT_EXECVE, hdr + "argc=3 a0=\"/bin/x\" a1=\"-l\" a2=2F746D702F6D792066"}},
		{{auparse.AUDIT_EXECVE, hdr + "argc=2 a0=\"/bin/x\" a1_len=8 a1[0]=61626364 a1[1]=65666768"}},
		{{auparse.AUDIT_CWD, hdr + "cwd=\"/a\""}, {auparse.AUDIT_CWD, hdr + "cwd=\"/b\""}},
		{{auparse.AUDIT_PROCTITLE, hdr + "proctitle=\"x\""}, {auparse.AUDIT_EOE, hdr}},
	}
	var out [][]rawRec
	for _, nr := range []int{42, 2, 59} {
		for si := -1; si < len(saddrs); si++ {
			for _, ps := range pathSets {
				for _, ex := range extras {
					g := []rawRec{sys(nr, "")}
					if si >= 0 {
						g = append(g, rawRec{auparse.AUDIT_SOCKADDR, hdr + "saddr=" + saddrs[si]})
					}
					g = append(g, ps...)
					g = append(g, ex...)
					out = append(out, g)
					if si >= 0 && len(ps) == 0 && len(ex) == 0 {
						// two SOCKADDR records in one event
						out = append(out, append(append([]rawRec{}, g...), rawRec{auparse.AUDIT_SOCKADDR, hdr + "saddr=" + saddrs[(si+2)%len(saddrs)]}))
					}
				}
			}
		}
	}
	// stand-alone records (events without a SYSCALL record)
	for _, r := range []rawRec{
		{auparse.AUDIT_USER_LOGIN, hdr + "pid=1 uid=0 auid=4294967295 ses=4294967295 msg='op=login acct=\"root\" exe=\"/usr/sbin/sshd\" hostname=? addr=10.1.2.3 terminal=ssh res=failed'"},
		{auparse.AUDIT_USER_CMD, hdr + "pid=1 uid=0 auid=1000 ses=1 msg='cwd=\"/root\" cmd=6C73202D6C terminal=pts/0 res=success'"},
		{auparse.AUDIT_LOGIN, hdr + "pid=1 uid=0 old auid=4294967295 new auid=1000 old ses=4294967295 new ses=5 res=1"},
		{auparse.AUDIT_AVC, hdr + "avc:  denied  { read } for  pid=1 comm=\"x\" name=\"y\" dev=\"sda1\" ino=5 scontext=system_u:system_r:a_t:s0 tcontext=system_u:object_r:b_t:s0 tclass=file permissive=0"},
		{auparse.AUDIT_SOCKADDR, hdr + "saddr=" + saddrIn6(443, 0, mapped, 0)},
		{auparse.AUDIT_PATH, hdr + "item=0 name=\"/etc/a\" inode=1 dev=fd:00 mode=040755 ouid=0 ogid=0 rdev=00:00 nametype=NORMAL"},
	} {
		out = append(out, []rawRec{r})
	}
	return out
}

func afterCoalesce(prop string) enumx.Generator {
	return func(c *enumx.Ctx) {
		for gi, g := range afterGroups() {
			if !c.Mine() {
				continue
			}
			for variant := 0; variant < 3; variant++ {
				gi, g, variant := gi, g, variant
				c.Begin(func() string {
					return fmt.Sprintf("group %d variant %d: %d records, first %q", gi, variant, len(g), g[0].raw)
				})
				c.Try(prop, func() {
					var msgs []*auparse.AuditMessage
					var fresh []snapshot
					for _, r := range g {
						m, err := auparse.Parse(r.typ, r.raw)
						f, err2 := auparse.Parse(r.typ, r.raw)
						if err != nil || err2 != nil {
							return
						}
						msgs = append(msgs, m)
						fresh = append(fresh, snapOf(f)) // a copy nobody else ever touches
					}
					var before []snapshot
					if variant != 1 {
						// variant 1: the consumer is the FIRST reader of the messages
						for _, m := range msgs {
							before = append(before, snapOf(m))
						}
					}
					order := msgs
					if variant == 2 {
						order = append([]*auparse.AuditMessage{}, msgs...)
						for i, j := 1, len(order)-1; i < j; i, j = i+1, j-1 {
							order[i], order[j] = order[j], order[i]
						}
					}
					for rep := 0; rep < 2; rep++ {
						ev, err := aucoalesce.CoalesceMessages(order)
						if err == nil && ev != nil && rep == 0 {
							aucoalesce.ResolveIDs(ev)
						}
						for i, m := range msgs {
							now := snapOf(m)
							if before != nil {
								if d := before[i].diff(now); d != "" {
									c.Report(prop+" changed-by-coalescing:"+g[i].typ.String(), fmt.Sprintf("record %d (%s %q) of a %d-record event reported one thing before and another after aucoalesce.CoalesceMessages (pass %d, variant %d): %s", i, g[i].typ, g[i].raw, len(g), rep+1, variant, d), nil)
									return
								}
							}
							if d := fresh[i].diff(now); d != "" {
								c.Report(prop+" differs-from-untouched-copy:"+g[i].typ.String(), fmt.Sprintf("record %d (%s %q) of a %d-record event: a separately parsed copy of the same text vs the message after aucoalesce.CoalesceMessages (pass %d, variant %d): %s", i, g[i].typ, g[i].raw, len(g), rep+1, variant, d), nil)
								return
							}
						}
					}
					c.Nontrivial()
				})
			}
		}
		c.Sample("SYSCALL + SOCKADDR(::ffff:10.1.2.3) + PATH item=0 twice: every message reports the same before and after CoalesceMessages")
	}
}

func init() {
	gens["c05-after-coalesce"] = afterCoalesce("C05")
	gens["c12-after-coalesce"] = afterCoalesce("C12")
}
