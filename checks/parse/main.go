// Command parse decides C04, C05 and C12 (audit log parser) by
// bounded-exhaustive input enumeration against independent reference
// formatters / encoders (DESIGN.md §3.4, §5).
package main

import (
	"encoding/json"
	"flag"
	"fmt"
	"os"

	"verif/engine/enumx"
	"verif/engine/ev"
	"verif/engine/par"
)

var gens = map[string]enumx.Generator{}

func main() {
	if par.IsWorker() && par.WorkerKind() == "c12order" {
		var j orderJob
		par.WorkerMain(&j, func() interface{} { return orderWorker(j) })
	}
	enumx.WorkerMain(gens)
	prop := flag.String("prop", "", "property id")
	tier := flag.String("tier", "quick", "quick|thorough")
	replayF := flag.String("replay", "", "replay a violation file")
	flag.Parse()
	if *replayF != "" {
		os.Exit(doReplay(*replayF))
	}
	var run *ev.Run
	switch *prop {
	case "C04":
		run = ev.Begin("C04", *tier, "exploration")
		enumx.Run(run, "C04", []string{"c04-types", "c04-ms", "c04-product", "c04-errors", "c04-bodybytes", "c04-long", "c04-runes", "c04-literals", "c04-collisions", "c04-now", "c04-selfsimilar", "c04-related", "c04-samebuffer"}, *tier, 16, true)
		run.Set("rule", "lines 'type=T msg=audit(S.mmm:N): body' written by an independent formatter: all 65536 types x 3 spellings (name, lower case, UNKNOWN[n]); all 1000 millisecond strings; full product of boundary types x seconds x ms x sequences x hostile bodies; error side: every proper prefix and every single-byte substitution of boundary headers. non-trivial = accepted line whose every header field and ToMapStr key matched the independent expectation, or must-fail line that was rejected")
	case "C05":
		run = ev.Begin("C05", *tier, "exploration")
		enumx.Run(run, "C05", []string{"c05-lines", "c05-bodies", "c05-alltypes", "c05-golden", "c05-typenames", "c05-long", "c05-padding", "c05-multikey", "c05-runes", "c05-numbers", "c05-keypairs", "c05-literals", "c05-case", "c05-saddr-bytes", "c05-after-coalesce", "c05-prefix", "c05-amounts", "c05-avc"}, *tier, 32, true)
		run.Set("rule", "all token sequences of length <=3 (quick) / <=4 (thorough) over a token alphabet built from every literal the parser reacts to, as whole log lines and as bodies behind a valid header x 16 record-type classes; all 65536 types x short bodies; every truncation of every golden log line. Oracle: no panic/hang, msg==nil <=> err!=nil, Data/Tags/ToMapStr repeatable. non-trivial = input the parser accepted and for which Data() returned at least one field")
	case "C12":
		run = ev.Begin("C12", *tier, "exploration")
		enumx.Run(run, "C12", []string{"c12-strings", "c12-sockaddr", "c12-syscalls", "c12-derived", "c12-derived-alltypes", "c12-placeholders", "c12-after-coalesce"}, *tier, 16, true)
		run.Set("rule", "records written by an independent kernel-side encoder (audit_log_untrustedstring rule: quoted if every byte is 0x21..0x7e and not '\"', else upper-case hex; struct sockaddr hex): every string of length <=3 (quick) / <=4 (thorough) over a 14-byte class alphabet for each decoded field; all 65536 IPv4 ports x addresses, IPv6 and unix addresses; every (arch, nr) of the published syscall tables and nr+-1; every errno 1..4095; result / unset-id normalisation; placeholder dropping. non-trivial = record whose decoded value(s) equalled the original")
		orderPass(run)
	default:
		fmt.Println("ERROR unknown property", *prop)
		os.Exit(2)
	}
	run.Set("exhaustive", true)
	run.Assume("the stated domains are enumerated completely; inputs outside the alphabets / lengths are not covered")
	os.Exit(run.Finish())
}

func doReplay(path string) int {
	b, err := os.ReadFile(path)
	if err != nil {
		fmt.Println("ERROR", err)
		return 2
	}
	var doc struct {
		Property string
		Cases    []struct {
			What   string
			Replay interface{}
		}
	}
	_ = json.Unmarshal(b, &doc)
	for _, c := range doc.Cases {
		fmt.Printf("case: %v\nwas: %s\n", c.Replay, c.What)
	}
	fmt.Println("cases are single inputs: paste them into auparse.ParseLogLine / Parse, or re-run the check")
	fmt.Printf("VIOLATION property=%s replay=%s\n", doc.Property, path)
	return 1
}

func jsonUnmarshal(b []byte, v interface{}) error { return json.Unmarshal(b, v) }
