package main

import (
	"encoding/hex"
	"fmt"
	"net"
	"path/filepath"
	"sort"
	"strconv"
	"strings"

	"github.com/elastic/go-libaudit/v2/auparse"

	"verif/engine/enumx"
	"verif/engine/ev"
	"verif/engine/harvest"
	"verif/refdata"
)

func init() {
	gens["c12-derived-alltypes"] = c12DerivedAllTypes
	gens["c12-strings"] = c12Strings
	gens["c12-sockaddr"] = c12Sockaddr
	gens["c12-syscalls"] = c12Syscalls
	gens["c12-derived"] = c12Derived
	gens["c12-placeholders"] = c12Placeholders
}

// ustr is the kernel's audit_log_untrustedstring (and user space's
// audit_encode_nv_string): a value is written in double quotes when every byte
// is in 0x21..0x7e and is not '"'; otherwise as upper-case hex.
func ustr(s string) string {
	for i := 0; i < len(s); i++ {
		if s[i] < 0x21 || s[i] > 0x7e || s[i] == '"' {
			return strings.ToUpper(hex.EncodeToString([]byte(s)))
		}
	}
	return `"` + s + `"`
}

func hexAlways(s string) string { return strings.ToUpper(hex.EncodeToString([]byte(s))) }

var classAlphabet = []string{"a", "A", "F", "0", " ", "\"", "'", "=", "\\", "?", "\x01", "\x7f", "\x80", "\xff", ",", ")", "(", ":"}

// inDomain applies the stated exclusions: values that begin or end with a
// quote character or end in a backslash are normalised by design.
func inDomain(s string) bool {
	if s == "" {
		return false
	}
	f, l := s[0], s[len(s)-1]
	if f == '"' || f == '\'' || l == '"' || l == '\'' || l == '\\' {
		return false
	}
	return true
}

// isPlaceholder: these values are dropped by design when written quoted or bare.
func isPlaceholder(s string) bool {
	switch strings.Trim(s, `'" `) {
	case "", "?", "?,", "(null)":
		return true
	}
	return false
}

type rec struct {
	typ   uint16
	body  string
	field string            // decoded field under test
	want  string            // expected decoded value
	plain map[string]string // plain fields that must come back unchanged
}

const hdr = "audit(1700000000.123:42): "

func recordsFor(v string) []rec {
	u := ustr(v)
	var out []rec
	out = append(out,
		rec{1300, "arch=c000003e syscall=2 success=yes exit=3 a0=7ffd a1=0 a2=1b6 a3=0 items=1 ppid=10 pid=11 auid=1000 uid=0 gid=0 tty=pts0 ses=3 comm=\"cat\" exe=" + u + " key=(null)", "exe", v,
			map[string]string{"a0": "7ffd", "a2": "1b6", "items": "1", "ppid": "10", "pid": "11", "auid": "1000", "uid": "0", "tty": "pts0", "ses": "3", "comm": "cat", "exit": "3"}},
		// the same field in records whose OTHER fields take the rare paths: a syscall number without a table
		// entry, an ABI without a table, a failed call, SECCOMP
		rec{1300, "arch=c000003e syscall=9999 success=no exit=-13 a0=7ffd a1=0 a2=1b6 a3=0 items=1 ppid=10 pid=11 auid=4294967295 uid=0 gid=0 tty=(none) ses=4294967295 comm=\"cat\" exe=" + u + " key=(null)", "exe", v,
			map[string]string{"a0": "7ffd", "ppid": "10", "pid": "11", "auid": "unset", "ses": "unset", "comm": "cat", "syscall": "9999"}},
		rec{1300, "arch=c00000f3 syscall=1 success=yes exit=0 a0=0 items=0 ppid=10 pid=11 auid=0 uid=0 comm=\"cat\" exe=" + u, "exe", v, map[string]string{"pid": "11", "comm": "cat", "syscall": "1"}},
		rec{1326, "auid=1000 uid=0 gid=0 ses=1 pid=11 comm=\"cat\" exe=" + u + " sig=31 arch=c000003e syscall=400 compat=0 ip=0x7f code=0x0", "exe", v, map[string]string{"pid": "11", "comm": "cat", "syscall": "400"}},
		rec{1307, "cwd=" + u, "cwd", v, nil},
		rec{1302, "item=0 name=" + u + " inode=5 dev=08:01 mode=0100644 ouid=0 ogid=0 rdev=00:00 nametype=NORMAL cap_fp=0 cap_fi=0 cap_fe=0 cap_fver=0", "name", v,
			map[string]string{"item": "0", "inode": "5", "dev": "08:01", "mode": "0100644", "ouid": "0", "ogid": "0", "rdev": "00:00", "nametype": "NORMAL", "cap_fver": "0"}},
		rec{1327, "proctitle=" + u, "proctitle", strings.ReplaceAll(v, "\x00", " "), nil},
		rec{1309, "argc=2 a0=" + ustr("ls") + " a1=" + u, "a1", v, map[string]string{"argc": "2", "a0": "ls"}},
		rec{1309, "argc=1 a0=" + u, "a0", v, map[string]string{"argc": "1"}},
		rec{1319, "tty pid=1 uid=0 auid=1000 ses=1 major=136 minor=0 comm=\"bash\" data=" + hexAlways(v), "data", v, map[string]string{"pid": "1", "major": "136", "minor": "0", "comm": "bash"}},
		rec{1123, "pid=9 uid=0 auid=1000 ses=1 msg='cwd=" + ustr("/root") + " cmd=" + u + " terminal=pts/0 res=success'", "cmd", v, map[string]string{"pid": "9", "uid": "0", "auid": "1000", "terminal": "pts/0", "cwd": "/root"}},
		rec{1112, "pid=9 uid=0 auid=4294967295 ses=4294967295 msg='op=login acct=" + u + " exe=\"/usr/sbin/sshd\" hostname=? addr=10.0.0.1 terminal=ssh res=failed'", "acct", v, map[string]string{"op": "login", "exe": "/usr/sbin/sshd", "addr": "10.0.0.1", "terminal": "ssh", "auid": "unset", "ses": "unset", "result": "fail"}},
	)
	return out
}

var hvAuparse *harvest.Result

// harvestedAuparse: literals, integer constants and AUDIT_ identifiers of the hand-written files of the
// tree's auparse package (generated tables are enumerated by their own generators).
func harvestedAuparse() *harvest.Result {
	if hvAuparse == nil {
		r := harvest.Dir(filepath.Join(ev.Repo(), "auparse"), harvest.Options{SkipFile: func(n string) bool {
			return strings.HasPrefix(n, "z") || strings.HasPrefix(n, "mk_") || strings.HasPrefix(n, "defs_")
		}})
		hvAuparse = &r
	}
	return hvAuparse
}

func checkRec(c *enumx.Ctx, r rec) {
	raw := hdr + r.body
	c.Begin(func() string { return fmt.Sprintf("Parse(%d, %s)", r.typ, strconv.Quote(raw)) })
	c.Try("C12", func() {
		m, err := auparse.Parse(auparse.AuditMessageType(r.typ), raw)
		if err != nil {
			c.Report("C12 parse-error", fmt.Sprintf("Parse(%d, %q): %v", r.typ, raw, err), nil)
			return
		}
		d, err := m.Data()
		tname := auparse.AuditMessageType(r.typ).String()
		if err != nil {
			sig := "C12 data-error:" + tname + "." + r.field
			if (r.typ == 1123 || r.typ == 1112) && strings.Contains(r.want, "'") {
				sig = "C12 interior-apostrophe-in-msg-quoted-record:" + tname
			}
			c.Report(sig, fmt.Sprintf("Data() failed with %q on a %s record written the way the kernel writes it: %q (original %s=%q)", err, tname, raw, r.field, r.want), nil)
			return
		}
		ok := true
		if got, found := d[r.field]; !found || got != r.want {
			sig := "C12 decode:" + tname + "." + r.field
			if (r.typ == 1123 || r.typ == 1112) && strings.Contains(r.want, "'") {
				sig = "C12 interior-apostrophe-in-msg-quoted-record:" + tname
			}
			c.Report(sig, fmt.Sprintf("%s record %q: Data()[%q] = %q (present=%v), the kernel encoded %q", tname, raw, r.field, got, found, r.want), nil)
			ok = false
		}
		for k, w := range r.plain {
			if got, found := d[k]; !found || got != w {
				sig := "C12 plain-field:" + tname + "." + k
				if (r.typ == 1123 || r.typ == 1112) && strings.Contains(r.want, "'") {
					sig = "C12 interior-apostrophe-in-msg-quoted-record:" + tname
				}
				c.Report(sig, fmt.Sprintf("%s record %q: plain field %s = %q (present=%v), written %q", tname, raw, k, got, found, w), nil)
				ok = false
			}
		}
		if ok {
			c.Nontrivial()
		}
	})
}

func c12Strings(c *enumx.Ctx) {
	maxLen := 3
	if c.Tier == "thorough" {
		maxLen = 4
	}
	alpha := classAlphabet
	forSeqs(alpha, maxLen, func(v string) {
		if !inDomain(v) || isPlaceholder(v) {
			return
		}
		for _, r := range recordsFor(v) {
			if !c.Mine() {
				continue
			}
			// hex-looking safe strings such as "AF" are quoted by the kernel and must stay literal
			checkRec(c, r)
		}
	})
	// every byte value 0x01..0xFF inside an otherwise plain value (a special case for ONE byte
	// value is invisible to a class alphabet)
	for b := 1; b < 256; b++ {
		for _, shape := range []string{"x%sy", "%sx", "/a/%s"} {
			v := fmt.Sprintf(shape, string([]byte{byte(b)}))
			if !inDomain(v) || isPlaceholder(v) {
				continue
			}
			for _, r := range recordsFor(v) {
				if !c.Mine() {
					continue
				}
				checkRec(c, r)
			}
		}
	}
	// LONG values: length limits inside the decoders (PATH_MAX, record size) are far above the
	// short-string enumeration; with a space the kernel hex-encodes, without it quotes
	for _, n := range []int{100, 255, 256, 1000, 1023, 1024, 1025, 2047, 2048, 2049, 3000, 3750, 4095, 4096, 4097, 7000} {
		for _, unsafeCh := range []string{" ", "", "\xff"} {
			v := "/" + strings.Repeat("d", n-2) + unsafeCh
			if unsafeCh != "" {
				v = "/" + strings.Repeat("d", n-3) + unsafeCh + "e"
			}
			for _, r := range recordsFor(v) {
				if !c.Mine() {
					continue
				}
				checkRec(c, r)
			}
		}
	}
	// string literals of the tree's auparse package (whatever the decoders compare against or cut out): as
	// whole values, in the middle and at either end of a value, of every decoded field
	for _, l := range harvestedAuparse().Strings {
		for _, shape := range []string{"%s", "ab%scd", "%sx", "x%s", "/tmp/%s/%s"} {
			v := strings.ReplaceAll(shape, "%s", l)
			if !inDomain(v) || isPlaceholder(v) || len(v) > 200 || strings.Contains(v, "\x00") {
				continue // a NUL cannot be inside a kernel string (proctitle has its own cases)
			}
			for _, r := range recordsFor(v) {
				if !c.Mine() {
					continue
				}
				checkRec(c, r)
			}
		}
	}
	// proctitle with NUL separators
	for _, v := range []string{"a\x00b", "sshd: root\x00", "/bin/sh\x00-c\x00echo hi", "\x00", "a\x00\x00b", "x\x00\xff"} {
		if !c.Mine() {
			continue
		}
		checkRec(c, rec{1327, "proctitle=" + ustr(v), "proctitle", strings.ReplaceAll(v, "\x00", " "), nil})
	}
	// longer realistic values
	for _, v := range []string{"/usr/bin/cat", "/tmp/my file", "/tmp/ü", "C:\\x\\y", "a=b", "it's", "x\"y", "/bin/sh -c 'echo hi'", "AABBCC", "DEADBEEF", "0123456789ABCDEF", "deadbeef", strings.Repeat("A", 4096), strings.Repeat("/x y", 300), "key=value key2=value2", "a b=c", "(null)x", "?x", "x?"} {
		for _, r := range recordsFor(v) {
			if !c.Mine() {
				continue
			}
			checkRec(c, r)
		}
	}
	// plain (unquoted) values that merely look like lower-case hex are not kernel hex
	// encodings (the kernel writes upper case) and must stay unchanged
	for _, v := range []string{"cafe", "deadbeef", "0a", "ab12", "ff", "a0b1c2", "0x1f", "root", "12ab", "Cafe", "cAFE"} {
		plain := []rec{
			{1300, "arch=c000003e syscall=2 success=yes exit=3 a0=0 items=0 pid=11 comm=" + v + " exe=" + v, "exe", v, map[string]string{"comm": v}},
			{1307, "cwd=" + v, "cwd", v, nil},
			{1302, "item=0 name=" + v + " inode=5", "name", v, nil},
			{1327, "proctitle=" + v, "proctitle", v, nil},
			{1309, "argc=1 a0=" + v, "a0", v, nil},
			{1123, "pid=9 uid=0 msg='cwd=/root cmd=" + v + " terminal=pts/0 res=success'", "cmd", v, nil},
			{1112, "pid=9 uid=0 msg='op=login acct=" + v + " exe=/usr/sbin/sshd res=failed'", "acct", v, nil},
			{1319, "tty pid=1 uid=0 data=" + v, "data", v, nil},
		}
		for _, r := range plain {
			if !c.Mine() {
				continue
			}
			checkRec(c, r)
		}
	}
	c.Sample(`Parse(1302, "audit(1700000000.123:42): item=0 name=2F746D702F6D792066696C65 inode=5 ...") => name="/tmp/my file"`)
}

// ---- socket addresses ------------------------------------------------------------

func saddrIn(port uint16, ip [4]byte) string {
	b := []byte{2, 0, byte(port >> 8), byte(port), ip[0], ip[1], ip[2], ip[3], 0, 0, 0, 0, 0, 0, 0, 0}
	return strings.ToUpper(hex.EncodeToString(b))
}

func saddrIn6(port uint16, flow uint32, ip [16]byte, scope uint32) string {
	b := []byte{10, 0, byte(port >> 8), byte(port), byte(flow >> 24), byte(flow >> 16), byte(flow >> 8), byte(flow)}
	b = append(b, ip[:]...)
	b = append(b, byte(scope), byte(scope>>8), byte(scope>>16), byte(scope>>24))
	return strings.ToUpper(hex.EncodeToString(b))
}

func saddrUn(path string, total int) string {
	b := []byte{1, 0}
	b = append(b, []byte(path)...)
	b = append(b, 0)
	for len(b) < total {
		b = append(b, 0)
	}
	return strings.ToUpper(hex.EncodeToString(b))
}

func checkSaddr(c *enumx.Ctx, saddr string, want map[string]string, ipWant net.IP) {
	raw := hdr + "saddr=" + saddr
	c.Begin(func() string { return "SOCKADDR " + raw })
	c.Try("C12", func() {
		m, err := auparse.Parse(1306, raw)
		if err != nil {
			c.Report("C12 parse-error", err.Error(), nil)
			return
		}
		d, err := m.Data()
		if err != nil {
			c.Report("C12 saddr-error:"+want["family"], fmt.Sprintf("Data() failed on SOCKADDR %q: %v", raw, err), nil)
			return
		}
		ok := true
		for k, w := range want {
			if got, present := d[k]; got != w || !present {
				c.Report("C12 saddr-"+want["family"]+":"+k, fmt.Sprintf("SOCKADDR %q: %s = %q, encoded %q", raw, k, d[k], w), nil)
				ok = false
			}
		}
		if ipWant != nil {
			got := net.ParseIP(d["addr"])
			if got == nil || !got.Equal(ipWant) {
				c.Report("C12 saddr-"+want["family"]+":addr", fmt.Sprintf("SOCKADDR %q: addr = %q, encoded %v", raw, d["addr"], ipWant), nil)
				ok = false
			}
		}
		if ok {
			c.Nontrivial()
		}
	})
}

func c12Sockaddr(c *enumx.Ctx) {
	addrs := [][4]byte{{0, 0, 0, 0}, {127, 0, 0, 1}, {10, 1, 2, 3}, {255, 255, 255, 255}, {169, 254, 169, 254}, {1, 0, 0, 0}}
	for port := 0; port < 65536; port++ {
		for ai, a := range addrs {
			if c.Tier != "thorough" && ai > 1 {
				break
			}
			if !c.Mine() {
				continue
			}
			checkSaddr(c, saddrIn(uint16(port), a), map[string]string{"family": "ipv4", "port": strconv.Itoa(port)}, net.IPv4(a[0], a[1], a[2], a[3]))
		}
	}
	for oct := 0; oct < 4; oct++ {
		for v := 0; v < 256; v++ {
			if !c.Mine() {
				continue
			}
			a := [4]byte{10, 20, 30, 40}
			a[oct] = byte(v)
			checkSaddr(c, saddrIn(443, a), map[string]string{"family": "ipv4", "port": "443", "addr": fmt.Sprintf("%d.%d.%d.%d", a[0], a[1], a[2], a[3])}, nil)
		}
	}
	var v6 [][16]byte
	mk := func(s string) [16]byte {
		var a [16]byte
		copy(a[:], net.ParseIP(s).To16())
		return a
	}
	for _, s := range []string{"::", "::1", "::ffff:10.1.2.3", "fe80::1", "ffff:ffff:ffff:ffff:ffff:ffff:ffff:ffff", "a5a5:5a5a:a5a5:5a5a:a5a5:5a5a:a5a5:5a5a", "2001:db8::ff00:42:8329", "64:ff9b::c000:221"} {
		v6 = append(v6, mk(s))
	}
	for i := 0; i < 16; i++ { // every single-byte position
		var a [16]byte
		a[i] = 0x9C
		v6 = append(v6, a)
	}
	for _, port := range []uint16{0, 1, 22, 80, 255, 256, 32767, 32768, 65534, 65535} {
		for _, a := range v6 {
			for _, flow := range []uint32{0, 1, 0x000FFFFF} {
				if !c.Mine() {
					continue
				}
				w := map[string]string{"family": "ipv6", "port": strconv.Itoa(int(port))}
				if flow > 0 {
					w["flow"] = strconv.Itoa(int(flow))
				}
				checkSaddr(c, saddrIn6(port, flow, a, 0), w, net.IP(a[:]))
			}
		}
	}
	// address CLASSES x scope ids x flow: what a connect to a link-local / multicast / site-local neighbour logs (the
	// scope id names the interface); the address reported is the 16 bytes the kernel wrote, whatever class they are in
	classes := []string{"::", "::1", "fe80::1", "fe80::1ff:fe23:4567:890a", "febf:ffff::1", "fec0::1", "fc00::1", "fd12:3456:789a::1", "ff02::1", "ff01::fb", "ff05::1:3", "2002:c000:204::1", "2001:db8::1", "::ffff:10.1.2.3", "::10.1.2.3", "64:ff9b::a01:203", "2607:f8b0:4004:80b::200e"}
	for _, cl := range classes {
		a := mk(cl)
		for _, scope := range []uint32{0, 1, 2, 3, 255, 256, 65536, 1<<31 - 1, 1 << 31, 1<<32 - 1} {
			for _, flow := range []uint32{0, 7} {
				if !c.Mine() {
					continue
				}
				w := map[string]string{"family": "ipv6", "port": "5353"}
				if flow > 0 {
					w["flow"] = strconv.Itoa(int(flow))
				}
				full := saddrIn6(5353, flow, a, scope)
				checkSaddr(c, full, w, net.IP(a[:]))
				checkSaddr(c, full+"00000000", w, net.IP(a[:]))
				if scope == 0 {
					checkSaddr(c, full[:48], w, net.IP(a[:]))
				}
			}
		}
	}
	// every address LENGTH the kernel can log: it writes exactly addrlen bytes - 16..128 for AF_INET, from 24
	// (SIN6_LEN_RFC2133, no scope id) to 128 for AF_INET6; extra bytes are zero padding of sockaddr_storage
	for n := 16; n <= 128; n++ {
		if !c.Mine() {
			continue
		}
		s4 := saddrIn(8080, [4]byte{10, 9, 8, 7})
		for len(s4) < 2*n {
			s4 += "00"
		}
		checkSaddr(c, s4[:2*n], map[string]string{"family": "ipv4", "port": "8080", "addr": "10.9.8.7"}, nil)
		if n >= 24 {
			a6 := mk("2001:db8::42")
			s6 := saddrIn6(8443, 0, a6, 0)
			for len(s6) < 2*n {
				s6 += "00"
			}
			checkSaddr(c, s6[:2*n], map[string]string{"family": "ipv6", "port": "8443"}, net.IP(a6[:]))
		}
	}
	// unix pathname sockets: path strings, with and without trailing padding
	maxLen := 2
	if c.Tier == "thorough" {
		maxLen = 3
	}
	forSeqs([]string{"a", "/", " ", "\"", "'", "=", "\x01", "\x7f", "\xff", "F", "0"}, maxLen, func(p string) {
		if p == "" {
			return
		}
		for _, total := range []int{0, 110} {
			if !c.Mine() {
				continue
			}
			checkSaddr(c, saddrUn("/run/"+p, total), map[string]string{"family": "unix", "path": "/run/" + p}, nil)
		}
	})
	// unnamed and abstract unix sockets: an empty path is a value, too (the key is there)
	for _, sa := range []string{"0100", "010000", "01000000000000", saddrUn("", 110), "010000666F6F", "010000666F6F00"} {
		if !c.Mine() {
			continue
		}
		checkSaddr(c, sa, map[string]string{"family": "unix", "path": ""}, nil)
	}
	for _, p := range []string{"/var/run/nscd/socket", "/dev/log", "public/pickup", strings.Repeat("x", 107)} {
		if !c.Mine() {
			continue
		}
		checkSaddr(c, saddrUn(p, 110), map[string]string{"family": "unix", "path": p}, nil)
	}
	c.Sample("SOCKADDR saddr=020001BB0A141E280000000000000000 => family=ipv4 addr=10.20.30.40 port=443")
}

// ---- arch / syscall ----------------------------------------------------------------

func c12Syscalls(c *enumx.Ctx) {
	var arches []auparse.AuditArch
	for a := range auparse.AuditArchNames {
		arches = append(arches, a)
	}
	sort.Slice(arches, func(i, j int) bool { return arches[i] < arches[j] })
	for _, a := range arches {
		aname := auparse.AuditArchNames[a]
		table := auparse.AuditSyscalls[aname]
		nums := map[int]bool{}
		for n := range table {
			nums[n] = true
			nums[n-1] = true
			nums[n+1] = true
		}
		nums[0] = true
		nums[100000] = true
		var ns []int
		for n := range nums {
			if n >= 0 {
				ns = append(ns, n)
			}
		}
		sort.Ints(ns)
		for _, n := range ns {
			for _, typ := range []uint16{1300, 1326} {
				if !c.Mine() {
					continue
				}
				body := fmt.Sprintf("arch=%x syscall=%d success=yes exit=0 a0=0 items=0 pid=1 exe=\"/x\"", uint32(a), n)
				if typ == 1326 {
					// compat= says whether the task runs in compatibility mode; the arch field already names the ABI the number
					// belongs to
					body = fmt.Sprintf("auid=1000 uid=0 gid=0 ses=1 pid=1 comm=\"x\" exe=\"/x\" sig=31 arch=%x syscall=%d compat=%d ip=0x7f code=0x0", uint32(a), n, n%2)
				}
				raw := hdr + body
				c.Begin(func() string { return fmt.Sprintf("Parse(%d, %q)", typ, raw) })
				c.Try("C12", func() {
					m, err := auparse.Parse(auparse.AuditMessageType(typ), raw)
					if err != nil {
						c.Report("C12 parse-error", err.Error(), nil)
						return
					}
					d, err := m.Data()
					if err != nil {
						c.Report("C12 syscall-data-error", fmt.Sprintf("Data() failed on %q: %v", raw, err), nil)
						return
					}
					wantSys := strconv.Itoa(n)
					if name, ok := table[n]; ok {
						wantSys = name
					}
					if d["arch"] != aname || d["syscall"] != wantSys {
						c.Report("C12 arch-syscall-name", fmt.Sprintf("%q: arch=%q syscall=%q, the published tables say arch=%q syscall=%q", raw, d["arch"], d["syscall"], aname, wantSys), nil)
						return
					}
					if typ == 1326 && d["sig"] != "SIGSYS" {
						c.Report("C12 seccomp-signal", fmt.Sprintf("%q: sig=%q want SIGSYS", raw, d["sig"]), nil)
						return
					}
					c.Nontrivial()
				})
			}
		}
	}
	// the companion fields of a SYSCALL record (a0..a3: small integers that select a sub-operation of multiplexer calls -
	// socketcall, ipc, futex, fcntl, prctl, ptrace ... - and pointer-like values): the name is the table's name for
	// (arch, number), whatever the arguments are
	argVals := []string{"ffffffff", "7ffc00001000", "ffffffffffffff9c", "80000", "100"}
	for v := 0; v <= 0x28; v++ {
		argVals = append(argVals, strconv.FormatInt(int64(v), 16))
	}
	for _, a := range arches {
		aname := auparse.AuditArchNames[a]
		table := auparse.AuditSyscalls[aname]
		var ns []int
		for n := range table {
			ns = append(ns, n)
		}
		sort.Ints(ns)
		for _, n := range ns {
			if !c.Mine() {
				continue
			}
			for ai := 0; ai < 4; ai++ {
				for _, v := range argVals {
					if ai >= 2 && len(v) > 2 {
						continue
					}
					args := []string{"3", "7ffe0000", "10", "0"}
					args[ai] = v
					raw := hdr + fmt.Sprintf("arch=%x syscall=%d success=yes exit=0 a0=%s a1=%s a2=%s a3=%s items=0 ppid=1 pid=2 exe=\"/x\"", uint32(a), n, args[0], args[1], args[2], args[3])
					c.Begin(func() string { return fmt.Sprintf("Parse(1300, %q)", raw) })
					c.Try("C12", func() {
						m, err := auparse.Parse(auparse.AUDIT_SYSCALL, raw)
						if err != nil {
							c.Report("C12 parse-error", err.Error(), nil)
							return
						}
						d, err := m.Data()
						if err != nil {
							c.Report("C12 syscall-data-error", fmt.Sprintf("Data() failed on %q: %v", raw, err), nil)
							return
						}
						if d["arch"] != aname || d["syscall"] != table[n] {
							c.Report("C12 arch-syscall-name", fmt.Sprintf("%q: arch=%q syscall=%q, the published tables say arch=%q syscall=%q", raw, d["arch"], d["syscall"], aname, table[n]), nil)
							return
						}
						for i, k := range []string{"a0", "a1", "a2", "a3"} {
							if d[k] != args[i] {
								c.Report("C12 syscall-argument-changed", fmt.Sprintf("%q: %s=%q, the record says %q", raw, k, d[k], args[i]), nil)
								return
							}
						}
						c.Nontrivial()
					})
				}
			}
		}
	}
	// independent anchors for arch codes
	if c.Shard == 0 {
		au := refdata.Audit()
		for name, want := range map[string]string{"AUDIT_ARCH_X86_64": "x86_64", "AUDIT_ARCH_I386": "i386", "AUDIT_ARCH_AARCH64": "aarch64", "AUDIT_ARCH_ARM": "arm", "AUDIT_ARCH_PPC64": "ppc64", "AUDIT_ARCH_PPC64LE": "ppc64le", "AUDIT_ARCH_S390X": "s390x", "AUDIT_ARCH_S390": "s390", "AUDIT_ARCH_PPC": "ppc"} {
			code, ok := au[name]
			if !ok {
				continue
			}
			c.Begin(func() string { return name })
			if got := auparse.AuditArchNames[auparse.AuditArch(code)]; got != want {
				c.Report("C12 arch-code:"+name, fmt.Sprintf("arch code %#x (%s in linux/audit.h) is named %q, want %q", code, name, got, want), nil)
			} else {
				c.Nontrivial()
			}
		}
		// a handful of syscall numbers every reader knows (x86_64 / i386 ABI)
		for _, a := range []struct {
			arch string
			nr   int
			name string
		}{{"x86_64", 0, "read"}, {"x86_64", 1, "write"}, {"x86_64", 2, "open"}, {"x86_64", 59, "execve"}, {"x86_64", 42, "connect"}, {"x86_64", 257, "openat"}, {"i386", 11, "execve"}, {"i386", 5, "open"}, {"i386", 102, "socketcall"}, {"aarch64", 221, "execve"}, {"aarch64", 56, "openat"}} {
			c.Begin(func() string { return fmt.Sprint(a) })
			if auparse.AuditSyscalls[a.arch][a.nr] != a.name {
				c.Report("C12 syscall-anchor", fmt.Sprintf("published table says %s syscall %d is %q, the ABI says %q", a.arch, a.nr, auparse.AuditSyscalls[a.arch][a.nr], a.name), nil)
			} else {
				c.Nontrivial()
			}
		}
	}
}

// ---- derived fields ------------------------------------------------------------------

// c12DerivedAllTypes: the derived-field rules are stated for records, not for SYSCALL records:
// every record type 0..65535 carrying the kernel's success=no exit=-N pair, res=, and unset ids.
func c12DerivedAllTypes(c *enumx.Ctx) {
	errno := refdata.Errno()
	for t := 0; t < 65536; t++ {
		if !c.Mine() {
			continue
		}
		for variant, body := range []string{
			"pid=1 uid=0 auid=4294967295 ses=-1 success=no exit=-13 a0=1 comm=\"x\"",
			"pid=1 uid=0 auid=1000 ses=4294967295 exit=-2 res=failed",
		} {
			raw := hdr + body
			c.Begin(func() string { return fmt.Sprintf("type %d: %s", t, raw) })
			c.Try("C12", func() {
				m, err := auparse.Parse(auparse.AuditMessageType(t), raw)
				if err != nil {
					return
				}
				d, err := m.Data()
				if err != nil {
					// structural fields of this type missing (EXECVE argc, SOCKADDR saddr ...): not this generator's business
					return
				}
				wantErrno := uint64(13)
				wantAuid, wantSes := "unset", "unset"
				if variant == 1 {
					wantErrno, wantAuid = 2, "1000"
				}
				if v, ok := errno[d["exit"]]; !ok || v != wantErrno {
					c.Report("C12 exit-errno-name", fmt.Sprintf("record type %d (%v) %q: exit=%q, want the name of errno %d", t, auparse.AuditMessageType(t), raw, d["exit"], wantErrno), nil)
					return
				}
				if d["result"] != "fail" {
					c.Report("C12 result-normalisation", fmt.Sprintf("record type %d (%v) %q: result=%q want \"fail\"", t, auparse.AuditMessageType(t), raw, d["result"]), nil)
					return
				}
				if d["auid"] != wantAuid || d["ses"] != wantSes {
					c.Report("C12 unset-id-normalisation", fmt.Sprintf("record type %d (%v) %q: auid=%q ses=%q want %q %q", t, auparse.AuditMessageType(t), raw, d["auid"], d["ses"], wantAuid, wantSes), nil)
					return
				}
				c.Nontrivial()
			})
		}
	}
	c.Sample("every record type: success=no exit=-13 auid=4294967295 => result=fail exit=EACCES auid=unset")
}

func c12Derived(c *enumx.Ctx) {
	errno := refdata.Errno()
	byNum := map[uint64][]string{}
	for n, v := range errno {
		byNum[v] = append(byNum[v], n)
	}
	for e := 0; e <= 4095; e++ {
		for _, sign := range []string{"-", ""} {
			if !c.Mine() {
				continue
			}
			raw := hdr + fmt.Sprintf("arch=c000003e syscall=2 success=no exit=%s%d a0=0 items=0 pid=1 exe=\"/x\"", sign, e)
			c.Begin(func() string { return raw })
			c.Try("C12", func() {
				m, _ := auparse.Parse(1300, raw)
				d, err := m.Data()
				if err != nil {
					c.Report("C12 exit-data-error", fmt.Sprintf("%q: %v", raw, err), nil)
					return
				}
				got := d["exit"]
				plain := sign + strconv.Itoa(e)
				if sign == "" || e == 0 {
					if got != plain {
						c.Report("C12 exit-nonnegative-changed", fmt.Sprintf("%q: exit=%q want %q", raw, got, plain), nil)
						return
					}
					c.Nontrivial()
					return
				}
				names := byNum[uint64(e)]
				if len(names) == 0 {
					// not an errno of this ABI: the number stays (or a name the library knows that we cannot refute)
					if got != plain {
						if v, ok := errno[got]; ok && v != uint64(e) {
							c.Report("C12 exit-errno-name", fmt.Sprintf("%q: exit=%q which is errno %d", raw, got, v), nil)
						}
					}
					c.Nontrivial()
					return
				}
				if v, ok := errno[got]; !ok || v != uint64(e) {
					c.Report("C12 exit-errno-name", fmt.Sprintf("%q: exit=%q, errno %d is %v", raw, got, e, names), nil)
					return
				}
				c.Nontrivial()
			})
		}
	}
	// every architecture code the tree names x the errnos that are numbered identically on every architecture
	// (1..34): the errno rule does not depend on the arch field of the record
	var archCodes []string
	for code := range auparse.AuditArchNames {
		archCodes = append(archCodes, fmt.Sprintf("%x", uint32(code)))
	}
	sort.Strings(archCodes)
	archCodes = append(archCodes, "0", "ffffffff", "c00000ff")
	for _, ac := range archCodes {
		for e := 1; e <= 34; e++ {
			if !c.Mine() {
				continue
			}
			for _, typ := range []uint16{1300, 1326} {
				raw := hdr + fmt.Sprintf("arch=%s syscall=1 success=no exit=-%d a0=0 items=0 pid=1 exe=\"/x\"", ac, e)
				if typ == 1326 {
					raw = hdr + fmt.Sprintf("auid=0 uid=0 pid=1 comm=\"x\" exe=\"/x\" sig=31 arch=%s syscall=1 compat=0 ip=0x1 code=0x0 exit=-%d", ac, e)
				}
				c.Begin(func() string { return raw })
				c.Try("C12", func() {
					m, _ := auparse.Parse(auparse.AuditMessageType(typ), raw)
					d, err := m.Data()
					if err != nil {
						return // an arch the tree cannot name at all: not this generator's business
					}
					if v, ok := errno[d["exit"]]; !ok || v != uint64(e) {
						c.Report("C12 exit-errno-name", fmt.Sprintf("%q: exit=%q, want the name of errno %d whatever the arch field says", raw, d["exit"], e), nil)
						return
					}
					c.Nontrivial()
				})
			}
		}
	}
	// success / res -> result ; auid / ses -> unset
	type kv struct{ k, v, want string }
	for _, r := range []kv{{"success", "yes", "success"}, {"success", "no", "fail"}, {"res", "success", "success"}, {"res", "failed", "fail"}, {"res", "1", "success"}, {"res", "0", "fail"}} {
		for _, id := range []kv{{"auid", "4294967295", "unset"}, {"auid", "-1", "unset"}, {"auid", "0", "0"}, {"auid", "1000", "1000"}, {"ses", "4294967295", "unset"}, {"ses", "-1", "unset"}, {"ses", "7", "7"}, {"old-auid", "4294967295", "unset"}} {
			for _, typ := range []uint16{1300, 1112, 1100} {
				if !c.Mine() {
					continue
				}
				var raw string
				if typ == 1300 {
					if r.k != "success" {
						continue
					}
					raw = hdr + fmt.Sprintf("arch=c000003e syscall=2 %s=%s exit=0 a0=0 items=0 pid=1 %s=%s uid=0 exe=\"/x\"", r.k, r.v, id.k, id.v)
				} else {
					if r.k != "res" {
						continue
					}
					raw = hdr + fmt.Sprintf("pid=1 uid=0 %s=%s msg='op=PAM:authentication acct=\"root\" exe=\"/usr/sbin/sshd\" hostname=h addr=1.2.3.4 terminal=ssh %s=%s'", id.k, id.v, r.k, r.v)
				}
				c.Begin(func() string { return raw })
				c.Try("C12", func() {
					m, _ := auparse.Parse(auparse.AuditMessageType(typ), raw)
					d, err := m.Data()
					if err != nil {
						c.Report("C12 derived-data-error", fmt.Sprintf("%q: %v", raw, err), nil)
						return
					}
					_, stillThere := d[r.k]
					if d["result"] != r.want || stillThere {
						c.Report("C12 result-normalisation", fmt.Sprintf("%q: result=%q (%s still present: %v), want result=%q", raw, d["result"], r.k, stillThere, r.want), nil)
						return
					}
					if d[id.k] != id.want {
						c.Report("C12 unset-id-normalisation", fmt.Sprintf("%q: %s=%q want %q", raw, id.k, d[id.k], id.want), nil)
						return
					}
					c.Nontrivial()
				})
			}
		}
	}
	// BOTH spellings in one record (success= names the outcome; res= is then a plain field like any other and stays), in
	// both orders, and the outcome keys next to keys that merely look like them
	for _, sv := range []kv{{"success", "yes", "success"}, {"success", "no", "fail"}} {
		for _, rv := range []string{"7", "success", "failed", "zzq", "0", "1", "yes"} {
			for _, other := range []string{"res", "result_code", "resp", "successful", "ress"} {
				for order := 0; order < 2; order++ {
					for _, typ := range []uint16{1300, 1400, 1307} {
						if !c.Mine() {
							continue
						}
						a, b := sv.k+"="+sv.v, other+"="+rv
						if order == 1 {
							a, b = b, a
						}
						raw := hdr + fmt.Sprintf("arch=c000003e syscall=2 %s exit=3 a0=0 %s items=0 pid=1 uid=0 exe=\"/x\"", a, b)
						other, rv, sv := other, rv, sv
						c.Begin(func() string { return raw })
						c.Try("C12", func() {
							m, _ := auparse.Parse(auparse.AuditMessageType(typ), raw)
							d, err := m.Data()
							if err != nil {
								c.Report("C12 derived-data-error", fmt.Sprintf("%q: %v", raw, err), nil)
								return
							}
							if d["result"] != sv.want {
								c.Report("C12 result-normalisation", fmt.Sprintf("%q: result=%q, want %q (success= names the outcome)", raw, d["result"], sv.want), nil)
								return
							}
							if got, ok := d[other]; !ok || got != rv {
								c.Report("C12 plain-field-lost:"+other, fmt.Sprintf("%q: the plain field %s=%s is reported as (%q, present %v)", raw, other, rv, got, ok), nil)
								return
							}
							c.Nontrivial()
						})
					}
				}
			}
		}
	}
	c.Sample("SYSCALL ... exit=-13 => exit=EACCES ; res=failed => result=fail ; auid=4294967295 => auid=unset")
}

// ---- placeholders ------------------------------------------------------------------------

// A placeholder value means: that key is absent, Data() still succeeds, every
// other field of the record is intact.
func c12Placeholders(c *enumx.Ctx) {
	type tmpl struct {
		typ    uint16
		name   string
		fields [][2]string // ordered key, value (already encoded)
		inMsg  bool
	}
	tmpls := []tmpl{
		{1300, "SYSCALL", [][2]string{{"arch", "c000003e"}, {"syscall", "2"}, {"success", "yes"}, {"exit", "0"}, {"a0", "1"}, {"items", "0"}, {"ppid", "1"}, {"pid", "2"}, {"auid", "1000"}, {"uid", "0"}, {"tty", "pts0"}, {"ses", "1"}, {"comm", `"cat"`}, {"exe", `"/bin/cat"`}, {"subj", "u:r:t:s0"}, {"key", `"k"`}}, false},
		{1302, "PATH", [][2]string{{"item", "0"}, {"name", `"/etc/passwd"`}, {"inode", "5"}, {"dev", "08:01"}, {"mode", "0100644"}, {"ouid", "0"}, {"ogid", "0"}, {"rdev", "00:00"}, {"obj", "u:o:t:s0"}, {"nametype", "NORMAL"}}, false},
		{1327, "PROCTITLE", [][2]string{{"proctitle", `"bash"`}}, false},
		{1309, "EXECVE", [][2]string{{"argc", "2"}, {"a0", `"ls"`}, {"a1", `"-l"`}}, false},
		{1307, "CWD", [][2]string{{"cwd", `"/root"`}}, false},
		{1123, "USER_CMD", [][2]string{{"cwd", `"/root"`}, {"cmd", `"ls"`}, {"terminal", "pts/0"}, {"res", "success"}}, true},
		{1112, "USER_LOGIN", [][2]string{{"op", "login"}, {"acct", `"root"`}, {"exe", `"/usr/sbin/sshd"`}, {"hostname", "h"}, {"addr", "1.2.3.4"}, {"terminal", "ssh"}, {"res", "failed"}}, true},
		{1319, "TTY", [][2]string{{"pid", "1"}, {"uid", "0"}, {"auid", "1000"}, {"ses", "1"}, {"major", "136"}, {"minor", "0"}, {"comm", `"bash"`}, {"data", "6C73"}}, false},
		{1306, "SOCKADDR", [][2]string{{"saddr", "020001BB0A141E280000000000000000"}}, false},
	}
	placeholders := []string{"?", `"?"`, "(null)", `"(null)"`, `""`, "?,"}
	render := func(t tmpl, fields [][2]string) string {
		var parts []string
		for _, f := range fields {
			parts = append(parts, f[0]+"="+f[1])
		}
		if t.inMsg {
			return hdr + "pid=9 uid=0 auid=1000 ses=1 msg='" + strings.Join(parts, " ") + "'"
		}
		return hdr + strings.Join(parts, " ")
	}
	for _, t := range tmpls {
		// baseline without placeholder
		baseRaw := render(t, t.fields)
		bm, _ := auparse.Parse(auparse.AuditMessageType(t.typ), baseRaw)
		base, berr := bm.Data()
		if berr != nil {
			c.Report("ERROR/placeholder-baseline", fmt.Sprintf("baseline %q: %v", baseRaw, berr), nil)
			continue
		}
		for i, f := range t.fields {
			for _, ph := range placeholders {
				if !c.Mine() {
					continue
				}
				fields := append([][2]string{}, t.fields...)
				fields[i] = [2]string{f[0], ph}
				raw := render(t, fields)
				c.Begin(func() string { return fmt.Sprintf("Parse(%d, %q)", t.typ, raw) })
				c.Try("C12", func() {
					m, err := auparse.Parse(auparse.AuditMessageType(t.typ), raw)
					if err != nil {
						c.Report("C12 parse-error", err.Error(), nil)
						return
					}
					d, err := m.Data()
					if err != nil && structural[f[0]] {
						// arch, syscall, argc, saddr, sig are never written as placeholders by the
						// kernel and the record cannot be interpreted without them: the statement
						// does not fix the answer, an error is accepted
						c.Count("structural_placeholder_rejected_either_answer", 1)
						return
					}
					if err != nil {
						c.Report(fmt.Sprintf("C12 placeholder-kills-record:%s.%s", t.name, f[0]), fmt.Sprintf("%s record with placeholder %s=%s: Data() returns %q and no fields at all, instead of dropping only that key: %q", t.name, f[0], ph, err, raw), nil)
						return
					}
					if _, there := d[f[0]]; there && !derivedKey(f[0]) {
						c.Report(fmt.Sprintf("C12 placeholder-kept:%s.%s", t.name, f[0]), fmt.Sprintf("%q: placeholder value kept as %s=%q", raw, f[0], d[f[0]]), nil)
						return
					}
					// all other fields as in the baseline (minus those derived from the dropped key)
					for k, v := range base {
						if dependsOn(k, f[0]) {
							continue
						}
						if d[k] != v {
							c.Report(fmt.Sprintf("C12 placeholder-damages-others:%s.%s", t.name, f[0]), fmt.Sprintf("%q: with %s dropped, field %s = %q but %q without the placeholder", raw, f[0], k, d[k], v), nil)
							return
						}
					}
					c.Nontrivial()
				})
			}
		}
	}
	// "drops ONLY the placeholder values": values that merely look like placeholders / sentinels
	// (the strings kernels and tools print for "nothing here") are ordinary values and stay
	sentinels := []string{"<no_memory>", "<too_long>", "(none)", "none", "null", "NULL", "nil", "-", "--", "unknown", "<unknown>", "(unknown)", "N/A", "n/a",
		"??", "?,?", ",?", "?,,", "(null),", "((null))", "(null)x", "x(null)", "(NULL)", "(Null)", "<null>", "[null]", "undefined", "<none>", "(nil)", "<nil>", "*", "~", ".", "?x", "x?", "<no_memorx>", "empty", "unset_", "(deleted)", "<deleted>", "(unreachable)"}
	passThrough := map[string]bool{"tty": true, "comm": true, "exe": true, "name": true, "nametype": true, "proctitle": true,
		"a0": true, "a1": true, "cwd": true, "cmd": true, "terminal": true, "op": true, "acct": true, "hostname": true, "addr": true}
	for _, t := range tmpls {
		for i, f := range t.fields {
			if !passThrough[f[0]] || (t.typ == 1300 && (f[0] == "a0")) {
				continue
			}
			for _, sv := range sentinels {
				if !c.Mine() {
					continue
				}
				enc := sv
				if strings.HasPrefix(f[1], "\"") {
					enc = "\"" + sv + "\""
				}
				if t.inMsg && strings.ContainsAny(sv, "'") {
					continue
				}
				fields := append([][2]string{}, t.fields...)
				fields[i] = [2]string{f[0], enc}
				raw := render(t, fields)
				c.Begin(func() string { return fmt.Sprintf("Parse(%d, %q)", t.typ, raw) })
				c.Try("C12", func() {
					m, err := auparse.Parse(auparse.AuditMessageType(t.typ), raw)
					if err != nil {
						c.Report("C12 parse-error", err.Error(), nil)
						return
					}
					d, err := m.Data()
					if err != nil {
						c.Report(fmt.Sprintf("C12 ordinary-value-kills-record:%s.%s", t.name, f[0]), fmt.Sprintf("%s record with the ordinary value %s=%s: Data() returns %q: %q", t.name, f[0], enc, err, raw), nil)
						return
					}
					if got, there := d[f[0]]; !there || got != sv {
						c.Report(fmt.Sprintf("C12 ordinary-value-dropped:%s.%s", t.name, f[0]), fmt.Sprintf("%q: the value %q is not one of the placeholders (?, ?, (null), empty) but Data()[%s] = %q (present: %v)", raw, sv, f[0], got, there), nil)
						return
					}
					c.Nontrivial()
				})
			}
		}
	}
	c.Sample("PATH ... name=(null) inode=5 ... => key name absent, every other field intact; name=\"<too_long>\" kept")
}

func derivedKey(k string) bool { return false }

var structural = map[string]bool{"arch": true, "syscall": true, "argc": true, "saddr": true, "sig": true}

// dependsOn: baseline key k is derived from source key src.
func dependsOn(k, src string) bool {
	if k == src {
		return true
	}
	switch src {
	case "success", "res":
		return k == "result"
	case "subj":
		return strings.HasPrefix(k, "subj_")
	case "obj":
		return strings.HasPrefix(k, "obj_")
	case "arch":
		return k == "syscall" // name lookup needs the arch
	case "saddr":
		return k == "family" || k == "addr" || k == "port" || k == "path"
	case "argc":
		return k == "a0" || k == "a1" // without argc the arguments are not decoded
	}
	return false
}
