// Command netlink decides C18: NetlinkClient framing, sequence numbers under
// concurrency, sender check and the audit message parser, over a simulated
// socket layer behind the syscall seam (DESIGN.md §5 C18).  The optional
// conformance pass uses NETLINK_ROUTE / NETLINK_USERSOCK only - never
// NETLINK_AUDIT.
package main

import (
	"runtime"
	"runtime/debug"

	"bytes"
	"encoding/binary"
	"encoding/json"
	"errors"
	"flag"
	"fmt"
	"io"
	"os"
	"os/exec"
	"sort"
	"strings"
	"sync"
	"sync/atomic"
	"syscall"
	"time"

	libaudit "github.com/elastic/go-libaudit/v2"
	"github.com/elastic/go-libaudit/v2/vshim/sched"
	"github.com/elastic/go-libaudit/v2/vshim/vsys"

	"verif/engine/ev"
	"verif/engine/explore"
	"verif/engine/guard"
)

const portID = 4242

// sockSim is the simulated socket layer.
type sockSim struct {
	mu        sync.Mutex
	sent      []sentDatagram
	recvQ     []recvAnswer
	closed    []int
	recvFlags []int
	sockets   int
	fd        int // descriptor socket() answers with when fdSet (0, 1, 2 are legal descriptors)
	fdSet     bool
	// sendto(2) answers: a datagram whose 4-byte payload is a marker listed here is refused with
	// the given errno (nothing reaches the wire); sendErrAt refuses the k-th call (0-based)
	failMarkers map[uint32]error
	sendErrAt   map[int]error
	sendCalls   int
}

type sentDatagram struct {
	fd    int
	b     []byte
	flags int
	to    syscall.Sockaddr
}

type recvAnswer struct {
	b    []byte
	from syscall.Sockaddr
	err  error
}

func (s *sockSim) Socket(domain, typ, proto int) (int, error) {
	s.mu.Lock()
	defer s.mu.Unlock()
	s.sockets++
	if s.fdSet {
		return s.fd, nil
	}
	return 7, nil
}
func (s *sockSim) Bind(fd int, sa syscall.Sockaddr) error { return nil }
func (s *sockSim) Getsockname(fd int) (syscall.Sockaddr, error) {
	return &syscall.SockaddrNetlink{Family: syscall.AF_NETLINK, Pid: portID}, nil
}
func (s *sockSim) Sendto(fd int, p []byte, flags int, to syscall.Sockaddr) error {
	s.mu.Lock()
	defer s.mu.Unlock()
	k := s.sendCalls
	s.sendCalls++
	if e := s.sendErrAt[k]; e != nil {
		return e
	}
	if len(p) == 20 && s.failMarkers != nil {
		if e := s.failMarkers[binary.LittleEndian.Uint32(p[16:])]; e != nil {
			return e
		}
	}
	s.sent = append(s.sent, sentDatagram{fd, append([]byte{}, p...), flags, to})
	return nil
}
func (s *sockSim) Recvfrom(fd int, p []byte, flags int) (int, syscall.Sockaddr, error) {
	s.mu.Lock()
	defer s.mu.Unlock()
	s.recvFlags = append(s.recvFlags, flags)
	if len(s.recvQ) == 0 {
		return 0, nil, syscall.EAGAIN
	}
	a := s.recvQ[0]
	if flags&syscall.MSG_PEEK == 0 {
		s.recvQ = s.recvQ[1:] // MSG_PEEK leaves the datagram (or the pending error) in the queue
	}
	if a.err != nil {
		return 0, nil, a.err
	}
	n := copy(p, a.b)
	if flags&syscall.MSG_TRUNC != 0 {
		n = len(a.b) // MSG_TRUNC: the real length of the datagram, even if it did not fit
	}
	return n, a.from, nil
}
func (s *sockSim) Close(fd int) error {
	s.mu.Lock()
	defer s.mu.Unlock()
	s.closed = append(s.closed, fd)
	return nil
}

func newClient(s *sockSim, bufSize int) (*libaudit.NetlinkClient, error) {
	return newClientW(s, bufSize, nil)
}

// newClientW: with a response writer (the debugging copy of everything read).
func newClientW(s *sockSim, bufSize int, w io.Writer) (*libaudit.NetlinkClient, error) {
	vsys.Install(s)
	var buf []byte
	if bufSize > 0 {
		buf = make([]byte, bufSize)
	}
	return libaudit.NewNetlinkClient(syscall.NETLINK_ROUTE, clientGroups, buf, w)
}

// clientGroups: the multicast group mask clients are created with (0 except in the pass over subscribed clients).
var clientGroups uint32

type failWriter struct{}

func (failWriter) Write(p []byte) (int, error) { return 0, errors.New("disk full") }

type reporter struct {
	run *ev.Run
}

func (r reporter) rep(sig, format string, a ...interface{}) {
	r.run.Report(ev.Violation{Sig: "C18 " + sig, What: fmt.Sprintf(format, a...), Replay: fmt.Sprintf(format, a...)})
}

// ---- Send framing --------------------------------------------------------------

func checkSend(r reporter, tier string) (evals, nontrivial int64) {
	type tf struct{ typ, flags uint16 }
	pairs := []tf{{1000, 0x5}, {1001, 0x5}, {1013, 0x5}, {0, 0}, {0xFFFF, 0xFFFF}, {1300, 0x301}}
	step := 1
	maxLen := 8970
	lengths := []int{}
	for n := 0; n <= maxLen; n += step {
		lengths = append(lengths, n)
	}
	if tier != "thorough" {
		// quick: every length up to 300, then every 37th, plus the upper edge
		lengths = lengths[:0]
		for n := 0; n <= 300; n++ {
			lengths = append(lengths, n)
		}
		for n := 301; n < maxLen-20; n += 37 {
			lengths = append(lengths, n)
		}
		for n := maxLen - 20; n <= maxLen+3; n++ {
			lengths = append(lengths, n)
		}
	}
	// clients created WITHOUT and WITH a multicast subscription (a reader that also sends): a request goes to the kernel
	// alone either way
	var s *sockSim
	var c *libaudit.NetlinkClient
	for _, grp := range []uint32{1, 0x80000001, 0} {
		clientGroups = grp
		s = &sockSim{}
		var err error
		c, err = newClient(s, 0)
		clientGroups = 0
		if err != nil {
			r.run.Errorf("NewNetlinkClient over the simulated socket layer: %v", err)
			return
		}
		lastSeq := uint32(0)
		first := true
		for _, n := range lengths {
			if grp != 0 && n > 64 {
				break
			}
			base := make([]byte, n)
			for i := range base {
				switch n % 4 {
				case 1:
					base[i] = 0 // all NUL: a C-string style copy would stop short
				case 2:
					base[i] = 0xFF
				case 3:
					base[i] = byte(i) // contains every byte value incl. NUL, newline, 0x1d
				default:
					base[i] = byte(i*31 + n)
				}
			}
			// payloads that DESCRIBE THEMSELVES the way framed data does: the first word is the payload's own length, or the
			// length the whole message will have, little- and big-endian; a payload that starts with a complete netlink
			// header for itself.  The payload is the caller's bytes, whatever they look like
			payloads := [][]byte{base}
			if n >= 4 {
				for _, w := range []uint32{uint32(n), uint32(n + 16)} {
					le := append([]byte{}, base...)
					binary.LittleEndian.PutUint32(le, w)
					be := append([]byte{}, base...)
					binary.BigEndian.PutUint32(be, w)
					payloads = append(payloads, le, be)
				}
			}
			if n >= 16 {
				h := append([]byte{}, base...)
				binary.LittleEndian.PutUint32(h, uint32(n))
				binary.LittleEndian.PutUint16(h[4:], 1000)
				binary.LittleEndian.PutUint16(h[6:], 5)
				binary.LittleEndian.PutUint32(h[8:], 77)
				binary.LittleEndian.PutUint32(h[12:], 4242)
				payloads = append(payloads, h)
			}
			// a caller-supplied Header.Len is not the caller's to choose: every preset value around the true and the
			// aligned length (a reused message struct whose payload shrank or grew by a few bytes), 0 and 2^32-1
			for _, preset := range append([]uint32{0, 16, 1<<32 - 1}, func() (v []uint32) {
				for d := -8; d <= 12; d++ {
					if x := 16 + n + d; x >= 0 {
						v = append(v, uint32(x))
					}
				}
				return
			}()...) {
				s.sent = s.sent[:0]
				_, err := c.Send(syscall.NetlinkMessage{Header: syscall.NlMsghdr{Len: preset, Type: 1000, Flags: 5}, Data: base})
				evals++
				if err != nil || len(s.sent) != 1 {
					r.rep("send-error", "Send(len=%d, preset Header.Len=%d) returned %v and put %d datagrams on the wire", n, preset, err, len(s.sent))
					continue
				}
				d := s.sent[0]
				if len(d.b) != 16+n {
					r.rep("send-wire-length", "Send(payload %d bytes, preset Header.Len=%d): datagram is %d bytes, want %d", n, preset, len(d.b), 16+n)
				} else if got := binary.LittleEndian.Uint32(d.b[0:]); got != uint32(16+n) {
					r.rep("send-nlmsg-len", "Send(payload %d bytes, preset Header.Len=%d): nlmsg_len=%d, want %d", n, preset, got, 16+n)
				} else if !bytes.Equal(d.b[16:], base) {
					r.rep("send-payload", "Send(payload %d bytes, preset Header.Len=%d): payload bytes differ on the wire", n, preset)
				}
			}
			for vi, payload := range payloads {
				for pi, p := range pairs {
					if vi > 0 && pi > 1 {
						break
					}
					for _, pid := range []uint32{0, 99} {
						s.sent = s.sent[:0]
						msg := syscall.NetlinkMessage{Header: syscall.NlMsghdr{Len: 0xDEADBEEF, Type: p.typ, Flags: p.flags, Seq: 0xABCDEF, Pid: pid}, Data: payload}
						seq, err := c.Send(msg)
						evals++
						if err != nil {
							r.rep("send-error", "Send(len=%d) returned %v", n, err)
							continue
						}
						if len(s.sent) != 1 {
							r.rep("send-datagram-count", "Send(len=%d) put %d datagrams on the wire, want 1", n, len(s.sent))
							continue
						}
						d := s.sent[0]
						wantPid := pid
						if pid == 0 {
							wantPid = portID
						}
						ok := true
						if len(d.b) != 16+n {
							r.rep("send-wire-length", "Send(payload %d bytes): datagram is %d bytes, want %d", n, len(d.b), 16+n)
							continue
						}
						if got := binary.LittleEndian.Uint32(d.b[0:]); got != uint32(16+n) {
							r.rep("send-nlmsg-len", "Send(payload %d bytes): nlmsg_len=%d, want %d", n, got, 16+n)
							ok = false
						}
						if got := binary.LittleEndian.Uint16(d.b[4:]); got != p.typ {
							r.rep("send-type", "Send(type %d): nlmsg_type=%d", p.typ, got)
							ok = false
						}
						if got := binary.LittleEndian.Uint16(d.b[6:]); got != p.flags {
							r.rep("send-flags", "Send(flags %#x): nlmsg_flags=%#x", p.flags, got)
							ok = false
						}
						if got := binary.LittleEndian.Uint32(d.b[8:]); got != seq {
							r.rep("send-seq-mismatch", "Send returned sequence %d but the datagram carries %d", seq, got)
							ok = false
						}
						if got := binary.LittleEndian.Uint32(d.b[12:]); got != wantPid {
							r.rep("send-pid", "Send(header pid %d): nlmsg_pid=%d, want %d (socket port id %d)", pid, got, wantPid, portID)
							ok = false
						}
						if !bytes.Equal(d.b[16:], payload) {
							r.rep("send-payload", "Send(payload %d bytes, pair %d): payload bytes differ on the wire", n, pi)
							ok = false
						}
						if !first && seq <= lastSeq {
							r.rep("send-seq-not-increasing", "consecutive Send calls returned %d then %d", lastSeq, seq)
							ok = false
						}
						first = false
						lastSeq = seq
						if d.flags != 0 {
							r.rep("send-sendto-flags", "Sendto called with flags %#x", d.flags)
						}
						if to, isNl := d.to.(*syscall.SockaddrNetlink); !isNl || to.Pid != 0 || to.Groups != 0 {
							r.rep("send-destination", "Sendto destination is %#v, want the kernel (netlink pid 0, no groups)", d.to)
							ok = false
						}
						if d.fd != 7 {
							r.rep("send-fd", "Sendto on fd %d, want the client's socket 7", d.fd)
						}
						if ok && n > 0 {
							nontrivial++
						}
					}
				}
			}
		}
	}
	// sendto(2) refusing some of the calls (EMSGSIZE, ENOBUFS, EAGAIN, EPERM): every failure pattern over 6
	// consecutive Sends on one client.  Failed or not, every call returns a NEW, larger number, and
	// what did reach the wire carries the number its own call returned
	for _, errno := range []syscall.Errno{syscall.EMSGSIZE, syscall.ENOBUFS, syscall.EAGAIN, syscall.EPERM} {
		for mask := 1; mask < 64; mask++ {
			fs := &sockSim{sendErrAt: map[int]error{}}
			fc, err := newClient(fs, 0)
			if err != nil {
				r.run.Errorf("NewNetlinkClient: %v", err)
				return
			}
			for k := 0; k < 6; k++ {
				if mask&(1<<k) != 0 {
					fs.sendErrAt[k] = errno
				}
			}
			var returned []uint32
			bad := false
			for k := 0; k < 6; k++ {
				before := len(fs.sent)
				seq, err := fc.Send(syscall.NetlinkMessage{Header: syscall.NlMsghdr{Type: 1000, Flags: 5}, Data: []byte{byte(k), 0, 0, 0}})
				evals++
				failed := mask&(1<<k) != 0
				if failed != (err != nil) {
					r.rep("send-error-swallowed", "sendto answered %v for call %d of pattern %06b, Send returned err=%v", fs.sendErrAt[k], k, mask, err)
					bad = true
				}
				if !failed && (len(fs.sent) != before+1 || binary.LittleEndian.Uint32(fs.sent[before].b[8:]) != seq) {
					r.rep("send-seq-mismatch", "after refused sends (pattern %06b, %v) call %d returned %d but its datagram carries something else", mask, errno, k, seq)
					bad = true
				}
				if len(returned) > 0 && seq <= returned[len(returned)-1] {
					r.rep("send-seq-not-increasing", "sendto refused some calls (pattern %06b, bit k = call k failed, %v): consecutive Send calls returned %v then %d", mask, errno, returned, seq)
					bad = true
				}
				returned = append(returned, seq)
			}
			if !bad {
				nontrivial++
			}
			_ = fc.Close()
		}
	}
	r.run.Sample(fmt.Sprintf("Send(type=1001 flags=0x5 pid=0 payload=44 bytes) => 60-byte datagram, nlmsg_len=60, pid=%d, seq=returned value", portID))
	vsys.Install(s)
	if err := c.Close(); err != nil || len(s.closed) != 1 || s.closed[0] != 7 {
		r.rep("close", "Close returned %v and closed fds %v, want fd 7 once", err, s.closed)
	}
	return
}

// checkDescriptorsAndBuffers: (a) the socket may be ANY descriptor, 0 included (a daemon started with its standard
// streams closed): Send frames and Receive returns as usual, Close closes that descriptor once; (b) the caller's
// read buffer may start at any address (a sub-slice of a larger array) and kernel datagrams may fill it exactly:
// what the kernel sent comes back unchanged, byte for byte.
func checkDescriptorsAndBuffers(r reporter) (evals, nontrivial int64) {
	kernel := &syscall.SockaddrNetlink{Family: syscall.AF_NETLINK, Pid: 0}
	mkDatagram := func(n int) []byte {
		b := make([]byte, n)
		binary.LittleEndian.PutUint32(b[0:], uint32(n))
		binary.LittleEndian.PutUint16(b[4:], 1300)
		binary.LittleEndian.PutUint32(b[8:], 5)
		for i := 16; i < n; i++ {
			b[i] = byte(0x30 + i%70)
		}
		return b
	}
	for _, fd := range []int{0, 1, 2, 3, 7, 255, 1023, 65535} {
		s := &sockSim{fd: fd, fdSet: true}
		c, err := newClient(s, 0)
		evals++
		if err != nil {
			r.rep("descriptor-new-client", "NewNetlinkClient failed when socket() answered descriptor %d: %v", fd, err)
			continue
		}
		seq, err := c.Send(syscall.NetlinkMessage{Header: syscall.NlMsghdr{Type: 1000, Flags: 5}, Data: []byte{1, 2, 3, 4}})
		if err != nil || len(s.sent) != 1 || s.sent[0].fd != fd || binary.LittleEndian.Uint32(s.sent[0].b[8:]) != seq {
			r.rep("descriptor-send", "socket descriptor %d: Send returned (%d, %v), %d datagrams on the wire", fd, seq, err, len(s.sent))
			continue
		}
		d := mkDatagram(64)
		s.recvQ = append(s.recvQ, recvAnswer{b: d, from: kernel})
		msgs, err := c.Receive(false, func(b []byte) ([]syscall.NetlinkMessage, error) {
			return []syscall.NetlinkMessage{{Header: syscall.NlMsghdr{Type: binary.LittleEndian.Uint16(b[4:])}, Data: append([]byte{}, b[16:]...)}}, nil
		})
		if err != nil || len(msgs) != 1 || !bytes.Equal(msgs[0].Data, d[16:]) {
			r.rep("descriptor-receive", "socket descriptor %d: Receive returned %d messages, err %v for a kernel datagram", fd, len(msgs), err)
			continue
		}
		if err := c.Close(); err != nil || len(s.closed) != 1 || s.closed[0] != fd {
			r.rep("descriptor-close", "socket descriptor %d: Close returned %v and closed %v", fd, err, s.closed)
			continue
		}
		nontrivial++
	}
	for _, size := range []int{64, 256, 4096} {
		for off := 0; off < 8; off++ {
			for _, dl := range []int{size, size - 1, size - 4, size - 3, 16, 17} {
				big := make([]byte, size+16)
				buf := big[off : off+size : off+size]
				s := &sockSim{}
				vsys.Install(s)
				c, err := libaudit.NewNetlinkClient(syscall.NETLINK_ROUTE, 0, buf, nil)
				evals++
				if err != nil {
					r.rep("buffer-new-client", "NewNetlinkClient with a %d-byte caller buffer at offset %d of its array failed: %v", size, off, err)
					continue
				}
				d := mkDatagram(dl)
				s.recvQ = append(s.recvQ, recvAnswer{b: d, from: kernel})
				var got []byte
				_, err = c.Receive(false, func(b []byte) ([]syscall.NetlinkMessage, error) {
					got = append([]byte{}, b...)
					return nil, nil
				})
				if err != nil || !bytes.Equal(got, d) {
					r.rep("buffer-receive", "caller buffer of %d bytes starting at offset %d of its array (address mod 8 = %d), kernel datagram of %d bytes: Receive handed the parser %d bytes (err %v), want the datagram unchanged", size, off, off, dl, len(got), err)
					continue
				}
				nontrivial++
				_ = c.Close()
			}
		}
	}
	return
}

// ---- Receive --------------------------------------------------------------------

func checkReceive(r reporter, tier string) (evals, nontrivial int64) {
	lengths := []int{}
	for n := 0; n <= 64; n++ {
		lengths = append(lengths, n)
	}
	lengths = append(lengths, 8986, 8985, 100, 1000)
	senders := []struct {
		name string
		sa   syscall.Sockaddr
		ok   bool
	}{
		{"kernel", &syscall.SockaddrNetlink{Family: syscall.AF_NETLINK, Pid: 0}, true},
		{"kernel-with-groups", &syscall.SockaddrNetlink{Family: syscall.AF_NETLINK, Pid: 0, Groups: 1}, true},
		{"pid4242", &syscall.SockaddrNetlink{Family: syscall.AF_NETLINK, Pid: 4242}, false},
		{"pid1", &syscall.SockaddrNetlink{Family: syscall.AF_NETLINK, Pid: 1}, false},
		{"pidmax", &syscall.SockaddrNetlink{Family: syscall.AF_NETLINK, Pid: 1<<32 - 1}, false},
		{"inet", &syscall.SockaddrInet4{Port: 1}, false},
		{"unix", &syscall.SockaddrUnix{Name: "/x"}, false},
		{"nil", nil, false},
	}
	for _, n := range lengths {
		for pat := 0; pat < 3+7; pat++ {
			content := make([]byte, n)
			for i := range content {
				switch pat {
				case 1:
					content[i] = 0xFF
				case 2:
					content[i] = 0
				default:
					content[i] = byte(i + 1)
				}
			}
			if pat >= 3 {
				// nlmsg_len = datagram length + {-3..+3}: must be ignored
				if n < 4 {
					continue
				}
				binary.LittleEndian.PutUint32(content, uint32(n+pat-6))
			}
			for _, snd := range senders {
				for _, nonBlocking := range []bool{true, false} {
					for _, pre := range []error{nil, syscall.EAGAIN, syscall.EINTR} {
						s := &sockSim{}
						nc, err := newClient(s, 16+8970)
						if err != nil {
							r.run.Errorf("NewNetlinkClient: %v", err)
							return
						}
						ac := &libaudit.AuditClient{Netlink: nc}
						if pre != nil {
							s.recvQ = append(s.recvQ, recvAnswer{err: pre})
						}
						s.recvQ = append(s.recvQ, recvAnswer{b: content, from: snd.sa})
						evals++
						if pre != nil {
							m, err := ac.Receive(nonBlocking)
							if err == nil || m != nil || !errors.Is(err, pre) {
								r.rep("receive-errno-lost", "Receive with the socket answering %v returned (%v, %v)", pre, m, err)
							}
						}
						// raw parser view
						var seen []byte
						parser := func(b []byte) ([]syscall.NetlinkMessage, error) {
							seen = append([]byte{}, b...)
							return []syscall.NetlinkMessage{{}}, nil
						}
						s2 := &sockSim{}
						nc2, _ := newClient(s2, 16+8970)
						s2.recvQ = append(s2.recvQ, recvAnswer{b: content, from: snd.sa})
						msgs2, err2 := nc2.Receive(nonBlocking, parser)
						vsys.Install(s)
						m, err := ac.Receive(nonBlocking)
						wantFlags := 0
						if nonBlocking {
							wantFlags = syscall.MSG_DONTWAIT
						}
						for _, f := range s.recvFlags {
							if f != wantFlags {
								r.rep("receive-flags", "Receive(nonBlocking=%v) called recvfrom with flags %#x, want %#x", nonBlocking, f, wantFlags)
							}
						}
						accept := snd.ok && n >= 16
						if accept {
							if err != nil || m == nil {
								r.rep("receive-kernel-rejected", "Receive of a %d-byte datagram from the kernel (%s) returned error %v", n, snd.name, err)
								continue
							}
							if uint16(m.Type) != binary.LittleEndian.Uint16(content[4:]) || !bytes.Equal(m.Data, content[16:]) {
								r.rep("receive-altered", "Receive of a %d-byte kernel datagram returned type %d and %d payload bytes, want type %d and the %d bytes after the header unchanged", n, m.Type, len(m.Data), binary.LittleEndian.Uint16(content[4:]), n-16)
								continue
							}
							if err2 != nil || len(msgs2) != 1 || !bytes.Equal(seen, content) {
								r.rep("receive-parser-view", "the parser was handed %d bytes for a %d-byte kernel datagram (err %v)", len(seen), n, err2)
								continue
							}
							nontrivial++
						} else {
							if err == nil || m != nil {
								r.rep("receive-accepted-"+map[bool]string{true: "short", false: "non-kernel"}[snd.ok], "Receive returned data (type %v) for a %d-byte datagram from sender %s; want an error and no message", m, n, snd.name)
								continue
							}
							if err2 == nil || msgs2 != nil || seen != nil {
								r.rep("receive-parser-reached", "the parser was run on a %d-byte datagram from sender %s", n, snd.name)
								continue
							}
							nontrivial++
						}
					}
				}
			}
		}
	}
	// the optional response writer (resp): nil / a buffer / a failing writer.  The verdict on
	// the datagram must not depend on it (except that a failing writer may add an error), and a
	// working writer receives exactly the bytes read for accepted datagrams.
	for _, n := range []int{0, 1, 15, 16, 17, 20, 36, 64} {
		for _, snd := range senders {
			for wi := 0; wi < 2; wi++ {
				content := make([]byte, n)
				for i := range content {
					content[i] = byte(i + 1)
				}
				s := &sockSim{}
				var w io.Writer
				buf := &bytes.Buffer{}
				if wi == 0 {
					w = buf
				} else {
					w = failWriter{}
				}
				nc, err := newClientW(s, 16+8970, w)
				if err != nil {
					r.run.Errorf("NewNetlinkClient: %v", err)
					return
				}
				ac := &libaudit.AuditClient{Netlink: nc}
				s.recvQ = append(s.recvQ, recvAnswer{b: content, from: snd.sa})
				m, err := ac.Receive(true)
				evals++
				accept := snd.ok && n >= 16
				switch {
				case wi == 1:
					if err == nil || m != nil {
						if accept {
							r.rep("receive-writer-error-lost", "Receive with a failing response writer returned data for a %d-byte kernel datagram", n)
						} else {
							r.rep("receive-accepted-with-writer", "Receive with a response writer returned data (type %v) for a %d-byte datagram from sender %s", m, n, snd.name)
						}
						continue
					}
				case accept:
					if err != nil || m == nil || !bytes.Equal(m.Data, content[16:]) || !bytes.Equal(buf.Bytes(), content) {
						r.rep("receive-with-writer", "Receive with a response writer: err=%v, writer got %d bytes for a %d-byte kernel datagram", err, buf.Len(), n)
						continue
					}
				default:
					if err == nil || m != nil {
						r.rep("receive-accepted-with-writer", "Receive with a response writer attached returned data (type %v) for a %d-byte datagram from sender %s; want an error and no message", m, n, snd.name)
						continue
					}
				}
				nontrivial++
			}
		}
	}
	// state carried between receives on ONE client: long then short, spoofed then genuine, error then data
	kern := &syscall.SockaddrNetlink{Family: syscall.AF_NETLINK, Pid: 0}
	user := &syscall.SockaddrNetlink{Family: syscall.AF_NETLINK, Pid: 77}
	mk := func(n int, fill byte) []byte {
		b := make([]byte, n)
		for i := range b {
			b[i] = fill + byte(i)
		}
		return b
	}
	type step struct {
		b    []byte
		from syscall.Sockaddr
		err  error
	}
	seqs := [][]step{
		{{mk(200, 1), kern, nil}, {mk(20, 9), kern, nil}, {mk(16, 3), kern, nil}},
		{{mk(64, 1), user, nil}, {mk(24, 5), kern, nil}},
		{{nil, nil, syscall.EAGAIN}, {mk(40, 7), kern, nil}, {nil, nil, syscall.EINTR}, {mk(17, 2), kern, nil}},
		{{mk(8, 1), kern, nil}, {mk(30, 4), kern, nil}, {mk(64, 6), user, nil}, {mk(30, 8), kern, nil}},
		{{mk(8986, 1), kern, nil}, {mk(16, 2), kern, nil}, {mk(8986, 3), kern, nil}},
	}
	for si, sq := range seqs {
		s := &sockSim{}
		nc, err := newClient(s, 16+8970)
		if err != nil {
			r.run.Errorf("NewNetlinkClient: %v", err)
			return
		}
		ac := &libaudit.AuditClient{Netlink: nc}
		for _, st := range sq {
			s.recvQ = append(s.recvQ, recvAnswer{b: st.b, from: st.from, err: st.err})
		}
		var prev *libaudit.RawAuditMessage
		for i, st := range sq {
			m, err := ac.Receive(true)
			evals++
			accept := st.err == nil && st.from == kern && len(st.b) >= 16
			if accept != (err == nil && m != nil) {
				r.rep("receive-sequence", "sequence %d step %d on one client: Receive = (%v, %v), want accept=%v", si, i, m, err, accept)
				continue
			}
			if accept && (uint16(m.Type) != binary.LittleEndian.Uint16(st.b[4:]) || !bytes.Equal(m.Data, st.b[16:])) {
				r.rep("receive-sequence-altered", "sequence %d step %d on one client: type %d / %d bytes, want type %d / %d bytes unchanged (stale data from an earlier receive?)", si, i, m.Type, len(m.Data), binary.LittleEndian.Uint16(st.b[4:]), len(st.b)-16)
				continue
			}
			_ = prev
			prev = m
			nontrivial++
		}
	}
	r.run.Sample("Receive(nonBlocking) of a 17-byte datagram from netlink pid 4242 => error 'message received was not from the kernel', no message, parser not run")
	return
}

// shortNetlink hands arbitrary buffers straight to the parser (the audit
// message parser's own length guard).
var parserRegion *guard.Region

type shortNetlink struct{ b []byte }

func (s *shortNetlink) Send(syscall.NetlinkMessage) (uint32, error) { return 0, nil }
func (s *shortNetlink) Close() error                                { return nil }
func (s *shortNetlink) Receive(nb bool, p libaudit.NetlinkParser) ([]syscall.NetlinkMessage, error) {
	return p(s.b)
}

var ptypes = []uint16{0, 1, 2, 3, 4, 5, 16, 999, 1000, 1001, 1013, 1100, 1300, 1320, 2000, 65535}

func checkParser(r reporter) (evals, nontrivial int64) {
	for n := 0; n <= 64; n++ {
		// header length words around the datagram length: the audit parser must ignore nlmsg_len
		lens := []int64{-1}
		for d := -9; d <= 9; d++ {
			if n+d >= 0 {
				lens = append(lens, int64(n+d))
			}
		}
		lens = append(lens, 0, 16, 17, 1<<31-1, 1<<31, 1<<32-1, int64(n)-16, int64(n)+16)
		npat := len(lens) + 1
		if npat < 2*len(ptypes) {
			npat = 2 * len(ptypes)
		}
		for pat := 0; pat < npat; pat++ {
			b := make([]byte, n, n) // cap == len: an over-read would fault or show up as foreign bytes
			for i := range b {
				b[i] = byte(i*3 + 1 + (pat%2)*0x80)
			}
			if pat < len(lens) && lens[pat] >= 0 && n >= 4 {
				binary.LittleEndian.PutUint32(b, uint32(lens[pat]))
			}
			if n >= 6 && pat < len(ptypes)*2 {
				// the netlink control types (NOOP, ERROR, DONE, OVERRUN) and audit types, with every payload length:
				// the parser splits header from payload, it does not interpret either
				binary.LittleEndian.PutUint16(b[4:], ptypes[pat/2])
			}
			// every third case: the buffer ends / starts on a page boundary next to an inaccessible page
			if parserRegion == nil {
				parserRegion, _ = guard.New(4096)
			}
			if parserRegion != nil {
				switch pat % 3 {
				case 1:
					b = parserRegion.AtEnd(b)
				case 2:
					b = parserRegion.AtStart(b)
				}
				debug.SetPanicOnFault(true)
			}
			ac := &libaudit.AuditClient{Netlink: &shortNetlink{b: b}}
			var m *libaudit.RawAuditMessage
			var err error
			func() {
				defer func() {
					if p := recover(); p != nil {
						err = fmt.Errorf("panic: %v", p)
						r.rep("parser-panic", "audit message parser panicked on a %d-byte buffer: %v", n, p)
					}
				}()
				m, err = ac.Receive(true)
			}()
			evals++
			if n < 16 {
				if err == nil || m != nil {
					r.rep("parser-short-accepted", "audit message parser accepted a %d-byte buffer", n)
				} else {
					nontrivial++
				}
				continue
			}
			if err != nil || m == nil {
				r.rep("parser-rejected", "audit message parser rejected a %d-byte buffer: %v", n, err)
				continue
			}
			if uint16(m.Type) != binary.LittleEndian.Uint16(b[4:]) || !bytes.Equal(m.Data, b[16:]) {
				r.rep("parser-split", "audit message parser returned type %d / %d data bytes for a %d-byte buffer; want type from bytes 4-5 and everything after byte 16", m.Type, len(m.Data), n)
				continue
			}
			nontrivial++
		}
	}
	return
}

// ---- concurrent Send under the scheduler ---------------------------------------------

type sendProg struct {
	Threads []int
	Fail    []uint32 // markers (thread*100+k) of the calls whose sendto is refused with ENOBUFS
}

type sendHarness struct {
	p     sendProg
	s     *sockSim
	c     *libaudit.NetlinkClient
	mu    sync.Mutex
	clk   int
	calls []*sendCall
}

type sendCall struct {
	thread      int
	invoke, ret int
	seq         uint32
	marker      uint32
	err         error
}

func newSendHarness(p sendProg) *sendHarness {
	h := &sendHarness{p: p, s: &sockSim{}}
	if len(p.Fail) > 0 {
		h.s.failMarkers = map[uint32]error{}
		for _, m := range p.Fail {
			h.s.failMarkers[m] = syscall.ENOBUFS
		}
	}
	c, err := newClient(h.s, 0)
	if err != nil {
		panic(err)
	}
	h.c = c
	return h
}

func (h *sendHarness) send(thread, k int) {
	marker := uint32(thread*100 + k)
	payload := make([]byte, 4)
	binary.LittleEndian.PutUint32(payload, marker)
	sched.Yield("call-Send")
	h.mu.Lock()
	h.clk++
	sc := &sendCall{thread: thread, invoke: h.clk, marker: marker}
	h.calls = append(h.calls, sc)
	h.mu.Unlock()
	seq, err := h.c.Send(syscall.NetlinkMessage{Header: syscall.NlMsghdr{Type: 1000, Flags: 5}, Data: payload})
	h.mu.Lock()
	h.clk++
	sc.ret, sc.seq, sc.err = h.clk, seq, err
	h.mu.Unlock()
}

func (h *sendHarness) Body(x *sched.Exec) {
	x.Prime = true
	for i, n := range h.p.Threads {
		i, n := i, n
		x.Go(fmt.Sprintf("t%d", i), func() {
			for k := 0; k < n; k++ {
				h.send(i, k)
			}
		})
	}
}

func (h *sendHarness) Finish(res *sched.Result) (string, []explore.Finding) {
	if res != nil && (res.Deadlock || res.Panic != nil) {
		return "aborted", nil
	}
	var f []explore.Finding
	seen := map[uint32]int{}
	byMarker := map[uint32]uint32{}
	for _, d := range h.s.sent {
		if len(d.b) == 20 {
			byMarker[binary.LittleEndian.Uint32(d.b[16:])] = binary.LittleEndian.Uint32(d.b[8:])
		}
	}
	var obs []string
	for _, c := range h.calls {
		seen[c.seq]++
		if c.err != nil {
			if h.s.failMarkers[c.marker] == nil {
				f = append(f, explore.Finding{Sig: "concurrent-send-error", What: fmt.Sprintf("Send returned %v", c.err)})
			}
		} else if w, ok := byMarker[c.marker]; !ok || w != c.seq {
			f = append(f, explore.Finding{Sig: "concurrent-send-seq-mismatch", What: fmt.Sprintf("Send returned %d but its own datagram carries %d", c.seq, w)})
		}
		obs = append(obs, fmt.Sprintf("t%d:%d", c.thread, c.seq))
	}
	for s, n := range seen {
		if n > 1 {
			f = append(f, explore.Finding{Sig: "concurrent-send-duplicate-seq", What: fmt.Sprintf("sequence %d returned by %d Send calls", s, n)})
		}
	}
	for _, a := range h.calls {
		for _, b := range h.calls {
			if a.ret < b.invoke && a.seq >= b.seq {
				f = append(f, explore.Finding{Sig: "concurrent-send-not-increasing", What: fmt.Sprintf("a Send that returned %d completed before a Send that returned %d was called", a.seq, b.seq)})
			}
		}
	}
	sort.Strings(obs)
	return strings.Join(obs, " "), f
}

func sendPrograms(tier string) []sendProg {
	ps := []sendProg{{Threads: []int{1, 1}}, {Threads: []int{2, 1}}, {Threads: []int{2, 2}}, {Threads: []int{1, 1, 1}}, {Threads: []int{2, 1, 1}},
		// some calls refused by sendto while others are in flight
		{Threads: []int{1, 1}, Fail: []uint32{0}}, {Threads: []int{2, 1}, Fail: []uint32{0}}, {Threads: []int{2, 1}, Fail: []uint32{1}}, {Threads: []int{2, 2}, Fail: []uint32{0, 101}},
		{Threads: []int{1, 1, 1}, Fail: []uint32{100}}, {Threads: []int{2, 1, 1}, Fail: []uint32{1, 200}}}
	if tier == "thorough" {
		ps = append(ps, sendProg{Threads: []int{2, 2, 2}}, sendProg{Threads: []int{3, 3}}, sendProg{Threads: []int{3, 2, 1}},
			sendProg{Threads: []int{2, 2, 2}, Fail: []uint32{0, 101}}, sendProg{Threads: []int{3, 3}, Fail: []uint32{1, 100}})
	}
	return ps
}

func raceMain() {
	var j struct {
		Reps int
		Tier string
	}
	_ = json.NewDecoder(os.Stdin).Decode(&j)
	var progress int64
	go func() {
		last, idle := int64(-1), 0
		for {
			time.Sleep(time.Second)
			now := atomic.LoadInt64(&progress)
			if now == last {
				idle++
			} else {
				idle = 0
			}
			last = now
			if idle >= 120 {
				fmt.Println("RACE-PASS-HANG")
				os.Exit(4)
			}
		}
	}()
	var it int64
	for rep := 0; rep < j.Reps; rep++ {
		for _, p := range sendPrograms("thorough") {
			h := newSendHarness(p)
			var wg sync.WaitGroup
			start := make(chan struct{})
			for i, n := range p.Threads {
				i, n := i, n
				wg.Add(1)
				go func() {
					defer wg.Done()
					<-start
					for k := 0; k < n; k++ {
						h.send(i, k)
					}
				}()
			}
			close(start)
			wg.Wait()
			if _, f := h.Finish(nil); len(f) > 0 {
				fmt.Printf("FREE-RUN-VIOLATION %s: %s\n", f[0].Sig, f[0].What)
			}
			it++
			atomic.AddInt64(&progress, 1)
		}
	}
	fmt.Printf("{\"iterations\":%d}\n", it)
}

// ---- conformance pass on real (harmless) netlink protocols ------------------------------

func conformance(r reporter) (string, int64) {
	vsys.Uninstall()
	defer vsys.Uninstall()
	// model: what the simulated layer records for these sends
	type m struct {
		typ     uint16
		payload []byte
	}
	var msgs []m
	for n := 0; n <= 48; n++ {
		p := make([]byte, n)
		for i := range p {
			p[i] = byte(i + 1)
		}
		msgs = append(msgs, m{0x7FF0, p})
	}
	c, err := libaudit.NewNetlinkClient(syscall.NETLINK_ROUTE, 0, make([]byte, 32768), nil)
	if err != nil {
		return "skipped: AF_NETLINK/NETLINK_ROUTE unavailable: " + err.Error(), 0
	}
	defer c.Close()
	var n int64
	for _, mm := range msgs {
		// what the model says goes on the wire
		s := &sockSim{}
		vsys.Install(s)
		mc, _ := libaudit.NewNetlinkClient(syscall.NETLINK_ROUTE, 0, nil, nil)
		_, _ = mc.Send(syscall.NetlinkMessage{Header: syscall.NlMsghdr{Type: mm.typ, Flags: syscall.NLM_F_REQUEST | syscall.NLM_F_ACK}, Data: mm.payload})
		vsys.Uninstall()
		model := s.sent[0].b
		seq, err := c.Send(syscall.NetlinkMessage{Header: syscall.NlMsghdr{Type: mm.typ, Flags: syscall.NLM_F_REQUEST | syscall.NLM_F_ACK}, Data: mm.payload})
		if err != nil {
			return fmt.Sprintf("skipped: send on NETLINK_ROUTE failed: %v", err), n
		}
		var raw []byte
		_, err = c.Receive(false, func(b []byte) ([]syscall.NetlinkMessage, error) {
			raw = append([]byte{}, b...)
			return []syscall.NetlinkMessage{{}}, nil
		})
		if err != nil {
			return fmt.Sprintf("skipped: receive on NETLINK_ROUTE failed: %v", err), n
		}
		n++
		// kernel's NLMSG_ERROR: hdr(16) errno(4) original message (header + payload)
		if len(raw) < 36 || binary.LittleEndian.Uint16(raw[4:]) != syscall.NLMSG_ERROR {
			r.rep("conformance-unexpected-reply", "NETLINK_ROUTE answered %d bytes of type %d to an unsupported request", len(raw), binary.LittleEndian.Uint16(raw[4:]))
			continue
		}
		echo := raw[20:]
		// the echoed header must equal the model header except pid/seq which are the real socket's
		want := append([]byte{}, model...)
		binary.LittleEndian.PutUint32(want[8:], seq)
		copy(want[12:16], echo[12:16]) // real port id
		realPid := binary.LittleEndian.Uint32(echo[12:16])
		if realPid == 0 {
			r.rep("conformance-pid", "kernel saw nlmsg_pid 0")
		}
		if len(echo) >= len(want) {
			echo = echo[:len(want)]
		}
		if !bytes.Equal(echo, want[:len(echo)]) || len(echo) < 16 {
			r.rep("conformance-echo-mismatch", "kernel echo % x differs from the modelled datagram % x (payload %d bytes)", echo, want, len(mm.payload))
		}
	}
	// spoofing: a user-space sender on NETLINK_USERSOCK
	cl, err := libaudit.NewNetlinkClient(syscall.NETLINK_USERSOCK, 1, make([]byte, 4096), nil)
	if err != nil {
		return fmt.Sprintf("route echo ok (%d messages); usersock skipped: %v", n, err), n
	}
	defer cl.Close()
	fd, err := syscall.Socket(syscall.AF_NETLINK, syscall.SOCK_RAW|syscall.SOCK_CLOEXEC, syscall.NETLINK_USERSOCK)
	if err != nil {
		return fmt.Sprintf("route echo ok (%d messages); usersock sender skipped: %v", n, err), n
	}
	defer syscall.Close(fd)
	if err := syscall.Bind(fd, &syscall.SockaddrNetlink{Family: syscall.AF_NETLINK}); err != nil {
		return fmt.Sprintf("route echo ok (%d); usersock bind skipped: %v", n, err), n
	}
	spoof := make([]byte, 16+8)
	binary.LittleEndian.PutUint32(spoof[0:], 24)
	binary.LittleEndian.PutUint16(spoof[4:], 1300)
	// ECONNREFUSED only reports that the unicast leg to (non-existent) kernel
	// port 0 failed; the multicast leg has been delivered by then.
	if err := syscall.Sendto(fd, spoof, 0, &syscall.SockaddrNetlink{Family: syscall.AF_NETLINK, Groups: 1}); err != nil && !errors.Is(err, syscall.ECONNREFUSED) {
		return fmt.Sprintf("route echo ok (%d); usersock multicast skipped: %v", n, err), n
	}
	time.Sleep(50 * time.Millisecond)
	ran := false
	msgsGot, err := cl.Receive(true, func(b []byte) ([]syscall.NetlinkMessage, error) {
		ran = true
		return []syscall.NetlinkMessage{{}}, nil
	})
	if errors.Is(err, syscall.EAGAIN) {
		return fmt.Sprintf("route echo ok (%d); usersock multicast not delivered (skipped)", n), n
	}
	n++
	if err == nil || msgsGot != nil || ran {
		r.rep("conformance-spoof-accepted", "a datagram multicast by a user-space netlink socket was accepted by Receive (err=%v)", err)
	}
	return fmt.Sprintf("route echo ok (%d messages) and user-space multicast rejected", n-1), n
}

func main() {
	if os.Getenv("VERIF_RACE") != "" {
		raceMain()
		return
	}
	prop := flag.String("prop", "C18", "property id")
	tier := flag.String("tier", "quick", "quick|thorough")
	replayF := flag.String("replay", "", "replay: re-runs the whole check (cases are cheap)")
	raceBin := flag.String("racebin", "", "-race build")
	flag.Parse()
	_ = replayF
	run := ev.Begin(*prop, *tier, "exploration")
	r := reporter{run}
	e1, n1 := checkSend(r, *tier)
	e2, n2 := checkReceive(r, *tier)
	e3, n3 := checkParser(r)
	e4, n4 := checkDescriptorsAndBuffers(r)
	e3, n3 = e3+e4, n3+n4
	r.afterlife()
	// concurrent Send
	var schedules int64
	for _, p := range sendPrograms(*tier) {
		p := p
		ex := &explore.Explorer{Bound: -1, MaxExec: 2_000_000, Horizon: 2000, NewHarness: func() explore.Harness { return newSendHarness(p) }}
		res := ex.Explore()
		schedules += res.Executions
		if !res.Exhausted {
			run.Set("send_schedule_tree_capped", true)
		}
		for _, n := range res.Nondeterminism {
			run.Errorf("nondeterminism: %s", n)
		}
		for _, f := range res.Findings {
			if strings.HasPrefix(f.Sig, "ERROR/") {
				run.Errorf("%s", f.What)
				continue
			}
			run.Report(ev.Violation{Sig: "C18 " + f.Sig, What: f.What + fmt.Sprintf(" | threads x sends %v schedule %v", p.Threads, f.Schedule), Replay: map[string]interface{}{"program": p, "schedule": f.Schedule}})
		}
		if len(res.Outcomes) < 2 {
			run.Errorf("vacuous: concurrent Send program %v produced %d outcomes", p.Threads, len(res.Outcomes))
		}
	}
	vsys.Uninstall()
	run.Set("concurrent_send_schedules", schedules)
	// race pass
	if run.NumSigs() == 0 && *raceBin != "" {
		reps := 300
		if *tier == "thorough" {
			reps = 3000
		}
		in, _ := json.Marshal(map[string]interface{}{"Reps": reps, "Tier": *tier})
		cmd := exec.Command(*raceBin)
		cmd.Env = append(os.Environ(), "VERIF_RACE=1", "GORACE=halt_on_error=0")
		cmd.Stdin = strings.NewReader(string(in))
		out, err := cmd.CombinedOutput()
		s := string(out)
		if i := strings.Index(s, "WARNING: DATA RACE"); i >= 0 {
			e := s[i:]
			if len(e) > 3000 {
				e = e[:3000]
			}
			run.Report(ev.Violation{Sig: "C18 data-race", What: "race detector report in the free-running concurrent Send pass:\n" + e, Replay: "free-running -race pass"})
		} else if i := strings.Index(s, "FREE-RUN-VIOLATION"); i >= 0 {
			run.Report(ev.Violation{Sig: "C18 free-run-" + strings.Fields(s[i:])[1], What: strings.SplitN(s[i:], "\n", 2)[0], Replay: "free-running pass"})
		} else if err != nil {
			run.Errorf("race pass failed: %v: %s", err, s)
		}
		var rr struct{ Iterations int64 }
		if i := strings.LastIndex(s, "{\"iterations\""); i >= 0 {
			_ = json.Unmarshal([]byte(strings.TrimSpace(s[i:])), &rr)
		}
		run.Set("race_pass_iterations_sampled", rr.Iterations)
	}
	if *tier == "thorough" || os.Getenv("VERIF_CONFORMANCE") != "" {
		msg, n := conformance(r)
		run.Set("conformance_pass", msg)
		run.Set("conformance_messages", n)
	} else {
		run.Set("conformance_pass", "not run in the quick tier")
	}
	run.Set("evaluations", e1+e2+e3+schedules)
	run.Set("distinct_nontrivial", n1+n2+n3)
	run.Set("rule", "Send: payload lengths x 6 (type,flags) pairs x header pid {0,given}, decoded at fixed nlmsghdr offsets; Receive: datagram lengths 0..64,100,1000,8985,8986 x 3 contents x 8 senders (kernel, kernel+groups, 3 user pids, inet, unix, nil) x blocking/non-blocking x preceding errno {none,EAGAIN,EINTR}; audit parser: every length 0..64 x 2 contents with cap==len; concurrent Send: every interleaving (scheduler points at the atomic add and at each call) of 2-3 threads x 1-3 sends. non-trivial = case whose independent expectation was checked field by field")
	run.Set("exhaustive", true)
	run.Assume("socket layer simulated behind the syscall seam (vsys); the conformance pass ties the modelled wire bytes to the real kernel's verbatim echo on NETLINK_ROUTE (thorough tier)")
	os.Exit(run.Finish())
}

// ---- after the caller has let go (C18: Close closes the socket - once) ---------------------------------------

//go:noinline
func useAndDrop(sim *sockSim, close bool, sends int) {
	c, err := newClient(sim, 0)
	if err != nil {
		return
	}
	for i := 0; i < sends; i++ {
		_, _ = c.Send(syscall.NetlinkMessage{Header: syscall.NlMsghdr{Type: 1000, Flags: 5}, Data: []byte{1, 2, 3, 4}})
	}
	_, _ = c.Receive(true, func(b []byte) ([]syscall.NetlinkMessage, error) { return nil, nil })
	if close {
		_ = c.Close()
	}
}

// afterlife: clients that were closed (and clients that were not) become unreachable, the garbage collector runs
// three rounds with a sentinel finalizer each: a closed client's descriptor is not closed again - the number may long
// belong to another file - and nothing is sent.
func (r reporter) afterlife() {
	type obs struct {
		sim           *sockSim
		closed, sends int
		wasClosed     bool
	}
	var all []obs
	for _, cl := range []bool{true, false} {
		for sends := 0; sends < 3; sends++ {
			for rep := 0; rep < 4; rep++ {
				sim := &sockSim{}
				useAndDrop(sim, cl, sends)
				all = append(all, obs{sim, len(sim.closed), len(sim.sent), cl})
			}
		}
	}
	vsys.Uninstall()
	for round := 0; round < 3; round++ {
		done := make(chan struct{})
		func() {
			s := new([64]byte)
			runtime.SetFinalizer(s, func(*[64]byte) { close(done) })
		}()
		deadline := time.After(time.Minute)
		for finished := false; !finished; {
			runtime.GC()
			select {
			case <-done:
				finished = true
			case <-deadline:
				r.run.Set("afterlife_pass", "skipped: the runtime did not run finalizers within a minute")
				return
			case <-time.After(5 * time.Millisecond):
			}
		}
	}
	for _, o := range all {
		if o.wasClosed && (len(o.sim.closed) != o.closed || len(o.sim.sent) != o.sends) {
			r.rep("activity-after-close-and-collection", "a NetlinkClient was closed by its owner (the socket layer had seen %d close, %d datagrams) and dropped; after garbage collections the socket layer has seen %d closes (%v) and %d datagrams", o.closed, o.sends, len(o.sim.closed), o.sim.closed, len(o.sim.sent))
			return
		}
		if !o.wasClosed && len(o.sim.sent) != o.sends {
			r.rep("activity-after-close-and-collection", "a NetlinkClient was dropped without Close; after garbage collections %d more datagrams were sent", len(o.sim.sent)-o.sends)
			return
		}
	}
	r.run.Set("afterlife_pass", fmt.Sprintf("%d clients used, closed or not, dropped; 3 collection rounds; socket-layer activity compared", len(all)))
}
