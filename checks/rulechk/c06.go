package main

import (
	"bytes"
	"fmt"
	"os"
	"path/filepath"
	"sort"
	"strconv"
	"strings"
	"syscall"

	"github.com/elastic/go-libaudit/v2/auparse"
	"github.com/elastic/go-libaudit/v2/rule"
	"github.com/elastic/go-libaudit/v2/rule/flags"

	"verif/engine/enumx"
	"verif/engine/ev"
	"verif/refdata"
)

// build runs flags.Parse + rule.Build; ok=false means the rule was rejected
// (which is always acceptable for C06/C07).
func build(line string) (rule.Rule, []byte, error) {
	r, err := flags.Parse(line)
	if err != nil {
		return nil, nil, err
	}
	w, err := rule.Build(r)
	if err != nil {
		return r, nil, err
	}
	return r, []byte(w), nil
}

var gdbSyscalls = refdata.SyscallsGDB()

// syscallNumber: the number a name stands for in an ABI.  Where gdb's transcription of the
// kernel's syscall.tbl knows the name (and spells the row like the library: refdata), that number
// is the expectation; only for the remaining rows is the library's own table consulted.
func syscallNumber(arch, tok string) (int64, bool) {
	if n, err := strconv.ParseInt(tok, 10, 64); err == nil {
		return n, true
	}
	for nr, name := range gdbSyscalls[arch] {
		if name == tok {
			return int64(nr), true
		}
	}
	for nr, name := range auparse.AuditSyscalls[arch] {
		if name == tok {
			return int64(nr), true
		}
	}
	return 0, false
}

type built struct {
	line        string
	live, clone []byte
}

var builtRing [8]*built
var builtPos int

// checkEncoding is the C06 oracle for one structurally known rule.
func checkEncoding(c *enumx.Ctx, s spec) {
	line := s.line()
	c.Begin(func() string { return line })
	c.Try("C06", func() {
		_, wb, err := build(line)
		if err != nil {
			c.Count("rejected", 1)
			return
		}
		// wire data handed out earlier must not change when other rules are built later
		if old := builtRing[builtPos]; old != nil && !bytes.Equal(old.live, old.clone) {
			c.Report("C06 earlier-wire-data-changed", fmt.Sprintf("the bytes Build returned for %q changed after %d later Build calls (last: %q)", old.line, len(builtRing), line), nil)
		}
		builtRing[builtPos] = &built{line: line, live: wb, clone: append([]byte{}, wb...)}
		builtPos = (builtPos + 1) % len(builtRing)
		w, derr := decodeWire(wb)
		if derr != nil {
			c.Report("C06 short-wire", fmt.Sprintf("%q: %v", line, derr), nil)
			return
		}
		bad := func(sig, format string, a ...interface{}) {
			c.Report("C06 "+sig, fmt.Sprintf("%q: ", line)+fmt.Sprintf(format, a...), nil)
		}
		ok := true
		wantFlags := uapi(listDefine[s.List])
		if s.Prepend {
			wantFlags |= uapi("AUDIT_FILTER_PREPEND")
		}
		if w.Flags != wantFlags {
			sig := "list-code:" + s.List
			if s.Prepend && w.Flags == uapi(listDefine[s.List]) {
				sig = "prepend-bit-missing"
			}
			bad(sig, "flags word = %#x, want %#x (%s%s)", w.Flags, wantFlags, listDefine[s.List], map[bool]string{true: "|AUDIT_FILTER_PREPEND", false: ""}[s.Prepend])
			ok = false
		}
		if w.Action != uapi(actionDefine[s.Action]) {
			bad("action-code:"+s.Action, "action word = %d, want %d", w.Action, uapi(actionDefine[s.Action]))
			ok = false
		}
		// fields in the order given, then the joined keys
		type trip struct {
			field, op uint32
			val       uint32
			hasVal    bool
			str       *string
			name      string
			fname     string
		}
		var want []trip
		arch := "x86_64"
		for _, f := range s.Filters {
			if f.C {
				def, okc := compareDefine(f.L, f.R)
				if !okc {
					bad("comparison-accepted:"+f.L+","+f.R, "inter-field comparison of %s and %s is not defined by the kernel but was accepted", f.L, f.R)
					return
				}
				want = append(want, trip{uapi("AUDIT_FIELD_COMPARE"), uapi(opDefine[f.Op]), uapi(def), true, nil, "-C " + f.L + f.Op + f.R, "-C"})
				continue
			}
			def, known := fieldDefine[f.L]
			if !known {
				bad("unknown-field-accepted:"+f.L, "field %q is not a kernel field but was accepted", f.L)
				return
			}
			t := trip{field: uapi(def), op: uapi(opDefine[f.Op]), name: "-F " + f.L + f.Op + f.R, fname: f.L}
			if stringFields[f.L] {
				r := f.R
				t.str = &r
				t.val, t.hasVal = uint32(len(r)), true
			} else {
				t.val, t.hasVal = expectedValue(f.L, f.R)
				if !t.hasVal {
					c.Count("value_without_reference_opinion", 1)
				}
			}
			if f.L == "arch" {
				switch f.R {
				case "b32", "i386":
					arch = "i386"
				case "b64", "x86_64":
					arch = "x86_64"
				default:
					arch = f.R
				}
			}
			want = append(want, t)
		}
		if len(s.Keys) > 0 {
			// a -k argument is a comma separated list (as -S is): "a,b" are two keys
			var flat []string
			for _, k := range s.Keys {
				flat = append(flat, strings.Split(k, ",")...)
			}
			k := strings.Join(flat, "\x01")
			want = append(want, trip{uapi("AUDIT_FILTERKEY"), uapi("AUDIT_EQUAL"), uint32(len(k)), true, &k, "keys", "keys"})
		}
		if int(w.FieldCount) != len(want) {
			bad("field-count", "field_count = %d, want %d (one per filter in the order given + joined keys)", w.FieldCount, len(want))
			return
		}
		var wantBuf []byte
		for i, t := range want {
			if w.Fields[i] != t.field {
				bad("field-code:"+t.fname, "field[%d] = %d, want %d for %s", i, w.Fields[i], t.field, t.name)
				ok = false
			}
			if w.FFlags[i] != t.op {
				bad("operator-code", "fieldflags[%d] = %#x, want %#x for %s", i, w.FFlags[i], t.op, t.name)
				ok = false
			}
			if t.hasVal && w.Values[i] != t.val {
				bad("value:"+t.fname, "values[%d] = %d (%#x), want %d (%#x) for %s", i, w.Values[i], w.Values[i], t.val, t.val, t.name)
				ok = false
			}
			if t.str != nil {
				wantBuf = append(wantBuf, []byte(*t.str)...)
			}
		}
		for i := len(want); i < 64; i++ {
			if w.Fields[i] != 0 || w.Values[i] != 0 || w.FFlags[i] != 0 {
				bad("unused-slot-nonzero", "slot %d beyond field_count is not zero", i)
				ok = false
				break
			}
		}
		if int(w.BufLen) != len(wantBuf) {
			bad("buflen", "buflen = %d, want %d (sum of the string lengths)", w.BufLen, len(wantBuf))
			ok = false
		} else if !bytes.Equal(w.Buf[:len(wantBuf)], wantBuf) {
			bad("buffer-layout", "string buffer % x, want the values back-to-back in field order % x", w.Buf[:len(wantBuf)], wantBuf)
			ok = false
		}
		wantLen := hdrSize + len(wantBuf)
		wantLen += (4 - wantLen%4) % 4
		if w.Len != wantLen {
			bad("total-length", "wire length %d, want %d (header + buflen padded to 4)", w.Len, wantLen)
			ok = false
		} else {
			for _, p := range wb[hdrSize+len(wantBuf):] {
				if p != 0 {
					bad("padding-nonzero", "padding bytes are not zero")
					ok = false
					break
				}
			}
		}
		// syscall mask
		all := len(s.Syscalls) == 0
		var wantMask [64]uint32
		for _, arg := range s.Syscalls {
			for _, tok := range strings.Split(arg, ",") {
				tok = strings.TrimSpace(tok)
				if tok == "all" {
					all = true
					continue
				}
				n, found := syscallNumber(arch, tok)
				if !found {
					bad("unknown-syscall-accepted", "syscall %q is not in the %s table but was accepted", tok, arch)
					return
				}
				if n < 0 || n >= 2048 {
					bad("syscall-out-of-range-accepted", "syscall number %d cannot be represented in the 64x32-bit mask but the rule was accepted", n)
					return
				}
				wantMask[n/32] |= 1 << uint(n%32)
			}
		}
		if all {
			for i := 0; i < 63; i++ {
				if w.Mask[i] != 0xFFFFFFFF {
					bad("mask-all", "all-syscalls rule: mask[%d] = %#x", i, w.Mask[i])
					ok = false
					break
				}
			}
			if w.Mask[63] != 0xFFFFFFFF && w.Mask[63] != 0x0000FFFF {
				bad("mask-all", "all-syscalls rule: mask[63] = %#x", w.Mask[63])
				ok = false
			}
		} else if w.Mask != wantMask {
			bad("mask-bits", "syscall mask differs from the requested bits: got words %v want %v", nonzero(w.Mask), nonzero(wantMask))
			ok = false
		}
		if ok {
			c.Nontrivial()
		}
	})
}

func min(a, b int) int {
	if a < b {
		return a
	}
	return b
}

func nonzero(m [64]uint32) map[int]string {
	o := map[int]string{}
	for i, v := range m {
		if v != 0 {
			o[i] = fmt.Sprintf("%#x", v)
		}
	}
	return o
}

// ---- value menus -----------------------------------------------------------------------

func valuesFor(field string) []string {
	switch {
	case stringFields[field]:
		base := []string{"x", "/etc/passwd", "/tmp/a=b", "system_u", "s0-s0:c0.c1023", strings.Repeat("k", 255), strings.Repeat("k", 256), strings.Repeat("k", 257), "/" + strings.Repeat("p", 4094), "/" + strings.Repeat("p", 4095), "/" + strings.Repeat("p", 4096), "a,b", "ü"}
		return base
	case uidFields[field]:
		return []string{"0", "1", "1000", "2147483647", "2147483648", "3000000000", "4294967294", "4294967295", "4294967296", "-1", "unset", "root", "-2", "0x10"}
	case gidFields[field]:
		return []string{"0", "1", "1000", "2147483647", "2147483648", "4294967295", "4294967296", "-1", "root"}
	case field == "exit":
		return []string{"0", "1", "-1", "-13", "-EPERM", "EPERM", "-EACCES", "-ENOENT", "2147483647", "-2147483648", "2147483648", "-EWOULDBLOCK", "-EDEADLOCK", "-ENOSUCH", "0x10"}
	case field == "msgtype":
		return []string{"0", "1100", "1300", "65535", "65536", "70000", "4294967295", "USER_LOGIN", "SYSCALL", "AVC", "USER_CMD", "0x514"}
	case field == "arch":
		return []string{"b64", "b32", "x86_64", "i386", "aarch64", "arm", "ppc64", "s390x", "mips", "B64"}
	case field == "perm":
		return []string{"r", "w", "x", "a", "rw", "wa", "rwxa", "axwr", "rr", "q", ""}
	case field == "filetype":
		return []string{"file", "dir", "socket", "symlink", "char", "block", "fifo", "FILE", "bogus", "32768"}
	case field == "saddr_fam":
		return []string{"2", "10", "0", "1", "16", "0x2", "0xa"}
	default:
		return []string{"0", "1", "7", "255", "65536", "2147483647", "2147483648", "4294967295", "4294967296", "-1", "-2147483648", "-2147483649", "0x10", "0xffffffff", "010", "abc"}
	}
}

func listFor(field string) string {
	if field == "msgtype" {
		return "user"
	}
	return "exit"
}

var allFields = func() []string {
	var f []string
	for k := range fieldDefine {
		f = append(f, k)
	}
	sort.Strings(f)
	return f
}()

// forRuleSpecs enumerates the C06/C07 rule domain.
func forRuleSpecs(c *enumx.Ctx, visit func(c *enumx.Ctx, s spec)) {
	lists := []string{"exit", "task", "user", "exclude"}
	actions := []string{"always", "never"}
	// (a) every list x action x -a/-A alone and with one key
	for _, l := range lists {
		for _, a := range actions {
			for _, pre := range []bool{false, true} {
				for nk := 0; nk <= 3; nk++ {
					if !c.Mine() {
						continue
					}
					var keys []string
					for i := 0; i < nk; i++ {
						keys = append(keys, fmt.Sprintf("key%d", i))
					}
					visit(c, spec{Prepend: pre, List: l, Action: a, Keys: keys})
				}
			}
		}
	}
	// (b) every field x every operator x values, on each list
	for _, f := range allFields {
		if f == "key" {
			continue
		}
		for _, op := range allOps {
			for _, v := range valuesFor(f) {
				for _, l := range lists {
					if c.Tier != "thorough" && l != listFor(f) && l != "exclude" {
						continue
					}
					if !c.Mine() {
						continue
					}
					visit(c, spec{List: l, Action: "always", Filters: []filt{{false, f, op, v}}})
				}
			}
		}
	}
	// (b3) every field x every list TOGETHER WITH an explicit syscall list: the mask is exactly the requested bits
	// whatever filter accompanies it (also on the lists whose rules the kernel matches without looking at the mask)
	for _, f := range allFields {
		if f == "key" {
			continue
		}
		vals := valuesFor(f)
		if len(vals) > 3 {
			vals = vals[:3]
		}
		for _, v := range vals {
			for _, l := range lists {
				for _, sc := range [][]string{{"open"}, {"37", "200"}, {"read", "write", "2047"}} {
					if !c.Mine() {
						continue
					}
					visit(c, spec{List: l, Action: "always", Filters: []filt{{false, f, "=", v}}, Syscalls: sc})
				}
			}
		}
	}
	// every small integer (tables keyed by small numbers: errno names, message types, file
	// types, arches) for one representative of each numeric field class
	for _, f := range []string{"exit", "msgtype", "a0", "pid", "inode", "success", "devmajor", "filetype", "pers", "saddr_fam", "auid", "gid"} {
		hi := 1100
		if f == "msgtype" || f == "exit" {
			hi = 4200
		}
		if c.Tier != "thorough" && hi > 1100 {
			hi = 2200
		}
		for v := 0; v <= hi; v++ {
			for _, neg := range []bool{false, true} {
				if neg && f != "exit" && f != "a0" {
					continue
				}
				if !c.Mine() {
					continue
				}
				val := strconv.Itoa(v)
				if neg {
					val = "-" + val
				}
				visit(c, spec{List: listFor(f), Action: "always", Filters: []filt{{false, f, "=", val}}})
			}
		}
	}
	// -F key=... as a filter (single key through the filter path)
	for _, v := range []string{"k", "a,b", strings.Repeat("k", 256), strings.Repeat("k", 257)} {
		if !c.Mine() {
			continue
		}
		visit(c, spec{List: "exit", Action: "always", Filters: []filt{{false, "key", "=", v}}})
	}
	// (b2) every inter-field comparison pair x {=, !=, <}
	for _, a := range interFields {
		for _, b := range interFields {
			for _, op := range []string{"=", "!=", "<"} {
				if !c.Mine() {
					continue
				}
				visit(c, spec{List: "exit", Action: "always", Filters: []filt{{true, a, op, b}}})
			}
		}
	}
	// (c) ordered pairs (and triples in thorough) from a filter subset: order and buffer offsets
	sub := []filt{{false, "path", "=", "/etc/passwd"}, {false, "dir", "=", "/var/log"}, {false, "perm", "=", "wa"}, {false, "auid", ">=", "1000"}, {false, "auid", "!=", "unset"},
		{false, "exe", "=", "/usr/bin/su"}, {false, "subj_type", "=", "sshd_t"}, {false, "obj_lev_low", "=", "s0"}, {false, "obj_lev_high", "=", "s15:c0.c1023"}, {false, "a0", "&", "0x3"}, {true, "uid", "!=", "euid"},
		{false, "arch", "=", "b64"}, {false, "success", "=", "0"}, {false, "exit", "=", "-EACCES"}, {false, "filetype", "=", "dir"}, {false, "key", "=", "kk"}}
	for _, a := range sub {
		for _, b := range sub {
			for _, nk := range []int{0, 2} {
				if !c.Mine() {
					continue
				}
				var keys []string
				for i := 0; i < nk; i++ {
					keys = append(keys, fmt.Sprintf("k%d", i))
				}
				visit(c, spec{List: "exit", Action: "always", Filters: []filt{a, b}, Syscalls: []string{"open"}, Keys: keys})
			}
		}
	}
	if c.Tier == "thorough" {
		for _, a := range sub {
			for _, b := range sub {
				for _, d := range sub {
					if !c.Mine() {
						continue
					}
					visit(c, spec{List: "exit", Action: "always", Filters: []filt{a, b, d}})
				}
			}
		}
	}
	// (d) field counts 0..66 (with and without keys)
	for n := 0; n <= 66; n++ {
		for _, nk := range []int{0, 1, 3} {
			if !c.Mine() {
				continue
			}
			var fs []filt
			for i := 0; i < n; i++ {
				switch i % 3 {
				case 0:
					fs = append(fs, filt{false, "a0", "=", strconv.Itoa(i)})
				case 1:
					fs = append(fs, filt{false, "exe", "=", fmt.Sprintf("/bin/x%d", i)})
				default:
					fs = append(fs, filt{false, "auid", "!=", strconv.Itoa(1000 + i)})
				}
			}
			var keys []string
			for i := 0; i < nk; i++ {
				keys = append(keys, fmt.Sprintf("k%d", i))
			}
			visit(c, spec{List: "exit", Action: "always", Filters: fs, Keys: keys})
		}
	}
	// (e) syscalls by number: every single number 0..2100 and extremes, with b64 and b32 and without arch
	extremes := []string{"-1", "-2", "2147483647", "2147483648", "4294967295", "4294967296", "4294967297", "9223372036854775807", "9223372036854775808", "18446744073709551616"}
	for _, archF := range [][]filt{nil, {{false, "arch", "=", "b64"}}, {{false, "arch", "=", "b32"}}} {
		for n := 0; n <= 2100; n++ {
			if c.Tier != "thorough" && archF != nil && n%7 != 0 && n < 2040 {
				continue
			}
			if !c.Mine() {
				continue
			}
			visit(c, spec{List: "exit", Action: "always", Filters: archF, Syscalls: []string{strconv.Itoa(n)}})
		}
		for _, e := range extremes {
			if !c.Mine() {
				continue
			}
			visit(c, spec{List: "exit", Action: "always", Filters: archF, Syscalls: []string{e}})
		}
	}
	// all pairs from a number set (comma form and repeated -S form)
	nums := []string{"0", "1", "31", "32", "33", "63", "64", "1023", "2047", "59"}
	for _, a := range nums {
		for _, b := range nums {
			if !c.Mine() {
				continue
			}
			visit(c, spec{List: "exit", Action: "always", Syscalls: []string{a + "," + b}})
			visit(c, spec{List: "exit", Action: "never", Syscalls: []string{a, b}, Keys: []string{"k"}})
		}
	}
	// by name: every name of the published x86_64 and i386 tables, and other arches
	for _, ar := range []struct{ flag, table string }{{"b64", "x86_64"}, {"b32", "i386"}, {"", "x86_64"}, {"aarch64", "aarch64"}, {"arm", "arm"}, {"ppc", "ppc"}, {"s390", "s390"}, {"s390x", "s390x"}} {
		var names []string
		for _, n := range auparse.AuditSyscalls[ar.table] {
			names = append(names, n)
		}
		sort.Strings(names)
		for _, archOp := range []string{"=", "!="} {
			if ar.flag == "" && archOp == "!=" {
				continue
			}
			for i, n := range names {
				if c.Tier != "thorough" && archOp == "!=" && i%10 != 0 {
					continue
				}
				if !c.Mine() {
					continue
				}
				var fs []filt
				if ar.flag != "" {
					fs = []filt{{false, "arch", archOp, ar.flag}}
				}
				visit(c, spec{List: "exit", Action: "always", Filters: fs, Syscalls: []string{n}})
				// the arch filter together with other fields and keys, and two names at once
				if i%10 == 0 && ar.flag != "" {
					visit(c, spec{List: "exit", Action: "never", Filters: append(append([]filt{}, fs...), filt{false, "auid", ">=", "1000"}), Syscalls: []string{n + "," + names[(i+7)%len(names)]}, Keys: []string{"k"}})
				}
			}
		}
	}
	// prepend (-A) with filters, syscalls and keys
	for _, fsel := range [][]filt{nil, {{false, "arch", "=", "b64"}}, {{false, "path", "=", "/etc/passwd"}, {false, "perm", "=", "wa"}}, {{false, "auid", "!=", "unset"}, {false, "exe", "=", "/bin/su"}}} {
		for _, sc := range [][]string{nil, {"open"}, {"all"}} {
			for _, l := range lists {
				for _, a := range actions {
					if !c.Mine() {
						continue
					}
					visit(c, spec{Prepend: true, List: l, Action: a, Filters: fsel, Syscalls: sc, Keys: []string{"pk"}})
				}
			}
		}
	}
	for _, sc := range []string{"all", "open,close", "open,all", "nosuchsyscall", ""} {
		if !c.Mine() {
			continue
		}
		visit(c, spec{List: "exit", Action: "always", Syscalls: []string{sc}})
	}
	// (o) the word "all" at every position among specific syscalls, in one comma list and as separate -S options,
	// once and twice: "all" asks for every syscall wherever it stands
	for _, ws := range [][]string{{"all", "open"}, {"open", "all"}, {"all", "5"}, {"5", "all"}, {"all", "open", "close"}, {"open", "all", "close"}, {"open", "close", "all"}, {"all", "all"}, {"all", "5", "all"}, {"5", "all", "7"}, {"59", "all"}, {"all", "2047"}} {
		for _, archF := range [][]filt{nil, {{false, "arch", "=", "b64"}}, {{false, "arch", "=", "b32"}}} {
			if !c.Mine() {
				continue
			}
			visit(c, spec{List: "exit", Action: "always", Filters: archF, Syscalls: []string{strings.Join(ws, ",")}})
			visit(c, spec{List: "exit", Action: "never", Filters: archF, Syscalls: ws, Keys: []string{"k"}})
		}
	}
	// (k) string filters whose value names something that EXISTS on this machine (a directory, a file, a
	// device, a link): the field code is the one of the NAME used (path -> AUDIT_WATCH, dir -> AUDIT_DIR, exe ...),
	// whatever is on disk
	for _, fld := range []string{"path", "dir", "exe"} {
		for _, v := range []string{"/etc", "/etc/passwd", "/tmp", "/", "/dev/null", "/proc/self", "/bin", "/usr/bin/env", "/nonexistent/x"} {
			for _, op := range []string{"=", "!="} {
				if !c.Mine() {
					continue
				}
				visit(c, spec{List: "exit", Action: "always", Filters: []filt{{false, fld, op, v}}, Syscalls: []string{"open"}, Keys: []string{"k"}})
				visit(c, spec{List: "exit", Action: "always", Filters: []filt{{false, "uid", "=", "0"}, {false, fld, op, v}}})
			}
		}
	}
	// (l) syscall SETS with a shape: whole mask words (0..31, 32..63, 0..63, 0..95), whole words minus one bit,
	// a full first word plus one more, every second syscall - by number, in one -S list
	rng := func(a, b int, skip int) string {
		var p []string
		for i := a; i <= b; i++ {
			if i != skip {
				p = append(p, strconv.Itoa(i))
			}
		}
		return strings.Join(p, ",")
	}
	for _, set := range []string{rng(0, 31, -1), rng(32, 63, -1), rng(0, 63, -1), rng(0, 95, -1), rng(0, 31, 7), rng(0, 31, 31), rng(0, 31, 0), rng(0, 31, -1) + ",59", rng(0, 30, -1), rng(1, 32, -1), rng(0, 32, -1), rng(64, 127, -1), rng(0, 31, -1) + "," + rng(64, 95, -1), rng(2016, 2047, -1), rng(0, 255, -1)} {
		for _, archF := range [][]filt{nil, {{false, "arch", "=", "b64"}}} {
			if !c.Mine() {
				continue
			}
			visit(c, spec{List: "exit", Action: "always", Filters: archF, Syscalls: []string{set}, Keys: []string{"k"}})
		}
	}
	// (m) several keys of which one is empty, holds a comma, starts with a dash, repeats
	for _, ks := range [][]string{{"a", ""}, {"", "a"}, {"", ""}, {"a", "b,c"}, {"a,b", "c"}, {"-x", "a"}, {"a", "-k"}, {"a", "a"}, {"a", "", "b"}, {"a", "b", "c", "d"}} {
		for _, fs := range [][]filt{nil, {{false, "uid", "=", "0"}}} {
			if !c.Mine() {
				continue
			}
			visit(c, spec{List: "exit", Action: "always", Filters: fs, Syscalls: []string{"open"}, Keys: ks})
			visit(c, spec{List: "task", Action: "never", Filters: fs, Keys: ks})
		}
	}
	// (h) the same text in two places: key filters and -k keys over {a, b} in every arrangement - a rule
	// whose last filter is -F key=a and whose -k key is a, too, still carries both triples
	base := []filt{{false, "key", "=", "a"}, {false, "key", "=", "b"}, {false, "uid", "=", "0"}, {false, "key", "!=", "a"}}
	var arrangements [][]filt
	for _, x := range base {
		arrangements = append(arrangements, []filt{x})
		for _, y := range base {
			arrangements = append(arrangements, []filt{x, y})
			for _, z := range base {
				arrangements = append(arrangements, []filt{x, y, z})
			}
		}
	}
	for _, fs := range arrangements {
		for _, ks := range [][]string{nil, {"a"}, {"b"}, {"a", "b"}, {"a", "a"}, {"b", "a"}} {
			if !c.Mine() {
				continue
			}
			visit(c, spec{List: "exit", Action: "always", Filters: fs, Syscalls: []string{"open"}, Keys: ks})
		}
	}
	// (n) string-valued and numeric filters interleaved, the key filter at every position, with and without -k keys:
	// every ordered selection of <=4 out of six filters - the position of a filter among ALL filters and among the
	// string-valued ones differ as soon as a numeric filter comes first
	mix := []filt{{false, "uid", "=", "0"}, {false, "path", "=", "/etc/x"}, {false, "a0", "=", "1"}, {false, "exe", "=", "/bin/b"}, {false, "key", "=", "a"}, {true, "uid", "!=", "euid"}}
	var sel func(cur []filt, used int)
	sel = func(cur []filt, used int) {
		if len(cur) > 0 {
			for _, ks := range [][]string{nil, {"b"}, {"b", "c"}} {
				if !c.Mine() {
					continue
				}
				visit(c, spec{List: "exit", Action: "always", Filters: append([]filt{}, cur...), Syscalls: []string{"open"}, Keys: ks})
			}
		}
		if len(cur) == 4 {
			return
		}
		for i, f := range mix {
			if used&(1<<i) == 0 {
				sel(append(cur, f), used|1<<i)
			}
		}
	}
	sel(nil, 0)
	// (i) the same field twice with different (and with equal) values, for every field class
	twice := [][3]string{{"uid", "0", "1000"}, {"auid", "1000", "unset"}, {"gid", "0", "5"}, {"pid", "1", "2"}, {"a0", "0x1", "0x2"}, {"exit", "0", "-EPERM"}, {"success", "0", "1"}, {"msgtype", "SYSCALL", "1302"},
		{"perm", "r", "wa"}, {"perm", "x", "rwxa"}, {"filetype", "dir", "file"}, {"exe", "/bin/a", "/bin/b"}, {"subj_user", "u1", "u2"}, {"obj_type", "t1", "t2"}, {"arch", "b64", "b32"}, {"devmajor", "8", "9"}, {"inode", "1", "2"}, {"sessionid", "1", "2"}}
	for _, t := range twice {
		for _, vv := range [][2]string{{t[1], t[2]}, {t[2], t[1]}, {t[1], t[1]}} {
			for _, mid := range [][]filt{nil, {{false, "dir", "=", "/etc"}}, {{false, "ppid", "=", "1"}}} {
				if !c.Mine() {
					continue
				}
				fs := append([]filt{{false, t[0], "=", vv[0]}}, mid...)
				fs = append(fs, filt{false, t[0], "=", vv[1]})
				visit(c, spec{List: "exit", Action: "always", Filters: fs, Syscalls: []string{"all"}, Keys: []string{"k"}})
				visit(c, spec{List: "exit", Action: "never", Filters: append(append([]filt{}, mid...), fs[0], fs[len(fs)-1]), Keys: nil})
			}
		}
	}
	// (j) EVERY architecture name the tree knows x syscalls by number 0..600 (step 1 around every table's end,
	// else 7) and a handful by name: ABIs without a table cannot resolve names, ABIs with one use THEIR numbers
	var archNames []string
	for _, n := range auparse.AuditArchNames {
		archNames = append(archNames, n)
	}
	sort.Strings(archNames)
	for _, a := range archNames {
		for nr := 0; nr <= 600; nr++ {
			if c.Tier != "thorough" && nr%7 != 0 && !(nr >= 330 && nr <= 470) {
				continue
			}
			if !c.Mine() {
				continue
			}
			visit(c, spec{List: "exit", Action: "always", Filters: []filt{{false, "arch", "=", a}}, Syscalls: []string{strconv.Itoa(nr)}})
		}
		for _, n := range []string{"open", "openat", "read", "write", "close", "execve", "connect", "getrlimit", "mmap", "exit", "memfd_secret", "openat2"} {
			if !c.Mine() {
				continue
			}
			visit(c, spec{List: "exit", Action: "always", Filters: []filt{{false, "arch", "=", a}}, Syscalls: []string{n}, Keys: []string{"k"}})
		}
	}
}

// ---- file watches -------------------------------------------------------------------------

type watchSpec struct {
	Path  string
	Perms string
	Keys  []string
	Kind  string // file | dir | missing
}

func (w watchSpec) line() string {
	p := []string{"-w", shq(w.Path)}
	if w.Perms != "" {
		p = append(p, "-p", w.Perms)
	}
	for _, k := range w.Keys {
		p = append(p, "-k", shq(k))
	}
	return strings.Join(p, " ")
}

func scratch() (dir string, cleanup func()) {
	dir = filepath.Join(ev.Root(), ".work", fmt.Sprintf("watch-%d", os.Getpid()))
	_ = os.MkdirAll(filepath.Join(dir, "d"), 0o755)
	_ = os.WriteFile(filepath.Join(dir, "f"), []byte("x"), 0o644)
	// what is on disk decides dir vs path (stat(2) follows links, as auditctl does)
	_ = os.Symlink(filepath.Join(dir, "d"), filepath.Join(dir, "ld")) // link to a directory
	_ = os.Symlink(filepath.Join(dir, "f"), filepath.Join(dir, "lf")) // link to a file
	_ = os.Symlink(filepath.Join(dir, "nope"), filepath.Join(dir, "ldangling"))
	_ = os.Symlink(filepath.Join(dir, "lloop"), filepath.Join(dir, "lloop"))        // ELOOP
	_ = os.Symlink(filepath.Join(dir, "f", "below"), filepath.Join(dir, "lnotdir")) // ENOTDIR
	_ = os.Symlink("ld", filepath.Join(dir, "lld"))                                 // link to a link to a directory
	// special files: a named pipe nobody writes to (a blocking open(2) of it never returns), a unix socket
	_ = syscall.Mkfifo(filepath.Join(dir, "fifo"), 0o644)
	_ = os.Symlink("fifo", filepath.Join(dir, "lfifo"))
	if fd, err := syscall.Socket(syscall.AF_UNIX, syscall.SOCK_STREAM, 0); err == nil {
		_ = syscall.Bind(fd, &syscall.SockaddrUnix{Name: filepath.Join(dir, "sock")})
		_ = syscall.Close(fd)
	}
	return dir, func() { _ = os.RemoveAll(dir) }
}

var watchKinds = map[string]string{"file": "f", "dir": "d", "missing": "nope", "link-to-dir": "ld", "link-to-file": "lf", "dangling-link": "ldangling", "link-loop": "lloop", "link-below-file": "lnotdir", "link-to-link-to-dir": "lld", "fifo": "fifo", "link-to-fifo": "lfifo", "socket": "sock"}

func watchIsDir(kind string) bool {
	return kind == "dir" || kind == "link-to-dir" || kind == "link-to-link-to-dir"
}

func forWatchSpecs(c *enumx.Ctx, dir string, visit func(c *enumx.Ctx, w watchSpec)) {
	perms := []string{""}
	letters := "rwxa"
	for m := 1; m < 16; m++ {
		s := ""
		for i := 0; i < 4; i++ {
			if m&(1<<i) != 0 {
				s += string(letters[i])
			}
		}
		perms = append(perms, s)
	}
	perms = append(perms, "ar", "xwr", "rr")
	var kinds []string
	for k := range watchKinds {
		kinds = append(kinds, k)
	}
	sort.Strings(kinds)
	for _, kind := range kinds {
		path := filepath.Join(dir, watchKinds[kind])
		for _, p := range perms {
			for nk := 0; nk <= 2; nk++ {
				if !c.Mine() {
					continue
				}
				var keys []string
				for i := 0; i < nk; i++ {
					keys = append(keys, fmt.Sprintf("wk%d", i))
				}
				visit(c, watchSpec{Path: path, Perms: p, Keys: keys, Kind: kind})
			}
		}
	}
}

// forUncleanWatchSpecs: spellings of a watch path that are not in clean form - "..", ".", doubled and trailing slashes -
// whose ".." follows a regular file, a missing name, a link or a fifo: the object the rule NAMES (the cleaned path, which
// is what goes into the rule) decides between a directory watch and a path watch, not what the spelling as typed
// resolves to.
func forUncleanWatchSpecs(c *enumx.Ctx, dir string, visit func(c *enumx.Ctx, w watchSpec)) {
	for _, tail := range []string{"/f/..", "/nope/..", "/fifo/..", "/lf/..", "/ldangling/..", "/d/../d", "/f/../d", "/nope/../f", "/f/../f", "/./d", "//d", "/d/", "/d/.", "/d//", "/ld/../f", "/ld/..", "/d/../nope", "/lloop/..", "/f/../../" + filepath.Base(dir)} {
		for _, perms := range []string{"wa", ""} {
			for nk := 0; nk <= 1; nk++ {
				if !c.Mine() {
					continue
				}
				p := dir + tail
				kind := "missing"
				if fi, err := os.Stat(filepath.Clean(p)); err == nil {
					kind = "file"
					if fi.IsDir() {
						kind = "dir"
					}
				}
				var keys []string
				if nk == 1 {
					keys = []string{"uk"}
				}
				visit(c, watchSpec{Path: p, Perms: perms, Keys: keys, Kind: kind})
			}
		}
	}
}

// withoutDescriptors runs f while the process cannot obtain a new file descriptor (soft RLIMIT_NOFILE 0: every
// open, socket, pipe ... fails with EMFILE; descriptors already open keep working): a resource condition of the
// calling process, which no input value reaches.  What a rule means may not depend on it.
func withoutDescriptors(f func()) {
	var old syscall.Rlimit
	if err := syscall.Getrlimit(syscall.RLIMIT_NOFILE, &old); err != nil {
		f()
		return
	}
	low := old
	low.Cur = 0
	if err := syscall.Setrlimit(syscall.RLIMIT_NOFILE, &low); err != nil {
		f()
		return
	}
	defer syscall.Setrlimit(syscall.RLIMIT_NOFILE, &old)
	f()
}

// setKind makes path a file / directory / link / nothing, whatever it was before.
func setKind(dir, path, kind string) {
	_ = os.RemoveAll(path)
	switch kind {
	case "file":
		_ = os.WriteFile(path, []byte("x"), 0o644)
	case "dir":
		_ = os.Mkdir(path, 0o755)
	case "link-to-dir":
		_ = os.Symlink(filepath.Join(dir, "d"), path)
	case "link-to-file":
		_ = os.Symlink(filepath.Join(dir, "f"), path)
	case "fifo":
		_ = syscall.Mkfifo(path, 0o644)
	}
}

var historyKinds = []string{"missing", "file", "dir", "link-to-dir", "link-to-file", "fifo"}

// forWatchHistories: the file system changes while the process lives: a name is one kind of object when a watch on it
// is first built and another kind later (every ordered pair and triple of kinds; each history on a name of its own,
// and all histories once more on ONE shared name): each build answers for the file system as it is then.
func forWatchHistories(c *enumx.Ctx, dir string, visit func(c *enumx.Ctx, w watchSpec)) {
	n := 0
	for _, k1 := range historyKinds {
		for _, k2 := range historyKinds {
			for _, k3 := range []string{"", "file", "dir"} {
				n++
				if !c.Mine() {
					continue
				}
				for _, name := range []string{fmt.Sprintf("h%d", n), "hshared"} {
					path := filepath.Join(dir, name)
					for _, k := range []string{k1, k2, k3} {
						if k == "" {
							continue
						}
						setKind(dir, path, k)
						visit(c, watchSpec{Path: path, Perms: "wa", Keys: []string{"hk"}, Kind: k})
						visit(c, watchSpec{Path: path, Perms: "r", Kind: k})
					}
					_ = os.RemoveAll(path)
				}
			}
		}
	}
}

func checkWatchEncoding(c *enumx.Ctx, ws watchSpec) {
	line := ws.line()
	c.Begin(func() string { return line })
	c.Try("C06", func() {
		_, wb, err := build(line)
		if err != nil {
			c.Count("rejected", 1)
			return
		}
		w, _ := decodeWire(wb)
		bad := func(sig, format string, a ...interface{}) {
			c.Report("C06 watch-"+sig, fmt.Sprintf("%q (%s): ", line, ws.Kind)+fmt.Sprintf(format, a...), nil)
		}
		if w.Flags != uapi("AUDIT_FILTER_EXIT") || w.Action != uapi("AUDIT_ALWAYS") {
			bad("list-action", "flags=%d action=%d, want exit/always", w.Flags, w.Action)
			return
		}
		fieldWant := uapi("AUDIT_WATCH")
		if watchIsDir(ws.Kind) {
			fieldWant = uapi("AUDIT_DIR")
		}
		permWant, _ := expectedValue("perm", ws.Perms)
		if ws.Perms == "" {
			permWant = 15
		}
		nf := 2
		// the name sent to the kernel is the lexically cleaned one (the library cleans it; auditctl strips trailing slashes)
		wsPath := filepath.Clean(ws.Path)
		buf := wsPath
		if len(ws.Keys) > 0 {
			nf = 3
			buf += strings.Join(ws.Keys, "\x01")
		}
		if int(w.FieldCount) != nf || w.Fields[0] != fieldWant || w.FFlags[0] != uapi("AUDIT_EQUAL") || int(w.Values[0]) != len(wsPath) ||
			w.Fields[1] != uapi("AUDIT_PERM") || w.FFlags[1] != uapi("AUDIT_EQUAL") || w.Values[1] != permWant {
			bad("fields", "field_count=%d fields=%v values=%v flags=%#x; want %d fields: (%d,=,len %d) (AUDIT_PERM,=,%d)", w.FieldCount, w.Fields[:3], w.Values[:3], w.FFlags[:3], nf, fieldWant, len(wsPath), permWant)
			return
		}
		if nf == 3 && (w.Fields[2] != uapi("AUDIT_FILTERKEY") || int(w.Values[2]) != len(buf)-len(wsPath)) {
			bad("key", "key field = (%d, len %d)", w.Fields[2], w.Values[2])
			return
		}
		if int(w.BufLen) != len(buf) || string(w.Buf[:len(buf)]) != buf {
			bad("buffer", "buffer %q want %q", w.Buf[:w.BufLen], buf)
			return
		}
		for i := 0; i < 63; i++ {
			if w.Mask[i] != 0xFFFFFFFF {
				bad("mask", "mask[%d]=%#x", i, w.Mask[i])
				return
			}
		}
		c.Nontrivial()
	})
}

// accountNames reads the sandbox's passwd / group files itself (the environment the
// library resolves names in) and returns names that exist in both with different ids.
func accountNames() (both [][3]string) {
	read := func(path string) map[string]string {
		m := map[string]string{}
		b, err := os.ReadFile(path)
		if err != nil {
			return m
		}
		for _, l := range strings.Split(string(b), "\n") {
			f := strings.Split(l, ":")
			if len(f) >= 3 && f[0] != "" && !strings.HasPrefix(f[0], "#") {
				if _, dup := m[f[0]]; !dup {
					m[f[0]] = f[2]
				}
			}
		}
		return m
	}
	u, g := read("/etc/passwd"), read("/etc/group")
	var names []string
	for n := range u {
		names = append(names, n)
	}
	sort.Strings(names)
	for _, n := range names {
		if gid, ok := g[n]; ok && gid != u[n] {
			both = append(both, [3]string{n, u[n], gid})
		}
	}
	return both
}

// c06Names: uid-class and gid-class filters given by NAME, in sequences that would expose
// state shared between lookups (a name resolved as a user must not answer for the group).
func c06Names(c *enumx.Ctx) {
	names := accountNames()
	c.Count("names_in_both_databases_with_different_ids", int64(len(names)))
	if c.Shard != 0 {
		return // one process: the order of the lookups is the point
	}
	uf := []string{"uid", "auid", "euid", "suid", "fsuid", "obj_uid"}
	gf := []string{"gid", "egid", "sgid", "fsgid", "obj_gid"}
	check := func(field, name, want string) {
		line := fmt.Sprintf("-a always,exit -F %s=%s", field, name)
		c.Begin(func() string { return line })
		c.Try("C06", func() {
			_, wb, err := build(line)
			if err != nil {
				c.Count("rejected", 1)
				return
			}
			w, _ := decodeWire(wb)
			wv, _ := strconv.ParseUint(want, 10, 32)
			if w.FieldCount != 1 || w.Fields[0] != uapi(fieldDefine[field]) || uint64(w.Values[0]) != wv {
				c.Report("C06 value-by-name:"+map[bool]string{true: "uid-class", false: "gid-class"}[uidFields[field]], fmt.Sprintf("%q: value word = %d, the %s database says %s is %s", line, w.Values[0], map[bool]string{true: "passwd", false: "group"}[uidFields[field]], name, want), nil)
				return
			}
			c.Nontrivial()
		})
	}
	for i, n := range names {
		// even names: user first, then group; odd names: group first, then user
		if i%2 == 0 {
			for _, f := range uf {
				check(f, n[0], n[1])
			}
			for _, f := range gf {
				check(f, n[0], n[2])
			}
			check("uid", n[0], n[1])
		} else {
			for _, f := range gf {
				check(f, n[0], n[2])
			}
			for _, f := range uf {
				check(f, n[0], n[1])
			}
			check("gid", n[0], n[2])
		}
	}
}

// c06SharedArrays: rule values are plain structs with slices; callers derive one rule from another (a copy of a base
// rule plus one more filter / syscall / key), so two rules share ONE backing array with the second owning the slot
// behind the first's length.  Building the first must leave the second's bytes what they are when it is built alone:
// the slots behind len() of the slices a rule was given are not Build's to write.
func c06SharedArrays(c *enumx.Ctx) {
	filters := []rule.FilterSpec{{Type: rule.ValueFilterType, LHS: "uid", Comparator: "=", RHS: "0"}, {Type: rule.ValueFilterType, LHS: "auid", Comparator: ">=", RHS: "1000"}, {Type: rule.ValueFilterType, LHS: "exe", Comparator: "=", RHS: "/bin/su"}, {Type: rule.InterFieldFilterType, LHS: "uid", Comparator: "!=", RHS: "euid"}}
	for _, keys1 := range [][]string{nil, {"k1"}, {"k1", "k2"}} {
		for n := 0; n <= 3; n++ {
			for _, what := range []string{"filters", "syscalls", "keys", "watch-perms", "watch-keys"} {
				if !c.Mine() {
					continue
				}
				desc := fmt.Sprintf("shared %s array, first rule has %d elements and keys %v", what, n, keys1)
				c.Begin(func() string { return desc })
				c.Try("C06", func() {
					var first, second, secondAlone rule.Rule
					switch what {
					case "filters":
						arr := make([]rule.FilterSpec, n, n+4)
						copy(arr, filters)
						sec := append(arr, filters[n]) // writes slot n of the shared array
						first = &rule.SyscallRule{Type: rule.AppendSyscallRuleType, List: "exit", Action: "always", Filters: arr, Syscalls: []string{"open"}, Keys: keys1}
						second = &rule.SyscallRule{Type: rule.AppendSyscallRuleType, List: "exit", Action: "always", Filters: sec, Syscalls: []string{"open"}}
						secondAlone = &rule.SyscallRule{Type: rule.AppendSyscallRuleType, List: "exit", Action: "always", Filters: append([]rule.FilterSpec{}, sec...), Syscalls: []string{"open"}}
					case "syscalls":
						arr := make([]string, n, n+4)
						copy(arr, []string{"open", "close", "read"})
						sec := append(arr, "execve")
						first = &rule.SyscallRule{Type: rule.AppendSyscallRuleType, List: "exit", Action: "always", Filters: filters[:1], Syscalls: arr, Keys: keys1}
						second = &rule.SyscallRule{Type: rule.AppendSyscallRuleType, List: "exit", Action: "always", Filters: filters[:1], Syscalls: sec}
						secondAlone = &rule.SyscallRule{Type: rule.AppendSyscallRuleType, List: "exit", Action: "always", Filters: filters[:1], Syscalls: append([]string{}, sec...)}
					case "keys":
						arr := make([]string, n, n+4)
						copy(arr, []string{"a", "b", "c"})
						sec := append(arr, "zz")
						first = &rule.SyscallRule{Type: rule.AppendSyscallRuleType, List: "exit", Action: "always", Filters: filters[:2], Syscalls: []string{"open"}, Keys: arr}
						second = &rule.SyscallRule{Type: rule.AppendSyscallRuleType, List: "exit", Action: "always", Filters: filters[:2], Syscalls: []string{"open"}, Keys: sec}
						secondAlone = &rule.SyscallRule{Type: rule.AppendSyscallRuleType, List: "exit", Action: "always", Filters: filters[:2], Syscalls: []string{"open"}, Keys: append([]string{}, sec...)}
					case "watch-perms":
						arr := make([]rule.AccessType, n, n+4)
						copy(arr, []rule.AccessType{rule.ReadAccessType, rule.WriteAccessType, rule.ExecuteAccessType})
						sec := append(arr, rule.AttributeChangeAccessType)
						first = &rule.FileWatchRule{Type: rule.FileWatchRuleType, Path: "/etc/passwd", Permissions: arr, Keys: keys1}
						second = &rule.FileWatchRule{Type: rule.FileWatchRuleType, Path: "/etc/passwd", Permissions: sec}
						secondAlone = &rule.FileWatchRule{Type: rule.FileWatchRuleType, Path: "/etc/passwd", Permissions: append([]rule.AccessType{}, sec...)}
					case "watch-keys":
						arr := make([]string, n, n+4)
						copy(arr, []string{"a", "b", "c"})
						sec := append(arr, "zz")
						first = &rule.FileWatchRule{Type: rule.FileWatchRuleType, Path: "/etc/passwd", Permissions: []rule.AccessType{rule.WriteAccessType}, Keys: arr}
						second = &rule.FileWatchRule{Type: rule.FileWatchRuleType, Path: "/etc/passwd", Permissions: []rule.AccessType{rule.WriteAccessType}, Keys: sec}
						secondAlone = &rule.FileWatchRule{Type: rule.FileWatchRuleType, Path: "/etc/passwd", Permissions: []rule.AccessType{rule.WriteAccessType}, Keys: append([]string{}, sec...)}
					}
					want, werr := rule.Build(secondAlone)
					for rep := 0; rep < 2; rep++ {
						_, _ = rule.Build(first)
					}
					got, gerr := rule.Build(second)
					if (werr == nil) != (gerr == nil) || !bytes.Equal(want, got) {
						c.Report("C06 build-writes-into-shared-array:"+what, fmt.Sprintf("%s: the second rule (one more element in the same backing array) builds to\n  % x (%v)\nafter the first rule was built, but to\n  % x (%v)\nfrom a private copy of the same value: building the first rule wrote behind the length of a slice it was given", desc, []byte(got), gerr, []byte(want), werr), nil)
						return
					}
					if werr == nil {
						c.Nontrivial()
					}
				})
			}
		}
	}
	c.Sample("base := filters[:2:6]; r1 = {Filters: base, Keys: [k]}; r2 = {Filters: append(base, f3)}; Build(r1); Build(r2) == Build(copy of r2)")
}

func init() {
	gens["c06-shared-arrays"] = c06SharedArrays
	gens["c06-names"] = c06Names
	gens["c06-rules"] = func(c *enumx.Ctx) {
		forRuleSpecs(c, checkEncoding)
		c.Sample("-a always,exit -F obj_lev_low=s0 -F 'a0&0x3' -S open -k k0 -k k1 => flags=4 action=2 fields [(22,=,len 2) (200,&,3) (210,=,5)] buf \"s0k0\\x01k1\" mask bit 2")
	}
	gens["c06-watches"] = func(c *enumx.Ctx) {
		dir, cleanup := scratch()
		defer cleanup()
		forWatchSpecs(c, dir, checkWatchEncoding)
		forWatchSpecs(c, dir, func(c *enumx.Ctx, w watchSpec) { withoutDescriptors(func() { checkWatchEncoding(c, w) }) })
		forWatchHistories(c, dir, checkWatchEncoding)
		forUncleanWatchSpecs(c, dir, checkWatchEncoding)
	}
}
