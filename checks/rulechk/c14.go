package main

import (
	"fmt"
	"os"
	"path/filepath"
	"reflect"
	"strings"

	"github.com/elastic/go-libaudit/v2/rule"
	"github.com/elastic/go-libaudit/v2/rule/flags"

	"verif/engine/enumx"
	"verif/engine/ev"
)

// group is one flag group of a rule line: a flag with its argument, a bare
// flag, or a stray word.
type group struct {
	Flag string // "-a" ... ; "" for a stray word
	Arg  string
	Bare bool // flag without argument (-D, --)
}

func (g group) tokens() []string {
	if g.Flag == "" {
		return []string{g.Arg}
	}
	if g.Bare {
		return []string{g.Flag}
	}
	return []string{g.Flag, g.Arg}
}

var groupMenu = []group{
	{"-a", "always,exit", false}, {"-a", "exit,always", false}, {"-a", "never,task", false}, {"-a", "always", false}, {"-a", "bogus,exit", false}, {"-a", "always, exit", false}, {"-a", "task", false},
	{"-A", "always,exit", false}, {"-A", "never,user", false},
	{"-a", "task,exit,always", false}, {"-a", "exit,always,never", false}, {"-A", "user, exclude, always", false}, {"-a", "always,exit,", false}, {"-a", "exit,exit", false}, {"-a", "always,never", false}, {"-a", ",always,exit", false},
	{"-F", "uid=0", false}, {"-F", "path=/tmp/my file", false}, {"-F", "key=a=b", false}, {"-F", "a0&=5", false}, {"-F", "auid>=1000", false}, {"-F", "!!uid=0", false}, {"-F", "uid =0", false}, {"-F", "nofilter", false}, {"-F", "=5", false}, {"-F", "a b=c", false}, {"-F", "uid=0 gid=0", false}, {"-F", "exit!=-EPERM", false}, {"-F", "uid=", false},
	{"-C", "uid!=euid", false}, {"-C", "uid=euid junk", false}, {"-C", "uid>=euid", false}, {"-C", "uid=euid,gid", false}, {"-C", "xx uid=euid", false}, {"-C", "uid=euid", false},
	{"-S", "open", false}, {"-S", "open,close", false}, {"-S", "5", false}, {"-S", "all", false}, {"-S", "open close", false},
	{"-k", "k1", false}, {"-k", "a,b", false}, {"-k", "k 1", false},
	{"-p", "r", false}, {"-p", "wa", false}, {"-p", "rq", false},
	{"-w", "/etc/passwd", false}, {"-w", "/tmp/my file", false},
	{"-D", "", true}, {"", "stray", false}, {"--", "", true}, {"", "/trailing/word", false},
}

var ops14 = []string{"<=", ">=", "&=", "!=", "=", "<", ">", "&"}

// splitFilter: text before / at / after the FIRST operator (leftmost, longest).
func splitFilter(s string, ops []string) (before, op, after string, ok bool) {
	for i := 0; i < len(s); i++ {
		for _, o := range ops {
			if strings.HasPrefix(s[i:], o) {
				return s[:i], o, s[i+len(o):], true
			}
		}
	}
	return "", "", "", false
}

type expected struct {
	MustReject bool
	Why        string
	Type       rule.Type
	List       string
	Action     string
	Filters    []rule.FilterSpec
	Syscalls   []string
	Keys       []string
	Path       string
	Perms      []rule.AccessType
	// lenient spots (either of two answers acceptable)
	lhsAlt        map[int]string
	noListOpinion bool
}

func commaWords(s string) []string {
	var out []string
	for _, w := range strings.Split(s, ",") {
		out = append(out, strings.TrimSpace(w))
	}
	return out
}

// reference reads the token list the way the statement describes.
func reference(gs []group) expected {
	var e expected
	e.lhsAlt = map[int]string{}
	var nA, na, nw, nD int
	cat := map[string]bool{}
	stop := false
	for _, g := range gs {
		if stop {
			e.MustReject, e.Why = true, "words after the end of the flags would be ignored"
			return e
		}
		switch {
		case g.Flag == "":
			e.MustReject, e.Why = true, "positional word "+g.Arg+" (and everything after it) would be ignored"
			return e
		case g.Flag == "--":
			stop = true
		case g.Flag == "-D":
			nD++
			cat["delete"] = true
		case g.Flag == "-a" || g.Flag == "-A":
			if g.Flag == "-a" {
				na++
			} else {
				nA++
			}
			cat["syscall"] = true
			ws := commaWords(g.Arg)
			for _, w := range ws {
				switch w {
				case "task", "exit", "user", "exclude":
					e.List = w
				case "never", "always":
					e.Action = w
				default:
					e.noListOpinion = true // the library must reject this; if it does not, list/action words are unaccounted
				}
			}
			if len(ws) != 2 {
				e.noListOpinion = true
			}
		case g.Flag == "-F":
			cat["syscall"] = true
			b, op, a, ok := splitFilter(g.Arg, ops14)
			if !ok || b == "" || a == "" {
				e.MustReject, e.Why = true, "-F "+g.Arg+" has no field/operator/value"
				return e
			}
			if strings.TrimSpace(b) != b {
				e.lhsAlt[len(e.Filters)] = strings.TrimSpace(b)
			}
			e.Filters = append(e.Filters, rule.FilterSpec{Type: rule.ValueFilterType, LHS: b, Comparator: op, RHS: a})
		case g.Flag == "-C":
			cat["syscall"] = true
			b, op, a, ok := splitFilter(g.Arg, ops14)
			if !ok || b == "" || a == "" {
				e.MustReject, e.Why = true, "-C "+g.Arg+" has no field/operator/field"
				return e
			}
			if strings.TrimSpace(b) != b {
				e.lhsAlt[len(e.Filters)] = strings.TrimSpace(b)
			}
			e.Filters = append(e.Filters, rule.FilterSpec{Type: rule.InterFieldFilterType, LHS: b, Comparator: op, RHS: a})
		case g.Flag == "-S":
			cat["syscall"] = true
			e.Syscalls = append(e.Syscalls, commaWords(g.Arg)...)
		case g.Flag == "-k":
			e.Keys = append(e.Keys, commaWords(g.Arg)...)
		case g.Flag == "-p":
			cat["watch"] = true
			for _, ch := range g.Arg {
				switch ch {
				case 'r':
					e.Perms = append(e.Perms, rule.ReadAccessType)
				case 'w':
					e.Perms = append(e.Perms, rule.WriteAccessType)
				case 'x':
					e.Perms = append(e.Perms, rule.ExecuteAccessType)
				case 'a':
					e.Perms = append(e.Perms, rule.AttributeChangeAccessType)
				default:
					e.MustReject, e.Why = true, "-p "+g.Arg+" has an unknown access type"
					return e
				}
			}
		case g.Flag == "-w":
			nw++
			cat["watch"] = true
			e.Path = g.Arg
		}
	}
	switch {
	case len(cat) == 0:
		e.MustReject, e.Why = true, "no operation"
	case len(cat) > 1:
		e.MustReject, e.Why = true, "delete / watch / syscall-rule flags mixed"
	case cat["syscall"] && (na+nA == 0):
		e.MustReject, e.Why = true, "syscall rule without -a/-A"
	case cat["syscall"] && na > 0 && nA > 0:
		e.MustReject, e.Why = true, "both -a and -A"
	case na > 1 || nA > 1:
		e.MustReject, e.Why = true, "repeated -a/-A can only be accepted by dropping one"
	case nw > 1:
		e.MustReject, e.Why = true, "repeated -w can only be accepted by dropping one"
	}
	if e.MustReject {
		return e
	}
	switch {
	case cat["delete"]:
		e.Type = rule.DeleteAllRuleType
	case cat["watch"]:
		e.Type = rule.FileWatchRuleType
	case nA > 0:
		e.Type = rule.PrependSyscallRuleType
	default:
		e.Type = rule.AppendSyscallRuleType
	}
	return e
}

func strs(a []string) []string {
	if len(a) == 0 {
		return nil
	}
	return a
}

func checkLine(c *enumx.Ctx, gs []group) {
	var toks []string
	for _, g := range gs {
		for _, t := range g.tokens() {
			toks = append(toks, shq(t))
		}
	}
	line := strings.Join(toks, " ")
	c.Begin(func() string { return line })
	c.Try("C14", func() {
		r, err := flags.Parse(line)
		if err != nil {
			c.Count("rejected", 1)
			return
		}
		if r2, err2 := flags.Parse(line); err2 != nil || !reflect.DeepEqual(r, r2) {
			c.Report("C14 parse-not-repeatable", fmt.Sprintf("flags.Parse(%q) gave %s and then (%v, %v)", line, describe(r), r2, err2), nil)
			return
		}
		e := reference(gs)
		if e.MustReject {
			sig := "C14 accepted:" + strings.SplitN(e.Why, " ", 3)[0] + "-" + strings.SplitN(e.Why+" x x", " ", 3)[1]
			switch {
			case strings.HasPrefix(e.Why, "positional") || strings.HasPrefix(e.Why, "words after"):
				sig = "C14 trailing-words-ignored"
			case strings.HasPrefix(e.Why, "repeated -w"):
				sig = "C14 repeated-w-overwritten"
			case strings.HasPrefix(e.Why, "repeated -a"):
				sig = "C14 repeated-a-merged"
			case strings.HasPrefix(e.Why, "-F"):
				sig = "C14 malformed-F-accepted"
			case strings.HasPrefix(e.Why, "-C"):
				sig = "C14 malformed-C-accepted"
			}
			c.Report(sig, fmt.Sprintf("flags.Parse(%q) accepted the line although %s; got %s", line, e.Why, describe(r)), nil)
			return
		}
		ok := true
		bad := func(sig, format string, a ...interface{}) {
			c.Report("C14 "+sig, fmt.Sprintf("flags.Parse(%q): ", line)+fmt.Sprintf(format, a...), nil)
			ok = false
		}
		if r.TypeOf() != e.Type {
			bad("rule-type", "rule type %v, the line describes %v", r.TypeOf(), e.Type)
			return
		}
		switch v := r.(type) {
		case *rule.DeleteAllRule:
			if !reflect.DeepEqual(strs(v.Keys), strs(e.Keys)) {
				bad("keys", "keys %q, the line gives %q", v.Keys, e.Keys)
			}
		case *rule.FileWatchRule:
			if v.Path != e.Path {
				bad("watch-path", "path %q, the line gives %q", v.Path, e.Path)
			}
			if !reflect.DeepEqual(append([]rule.AccessType{}, v.Permissions...), append([]rule.AccessType{}, e.Perms...)) {
				bad("watch-perms", "permissions %v, the line gives %v", v.Permissions, e.Perms)
			}
			if !reflect.DeepEqual(strs(v.Keys), strs(e.Keys)) {
				bad("keys", "keys %q, the line gives %q", v.Keys, e.Keys)
			}
		case *rule.SyscallRule:
			if e.noListOpinion {
				bad("add-flag-words-unaccounted", "the -a/-A argument has words that are neither a list nor an action, yet the rule was accepted with list=%q action=%q", v.List, v.Action)
			} else if v.List != e.List || v.Action != e.Action {
				bad("list-action", "list=%q action=%q, the line gives list=%q action=%q", v.List, v.Action, e.List, e.Action)
			}
			if len(v.Filters) != len(e.Filters) {
				bad("filter-count", "%d filters for %d -F/-C arguments", len(v.Filters), len(e.Filters))
			} else {
				for i := range e.Filters {
					g, w := v.Filters[i], e.Filters[i]
					lhsOK := g.LHS == w.LHS || (e.lhsAlt[i] != "" && g.LHS == e.lhsAlt[i])
					if g.Type != w.Type || !lhsOK || g.Comparator != w.Comparator || g.RHS != w.RHS {
						sig := "filter-text"
						switch {
						case g.Type != w.Type:
							sig = "filter-kind"
						case !lhsOK:
							sig = "filter-leading-text-dropped"
						case g.Comparator != w.Comparator:
							sig = "filter-operator"
						case len(g.RHS) < len(w.RHS):
							sig = "filter-value-truncated"
						}
						if w.Type == rule.InterFieldFilterType {
							sig = "C-" + sig
						}
						bad(sig, "filter %d is (%q %q %q), the argument reads (%q %q %q)", i, g.LHS, g.Comparator, g.RHS, w.LHS, w.Comparator, w.RHS)
					}
				}
			}
			if !reflect.DeepEqual(strs(v.Syscalls), strs(e.Syscalls)) {
				bad("syscalls", "syscalls %q, the line gives %q", v.Syscalls, e.Syscalls)
			}
			if !reflect.DeepEqual(strs(v.Keys), strs(e.Keys)) {
				bad("keys", "keys %q, the line gives %q", v.Keys, e.Keys)
			}
		}
		if ok {
			c.Nontrivial()
		}
	})
}

func describe(r rule.Rule) string {
	switch v := r.(type) {
	case *rule.DeleteAllRule:
		return fmt.Sprintf("DeleteAll%+v", *v)
	case *rule.FileWatchRule:
		return fmt.Sprintf("FileWatch%+v", *v)
	case *rule.SyscallRule:
		return fmt.Sprintf("Syscall%+v", *v)
	}
	return fmt.Sprintf("%T", r)
}

// c14Paths: -w / -F path= / -F dir= arguments that EXIST on this machine, go through
// symlinks, have trailing or doubled slashes, dots - the parsed rule must hold the text that
// was written, whatever is on disk.
func c14Paths(c *enumx.Ctx) {
	dir := filepath.Join(ev.Root(), ".work", fmt.Sprintf("c14-%d", os.Getpid()))
	_ = os.MkdirAll(filepath.Join(dir, "real", "sub"), 0o755)
	defer os.RemoveAll(dir)
	_ = os.WriteFile(filepath.Join(dir, "real", "file"), []byte("x"), 0o644)
	_ = os.Symlink(filepath.Join(dir, "real", "file"), filepath.Join(dir, "flink"))
	_ = os.Symlink(filepath.Join(dir, "real"), filepath.Join(dir, "dlink"))
	_ = os.Symlink("nowhere", filepath.Join(dir, "dangling"))
	paths := []string{
		"/bin/sh", "/bin", "/lib", "/sbin/init", "/etc/passwd", "/etc/", "/etc//passwd", "/etc/./passwd", "/etc/../etc/passwd", "/proc/self", "/proc/self/exe", "/dev/stdin", "/var/run", "/tmp", "/", "//", "/usr/bin/../bin/env",
		dir + "/flink", dir + "/dlink", dir + "/dlink/file", dir + "/dlink/sub/", dir + "/dangling", dir + "/real/file", dir + "/real/", dir + "/nope", "relative/path", ".", "~", "/etc/passwd ", " /etc/passwd",
	}
	for _, p := range paths {
		for _, form := range []string{"w", "path", "dir"} {
			for _, extra := range [][]group{nil, {{"-k", "k1", false}}, {{"-p", "wa", false}}} {
				if !c.Mine() {
					continue
				}
				var gs []group
				switch form {
				case "w":
					gs = []group{{"-w", p, false}}
				case "path":
					gs = []group{{"-a", "always,exit", false}, {"-F", "path=" + p, false}}
				default:
					gs = []group{{"-a", "always,exit", false}, {"-F", "dir=" + p, false}}
				}
				if form != "w" && len(extra) > 0 && extra[0].Flag == "-p" {
					continue
				}
				checkLine(c, append(gs, extra...))
			}
		}
	}
}

func c14Lines(c *enumx.Ctx) {
	maxLen := 3
	if c.Tier == "thorough" {
		maxLen = 4
	}
	var rec func(cur []group)
	rec = func(cur []group) {
		if len(cur) > 0 && c.Mine() {
			checkLine(c, cur)
		}
		if len(cur) == maxLen {
			return
		}
		for _, g := range groupMenu {
			rec(append(append([]group{}, cur...), g))
		}
	}
	rec(nil)
	c.Sample("-a always,exit -F 'path=/tmp/my file' -k k1  => filter (path = \"/tmp/my file\") or rejection")
}

func init() {
	gens["c14-lines"] = c14Lines
	gens["c14-paths"] = c14Paths
}
