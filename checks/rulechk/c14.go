package main

import (
	"fmt"
	"os"
	"path/filepath"
	"reflect"
	"strings"

	"github.com/elastic/go-libaudit/v2/rule"
	"github.com/elastic/go-libaudit/v2/rule/flags"

	"verif/engine/enumx"
	"verif/engine/ev"
)

// group is one flag group of a rule line: a flag with its argument, a bare
// flag, or a stray word.
type group struct {
	Flag string // "-a" ... ; "" for a stray word
	Arg  string
	Bare bool // flag without argument (-D, --)
	// Form: the other spellings Go's flag package accepts for the same flag and argument:
	// 0 "-f arg", 1 "-f=arg", 2 "--f arg", 3 "--f=arg"; for the boolean -D, Arg (when set) is an
	// explicit value: "-D=false" - the flag is still ON THE LINE and takes part in every rule about -D
	Form int
}

func (g group) tokens() []string {
	if g.Flag == "" {
		return []string{g.Arg}
	}
	f := g.Flag
	if g.Form >= 2 && f != "--" {
		f = "-" + f
	}
	if g.Bare {
		if g.Arg != "" {
			return []string{f + "=" + g.Arg}
		}
		return []string{f}
	}
	if g.Form == 1 || g.Form == 3 {
		return []string{f + "=" + g.Arg}
	}
	return []string{f, g.Arg}
}

var groupMenu = []group{
	{"-a", "always,exit", false, 0}, {"-a", "exit,always", false, 0}, {"-a", "never,task", false, 0}, {"-a", "always", false, 0}, {"-a", "bogus,exit", false, 0}, {"-a", "always, exit", false, 0}, {"-a", "task", false, 0},
	{"-A", "always,exit", false, 0}, {"-A", "never,user", false, 0},
	{"-a", "task,exit,always", false, 0}, {"-a", "exit,always,never", false, 0}, {"-A", "user, exclude, always", false, 0}, {"-a", "always,exit,", false, 0}, {"-a", "exit,exit", false, 0}, {"-a", "always,never", false, 0}, {"-a", ",always,exit", false, 0},
	{"-F", "uid=0", false, 0}, {"-F", "path=/tmp/my file", false, 0}, {"-F", "key=a=b", false, 0}, {"-F", "a0&=5", false, 0}, {"-F", "auid>=1000", false, 0}, {"-F", "!!uid=0", false, 0}, {"-F", "uid =0", false, 0}, {"-F", "nofilter", false, 0}, {"-F", "=5", false, 0}, {"-F", "a b=c", false, 0}, {"-F", "uid=0 gid=0", false, 0}, {"-F", "exit!=-EPERM", false, 0}, {"-F", "uid=", false, 0},
	{"-C", "uid!=euid", false, 0}, {"-C", "uid=euid junk", false, 0}, {"-C", "uid>=euid", false, 0}, {"-C", "uid=euid,gid", false, 0}, {"-C", "xx uid=euid", false, 0}, {"-C", "uid=euid", false, 0},
	{"-S", "open", false, 0}, {"-S", "open,close", false, 0}, {"-S", "5", false, 0}, {"-S", "all", false, 0}, {"-S", "open close", false, 0},
	{"-k", "k1", false, 0}, {"-k", "a,b", false, 0}, {"-k", "k 1", false, 0},
	{"-p", "r", false, 0}, {"-p", "wa", false, 0}, {"-p", "rq", false, 0},
	{"-w", "/etc/passwd", false, 0}, {"-w", "/tmp/my file", false, 0},
	{"-w", "", false, 0}, {"-p", "", false, 0}, // flags that are ON THE LINE with a zero-length value: they take part in every rule about -w / -p
	{"-D", "", true, 0}, {"", "stray", false, 0}, {"--", "", true, 0}, {"", "/trailing/word", false, 0},
	{"", "", false, 0}, // the EMPTY word ('' on the line): a word like any other
}

var ops14 = []string{"<=", ">=", "&=", "!=", "=", "<", ">", "&"}

// splitFilter: text before / at / after the FIRST operator (leftmost, longest).
func splitFilter(s string, ops []string) (before, op, after string, ok bool) {
	for i := 0; i < len(s); i++ {
		for _, o := range ops {
			if strings.HasPrefix(s[i:], o) {
				return s[:i], o, s[i+len(o):], true
			}
		}
	}
	return "", "", "", false
}

type expected struct {
	MustReject bool
	Why        string
	Type       rule.Type
	List       string
	Action     string
	Filters    []rule.FilterSpec
	Syscalls   []string
	Keys       []string
	Path       string
	Perms      []rule.AccessType
	// lenient spots (either of two answers acceptable)
	lhsAlt        map[int]string
	noListOpinion bool
}

func commaWords(s string) []string {
	var out []string
	for _, w := range strings.Split(s, ",") {
		out = append(out, strings.TrimSpace(w))
	}
	return out
}

// reference reads the token list the way the statement describes.
func reference(gs []group) expected {
	var e expected
	e.lhsAlt = map[int]string{}
	var nA, na, nw, nD int
	cat := map[string]bool{}
	stop := false
	for _, g := range gs {
		if stop {
			e.MustReject, e.Why = true, "words after the end of the flags would be ignored"
			return e
		}
		switch {
		case g.Flag == "":
			e.MustReject, e.Why = true, "positional word "+g.Arg+" (and everything after it) would be ignored"
			return e
		case g.Flag == "--":
			stop = true
		case g.Flag == "-D":
			nD++
			cat["delete"] = true
		case g.Flag == "-a" || g.Flag == "-A":
			if g.Flag == "-a" {
				na++
			} else {
				nA++
			}
			cat["syscall"] = true
			ws := commaWords(g.Arg)
			for _, w := range ws {
				switch w {
				case "task", "exit", "user", "exclude":
					e.List = w
				case "never", "always":
					e.Action = w
				default:
					e.noListOpinion = true // the library must reject this; if it does not, list/action words are unaccounted
				}
			}
			if len(ws) != 2 {
				e.noListOpinion = true
			}
		case g.Flag == "-F":
			cat["syscall"] = true
			b, op, a, ok := splitFilter(g.Arg, ops14)
			if !ok || b == "" || a == "" {
				e.MustReject, e.Why = true, "-F "+g.Arg+" has no field/operator/value"
				return e
			}
			if strings.TrimSpace(b) != b {
				e.lhsAlt[len(e.Filters)] = strings.TrimSpace(b)
			}
			e.Filters = append(e.Filters, rule.FilterSpec{Type: rule.ValueFilterType, LHS: b, Comparator: op, RHS: a})
		case g.Flag == "-C":
			cat["syscall"] = true
			b, op, a, ok := splitFilter(g.Arg, ops14)
			if !ok || b == "" || a == "" {
				e.MustReject, e.Why = true, "-C "+g.Arg+" has no field/operator/field"
				return e
			}
			if strings.TrimSpace(b) != b {
				e.lhsAlt[len(e.Filters)] = strings.TrimSpace(b)
			}
			e.Filters = append(e.Filters, rule.FilterSpec{Type: rule.InterFieldFilterType, LHS: b, Comparator: op, RHS: a})
		case g.Flag == "-S":
			cat["syscall"] = true
			e.Syscalls = append(e.Syscalls, commaWords(g.Arg)...)
		case g.Flag == "-k":
			e.Keys = append(e.Keys, commaWords(g.Arg)...)
		case g.Flag == "-p":
			cat["watch"] = true
			for _, ch := range g.Arg {
				switch ch {
				case 'r':
					e.Perms = append(e.Perms, rule.ReadAccessType)
				case 'w':
					e.Perms = append(e.Perms, rule.WriteAccessType)
				case 'x':
					e.Perms = append(e.Perms, rule.ExecuteAccessType)
				case 'a':
					e.Perms = append(e.Perms, rule.AttributeChangeAccessType)
				default:
					e.MustReject, e.Why = true, "-p "+g.Arg+" has an unknown access type"
					return e
				}
			}
		case g.Flag == "-w":
			// a rule has one path: two -w arguments cannot both be reflected - unless all but one of them are
			// the empty text, of which nothing can be lost (the line may be accepted or rejected then)
			if g.Arg != "" || nw == 0 {
				if g.Arg != "" && e.Path == "" && nw > 0 {
					nw--
				}
				nw++
			}
			cat["watch"] = true
			if g.Arg != "" || e.Path == "" {
				e.Path = g.Arg
			}
		}
	}
	switch {
	case len(cat) == 0:
		e.MustReject, e.Why = true, "no operation"
	case len(cat) > 1:
		e.MustReject, e.Why = true, "delete / watch / syscall-rule flags mixed"
	case cat["syscall"] && (na+nA == 0):
		e.MustReject, e.Why = true, "syscall rule without -a/-A"
	case cat["syscall"] && na > 0 && nA > 0:
		e.MustReject, e.Why = true, "both -a and -A"
	case na > 1 || nA > 1:
		e.MustReject, e.Why = true, "repeated -a/-A can only be accepted by dropping one"
	case nw > 1:
		e.MustReject, e.Why = true, "repeated -w can only be accepted by dropping one"
	}
	if e.MustReject {
		return e
	}
	switch {
	case cat["delete"]:
		e.Type = rule.DeleteAllRuleType
	case cat["watch"]:
		e.Type = rule.FileWatchRuleType
	case nA > 0:
		e.Type = rule.PrependSyscallRuleType
	default:
		e.Type = rule.AppendSyscallRuleType
	}
	return e
}

func strs(a []string) []string {
	if len(a) == 0 {
		return nil
	}
	return a
}

// sepVariant: words are separated by any white space the shell knows; checkLine joins them with a blank,
// checkLineSep with something else (a line feed, a tab, CR LF, several blanks).
var lineSep = " "

func checkLineSeps(c *enumx.Ctx, gs []group) {
	for _, sep := range []string{"\n", "\t", "\r\n", "  ", " \n ", "\n\n"} {
		lineSep = sep
		checkLine(c, gs)
	}
	lineSep = " "
}

func checkLine(c *enumx.Ctx, gs []group) {
	var toks []string
	for _, g := range gs {
		for _, t := range g.tokens() {
			toks = append(toks, shq(t))
		}
	}
	line := strings.Join(toks, lineSep)
	c.Begin(func() string { return line })
	c.Try("C14", func() {
		r, err := flags.Parse(line)
		if err != nil {
			c.Count("rejected", 1)
			return
		}
		if r2, err2 := flags.Parse(line); err2 != nil || !reflect.DeepEqual(r, r2) {
			c.Report("C14 parse-not-repeatable", fmt.Sprintf("flags.Parse(%q) gave %s and then (%v, %v)", line, describe(r), r2, err2), nil)
			return
		}
		e := reference(gs)
		if e.MustReject {
			sig := "C14 accepted:" + strings.SplitN(e.Why, " ", 3)[0] + "-" + strings.SplitN(e.Why+" x x", " ", 3)[1]
			switch {
			case strings.HasPrefix(e.Why, "positional") || strings.HasPrefix(e.Why, "words after"):
				sig = "C14 trailing-words-ignored"
			case strings.HasPrefix(e.Why, "repeated -w"):
				sig = "C14 repeated-w-overwritten"
			case strings.HasPrefix(e.Why, "repeated -a"):
				sig = "C14 repeated-a-merged"
			case strings.HasPrefix(e.Why, "-F"):
				sig = "C14 malformed-F-accepted"
			case strings.HasPrefix(e.Why, "-C"):
				sig = "C14 malformed-C-accepted"
			}
			c.Report(sig, fmt.Sprintf("flags.Parse(%q) accepted the line although %s; got %s", line, e.Why, describe(r)), nil)
			return
		}
		ok := true
		bad := func(sig, format string, a ...interface{}) {
			c.Report("C14 "+sig, fmt.Sprintf("flags.Parse(%q): ", line)+fmt.Sprintf(format, a...), nil)
			ok = false
		}
		if r.TypeOf() != e.Type {
			bad("rule-type", "rule type %v, the line describes %v", r.TypeOf(), e.Type)
			return
		}
		switch v := r.(type) {
		case *rule.DeleteAllRule:
			if !reflect.DeepEqual(strs(v.Keys), strs(e.Keys)) {
				bad("keys", "keys %q, the line gives %q", v.Keys, e.Keys)
			}
		case *rule.FileWatchRule:
			if v.Path != e.Path {
				bad("watch-path", "path %q, the line gives %q", v.Path, e.Path)
			}
			if !reflect.DeepEqual(append([]rule.AccessType{}, v.Permissions...), append([]rule.AccessType{}, e.Perms...)) {
				bad("watch-perms", "permissions %v, the line gives %v", v.Permissions, e.Perms)
			}
			if !reflect.DeepEqual(strs(v.Keys), strs(e.Keys)) {
				bad("keys", "keys %q, the line gives %q", v.Keys, e.Keys)
			}
		case *rule.SyscallRule:
			if e.noListOpinion {
				bad("add-flag-words-unaccounted", "the -a/-A argument has words that are neither a list nor an action, yet the rule was accepted with list=%q action=%q", v.List, v.Action)
			} else if v.List != e.List || v.Action != e.Action {
				bad("list-action", "list=%q action=%q, the line gives list=%q action=%q", v.List, v.Action, e.List, e.Action)
			}
			if len(v.Filters) != len(e.Filters) {
				bad("filter-count", "%d filters for %d -F/-C arguments", len(v.Filters), len(e.Filters))
			} else {
				for i := range e.Filters {
					g, w := v.Filters[i], e.Filters[i]
					lhsOK := g.LHS == w.LHS || (e.lhsAlt[i] != "" && g.LHS == e.lhsAlt[i])
					if g.Type != w.Type || !lhsOK || g.Comparator != w.Comparator || g.RHS != w.RHS {
						sig := "filter-text"
						switch {
						case g.Type != w.Type:
							sig = "filter-kind"
						case !lhsOK:
							sig = "filter-leading-text-dropped"
						case g.Comparator != w.Comparator:
							sig = "filter-operator"
						case len(g.RHS) < len(w.RHS):
							sig = "filter-value-truncated"
						}
						if w.Type == rule.InterFieldFilterType {
							sig = "C-" + sig
						}
						bad(sig, "filter %d is (%q %q %q), the argument reads (%q %q %q)", i, g.LHS, g.Comparator, g.RHS, w.LHS, w.Comparator, w.RHS)
					}
				}
			}
			if !reflect.DeepEqual(strs(v.Syscalls), strs(e.Syscalls)) {
				bad("syscalls", "syscalls %q, the line gives %q", v.Syscalls, e.Syscalls)
			}
			if !reflect.DeepEqual(strs(v.Keys), strs(e.Keys)) {
				bad("keys", "keys %q, the line gives %q", v.Keys, e.Keys)
			}
		}
		if ok {
			c.Nontrivial()
		}
	})
}

func describe(r rule.Rule) string {
	switch v := r.(type) {
	case *rule.DeleteAllRule:
		return fmt.Sprintf("DeleteAll%+v", *v)
	case *rule.FileWatchRule:
		return fmt.Sprintf("FileWatch%+v", *v)
	case *rule.SyscallRule:
		return fmt.Sprintf("Syscall%+v", *v)
	}
	return fmt.Sprintf("%T", r)
}

// c14Paths: -w / -F path= / -F dir= arguments that EXIST on this machine, go through
// symlinks, have trailing or doubled slashes, dots - the parsed rule must hold the text that
// was written, whatever is on disk.
func c14Paths(c *enumx.Ctx) {
	dir := filepath.Join(ev.Root(), ".work", fmt.Sprintf("c14-%d", os.Getpid()))
	_ = os.MkdirAll(filepath.Join(dir, "real", "sub"), 0o755)
	defer os.RemoveAll(dir)
	_ = os.WriteFile(filepath.Join(dir, "real", "file"), []byte("x"), 0o644)
	_ = os.Symlink(filepath.Join(dir, "real", "file"), filepath.Join(dir, "flink"))
	_ = os.Symlink(filepath.Join(dir, "real"), filepath.Join(dir, "dlink"))
	_ = os.Symlink("nowhere", filepath.Join(dir, "dangling"))
	paths := []string{
		"/bin/sh", "/bin", "/lib", "/sbin/init", "/etc/passwd", "/etc/", "/etc//passwd", "/etc/./passwd", "/etc/../etc/passwd", "/proc/self", "/proc/self/exe", "/dev/stdin", "/var/run", "/tmp", "/", "//", "/usr/bin/../bin/env",
		dir + "/flink", dir + "/dlink", dir + "/dlink/file", dir + "/dlink/sub/", dir + "/dangling", dir + "/real/file", dir + "/real/", dir + "/nope", "relative/path", ".", "~", "/etc/passwd ", " /etc/passwd",
	}
	for _, p := range paths {
		for _, form := range []string{"w", "path", "dir"} {
			for _, extra := range [][]group{nil, {{"-k", "k1", false, 0}}, {{"-p", "wa", false, 0}}} {
				if !c.Mine() {
					continue
				}
				var gs []group
				switch form {
				case "w":
					gs = []group{{"-w", p, false, 0}}
				case "path":
					gs = []group{{"-a", "always,exit", false, 0}, {"-F", "path=" + p, false, 0}}
				default:
					gs = []group{{"-a", "always,exit", false, 0}, {"-F", "dir=" + p, false, 0}}
				}
				if form != "w" && len(extra) > 0 && extra[0].Flag == "-p" {
					continue
				}
				checkLine(c, append(gs, extra...))
			}
		}
	}
}

// c14Syntax: every spelling the flag package accepts ("-f arg", "-f=arg", "--f arg", "--f=arg",
// booleans with an explicit value) for a smaller menu, all sequences of <=3 groups: the rules about
// mixing and about reflecting every argument do not depend on how a flag is spelt.
func c14Syntax(c *enumx.Ctx) {
	base := []group{{Flag: "-a", Arg: "always,exit"}, {Flag: "-A", Arg: "never,user"}, {Flag: "-F", Arg: "uid=0"}, {Flag: "-F", Arg: "key=a=b"}, {Flag: "-C", Arg: "uid!=euid"},
		{Flag: "-S", Arg: "open"}, {Flag: "-k", Arg: "k1"}, {Flag: "-p", Arg: "wa"}, {Flag: "-w", Arg: "/etc/passwd"}}
	var menu []group
	for _, g := range base {
		for form := 0; form < 4; form++ {
			g.Form = form
			menu = append(menu, g)
		}
	}
	for _, v := range []string{"", "true", "false", "0", "1", "t", "F", "FALSE"} {
		menu = append(menu, group{Flag: "-D", Bare: true, Arg: v}, group{Flag: "-D", Bare: true, Arg: v, Form: 2})
	}
	var rec func(cur []group)
	rec = func(cur []group) {
		if len(cur) > 0 && c.Mine() {
			checkLine(c, cur)
		}
		if len(cur) == 3 {
			return
		}
		for _, g := range menu {
			rec(append(append([]group{}, cur...), g))
		}
	}
	rec(nil)
	c.Sample("-D=false -w /etc/passwd -p wa => rejected: a -D argument is on the line (mixing), whatever value it carries")
}

// c14Runes: every fragment of the shared multi-byte menu (Unicode white space, BOM / zero-width
// characters, malformed UTF-8 ...) inside each kind of argument, single-quoted by the harness:
// the parsed rule holds the complete text, nothing is stripped or "normalised".
func c14Runes(c *enumx.Ctx) {
	for _, r := range enumx.HostileRunes {
		if strings.Contains(r, "\x00") {
			continue // a NUL cannot be written on a command line
		}
		for _, pos := range []int{0, 1, 2} {
			put := func(a, b string) string {
				switch pos {
				case 0:
					return r + a + b
				case 1:
					return a + r + b
				}
				return a + b + r
			}
			lines := [][]group{
				{{Flag: "-w", Arg: put("/srv/share/", "reports")}, {Flag: "-p", Arg: "wa"}, {Flag: "-k", Arg: "k"}},
				{{Flag: "-w", Arg: "/etc/passwd"}, {Flag: "-k", Arg: put("ma", "il")}},
				{{Flag: "-a", Arg: "always,exit"}, {Flag: "-F", Arg: "path=" + put("/data/in", "box")}},
				{{Flag: "-a", Arg: "always,exit"}, {Flag: "-F", Arg: put("pa", "th") + "=/x"}},
				{{Flag: "-a", Arg: "always,exit"}, {Flag: "-C", Arg: "auid!=" + put("u", "id")}},
				{{Flag: "-a", Arg: "always,exit"}, {Flag: "-S", Arg: put("op", "en")}, {Flag: "-F", Arg: "key=" + put("a", "b")}},
				{{Flag: "-a", Arg: put("always,", "exit")}, {Flag: "-S", Arg: "open"}},
				{{Flag: "-D"}, {Flag: "-k", Arg: put("k", "1")}},
			}
			lines[7][0].Bare = true
			for _, gs := range lines {
				if !c.Mine() {
					continue
				}
				checkLine(c, gs)
			}
		}
	}
	c.Sample("-w '/srv/share/<U+FEFF>reports' -p wa => Path keeps the three bytes EF BB BF")
}

// c14FValues: every string of <=5 characters over {a, b, '=', ',', '!', '>'} as the value of -F key= / -F
// path=/ / -C: the value is the COMPLETE text after the first operator - commas, further operators and
// '=' signs inside it included - and one argument is one filter.
func c14FValues(c *enumx.Ctx) {
	alpha := []string{"a", "b", "=", ",", "!", ">"}
	var rec func(cur string, n int)
	rec = func(cur string, n int) {
		if cur != "" && c.Mine() {
			checkLine(c, []group{{Flag: "-a", Arg: "always,exit"}, {Flag: "-F", Arg: "key=" + cur}})
			checkLine(c, []group{{Flag: "-a", Arg: "always,exit"}, {Flag: "-F", Arg: "path=/" + cur}, {Flag: "-k", Arg: "k"}})
			checkLine(c, []group{{Flag: "-a", Arg: "always,exit"}, {Flag: "-F", Arg: "uid=0"}, {Flag: "-F", Arg: "exe=" + cur + "/x"}})
		}
		if n == 5 {
			return
		}
		for _, a := range alpha {
			rec(cur+a, n+1)
		}
	}
	rec("", 0)
	// the empty word at every position of a few lines
	lines := [][]group{
		{{Flag: "-w", Arg: "/etc/shadow"}, {Flag: "-p", Arg: "wa"}, {Flag: "-k", Arg: "identity"}},
		{{Flag: "-a", Arg: "always,exit"}, {Flag: "-S", Arg: "open"}, {Flag: "-F", Arg: "auid>=1000"}, {Flag: "-k", Arg: "access"}},
		{{Flag: "-D", Bare: true}, {Flag: "-k", Arg: "x"}},
	}
	for _, l := range lines {
		for pos := 0; pos <= len(l); pos++ {
			for _, w := range []string{"", " ", "''"} {
				if !c.Mine() {
					continue
				}
				gs := append(append(append([]group{}, l[:pos]...), group{Arg: w}), l[pos:]...)
				checkLine(c, gs)
			}
		}
	}
	// values that are themselves quoted / escaped literals in some notation (Go, JSON, C, shell, URL, HTML): the
	// value is the text as written, nothing is unquoted or unescaped
	for _, v := range []string{`"abc"`, `"a b"`, `"a\tb"`, `"\x41"`, "`raw`", `'c'`, `'ab'`, `"`, `""`, `"a`, `a"`, `\"a\"`, `a\tb`, `a\nb`, `\x41`, `\101`, `\u0041`, `%41`, `%2Fetc`, `&amp;`, `&#65;`, `$HOME`, `${x}`, `$(id)`, "~root", `a\\b`, `[a]`, `{a,b}`, `a*`, `0x41`, `QUJD`, `=?utf-8?q?a?=`} {
		if !c.Mine() {
			continue
		}
		checkLine(c, []group{{Flag: "-a", Arg: "always,exit"}, {Flag: "-F", Arg: "exe=" + v}})
		checkLine(c, []group{{Flag: "-a", Arg: "always,exit"}, {Flag: "-F", Arg: "key=" + v}, {Flag: "-k", Arg: v}})
		checkLine(c, []group{{Flag: "-w", Arg: "/tmp/" + v}, {Flag: "-p", Arg: "wa"}, {Flag: "-k", Arg: v}})
		checkLine(c, []group{{Flag: "-a", Arg: "always,exit"}, {Flag: "-C", Arg: "uid!=" + v}})
		checkLine(c, []group{{Flag: "-a", Arg: "always,exit"}, {Flag: "-S", Arg: v}})
	}
	// the same lines with other separators between the words
	for _, l := range lines {
		for pos := 0; pos <= len(l); pos++ {
			if !c.Mine() {
				continue
			}
			checkLineSeps(c, l)
			gs := append(append(append([]group{}, l[:pos]...), group{Arg: "stray"}), l[pos:]...)
			checkLineSeps(c, gs)
			gs2 := append(append(append([]group{}, l[:pos]...), group{Flag: "-D", Bare: true}), l[pos:]...)
			checkLineSeps(c, gs2)
		}
	}
	c.Sample("-a always,exit -F key=team=sec,env=prod => ONE filter key = \"team=sec,env=prod\"")
}

// c14Environment: the words of a line are data, not templates: a reference to something of the calling process
// (an environment variable that IS set, the home directory, a user name) in any of the notations shells, make,
// systemd, Windows and template languages use stays the text that was written.  The variable names are those the
// process really has plus two set here (one whose value contains separators and operators).
func c14Environment(c *enumx.Ctx) {
	os.Setenv("VERIF_X", "a,b c=d")
	os.Setenv("VERIF_EMPTY", "")
	names := []string{}
	for _, kv := range os.Environ() {
		if i := strings.Index(kv, "="); i > 0 {
			names = append(names, kv[:i])
		}
	}
	names = append(names, "UNSET_VARIABLE_X", "1", "@", "*", "#", "?", "$", "!", "0", "_")
	forms := []func(n string) string{
		func(n string) string { return "$" + n }, func(n string) string { return "${" + n + "}" }, func(n string) string { return "%" + n + "%" },
		func(n string) string { return "$(" + n + ")" }, func(n string) string { return "${" + n + ":-z}" }, func(n string) string { return "${" + n + ":+z}" }, func(n string) string { return "${#" + n + "}" },
		func(n string) string { return "$ENV{" + n + "}" }, func(n string) string { return "{{" + n + "}}" }, func(n string) string { return "{{." + n + "}}" }, func(n string) string { return "{{ env \"" + n + "\" }}" },
		func(n string) string { return "%(" + n + ")s" }, func(n string) string { return "<" + n + ">" }, func(n string) string { return "%{" + n + "}" }, func(n string) string { return "$[" + n + "]" }, func(n string) string { return "@" + n + "@" },
		func(n string) string { return "$env:" + n }, func(n string) string { return "!" + n + "!" }, func(n string) string { return "`echo $" + n + "`" },
	}
	words := []string{"~", "~/x", "~root", "~root/x", "~+", "~-", "%h", "%u", "%H", "%%", "$$", "$", "${", "${}", "$()", "!!", "!$", "\\$HOME", "%n", "%s", "%d", "%v", "%[1]s", "{}", "{0}", "{name}", "#{x}", "<%= x %>", "&x;", "\\N{DIGIT ONE}"}
	for _, n := range names {
		for _, f := range forms {
			words = append(words, f(n))
		}
	}
	for _, w := range words {
		for _, v := range []string{w, "pre" + w + "post", w + "/" + w} {
			if !c.Mine() {
				continue
			}
			checkLine(c, []group{{Flag: "-w", Arg: "/srv/" + v}, {Flag: "-p", Arg: "wa"}, {Flag: "-k", Arg: v}})
			checkLine(c, []group{{Flag: "-a", Arg: "always,exit"}, {Flag: "-F", Arg: "path=/srv/" + v}, {Flag: "-F", Arg: "key=" + v}})
			checkLine(c, []group{{Flag: "-a", Arg: "always,exit"}, {Flag: "-S", Arg: v}, {Flag: "-C", Arg: "uid!=" + v}, {Flag: "-k", Arg: v}})
			checkLine(c, []group{{Flag: "-a", Arg: "always,exit"}, {Flag: "-F", Arg: v + "=1"}, {Flag: "-F", Arg: "exe=" + v}})
			checkLine(c, []group{{Flag: "-D", Bare: true}, {Flag: "-k", Arg: v}})
		}
	}
	c.Sample("-w '/srv/${HOME}' -p wa -k '${HOME}' => Path \"/srv/${HOME}\", key \"${HOME}\" (with HOME set in the process)")
}

// c14AddPairs: every list x action pair in both word orders as the argument of -a and of -A, alone and as every
// ordered pair of two such flags: one is a rule with exactly that list and action (or an error), two are an error
// - whichever values they carry (a value that happens to be the zero value of its representation is not "unset").
func c14AddPairs(c *enumx.Ctx) {
	var vals []string
	for _, l := range []string{"task", "exit", "user", "exclude"} {
		for _, a := range []string{"always", "never"} {
			vals = append(vals, l+","+a, a+","+l)
		}
	}
	tails := [][]group{{{Flag: "-S", Arg: "open"}}, {}, {{Flag: "-F", Arg: "uid=0"}, {Flag: "-k", Arg: "k"}}}
	for _, f1 := range []string{"-a", "-A"} {
		for _, v1 := range vals {
			for _, tl := range tails {
				if c.Mine() {
					checkLine(c, append([]group{{Flag: f1, Arg: v1}}, tl...))
					checkLine(c, append(append([]group{}, tl...), group{Flag: f1, Arg: v1}))
				}
			}
			for _, f2 := range []string{"-a", "-A"} {
				for _, v2 := range vals {
					if !c.Mine() {
						continue
					}
					checkLine(c, []group{{Flag: f1, Arg: v1}, {Flag: f2, Arg: v2}, {Flag: "-S", Arg: "open"}})
					checkLine(c, []group{{Flag: f1, Arg: v1}, {Flag: "-S", Arg: "open"}, {Flag: f2, Arg: v2}})
				}
			}
		}
	}
	c.Sample("-a task,always -A exit,never -S open => rejected (both -a and -A)")
}

// c14Requoting: pairs of lines that consist of the SAME characters apart from quoting: a valid line, then the line in
// which a run of its words is one quoted word (and the other way round).  Parsed one after the other in one process:
// each line means what ITS words say, whatever was parsed before (an answer remembered under a key that does not
// tell the two apart would show here).
func c14Requoting(c *enumx.Ctx) {
	bases := [][]group{
		{{Flag: "-w", Arg: "/var/log/app"}, {Flag: "-p", Arg: "wa"}, {Flag: "-k", Arg: "logs"}},
		{{Flag: "-D", Bare: true}, {Flag: "-k", Arg: "old"}, {Flag: "-k", Arg: "rules"}},
		{{Flag: "-a", Arg: "always,exit"}, {Flag: "-S", Arg: "open"}, {Flag: "-F", Arg: "auid>=1000"}, {Flag: "-k", Arg: "access"}},
		{{Flag: "-a", Arg: "always,exit"}, {Flag: "-F", Arg: "path=/etc/passwd"}, {Flag: "-F", Arg: "perm=wa"}, {Flag: "-k", Arg: "identity"}},
		{{Flag: "-A", Arg: "never,user"}, {Flag: "-F", Arg: "uid=0"}, {Flag: "-C", Arg: "uid!=euid"}},
		{{Flag: "-w", Arg: "/etc"}, {Flag: "-k", Arg: "a"}, {Flag: "-k", Arg: "b"}},
	}
	for _, b := range bases {
		var words []string
		for _, g := range b {
			words = append(words, g.tokens()...)
		}
		for i := 0; i < len(words); i++ {
			for j := i + 2; j <= len(words); j++ {
				if !c.Mine() {
					continue
				}
				// the line in which words[i:j] are ONE word
				merged := append(append(append([]string{}, words[:i]...), strings.Join(words[i:j], " ")), words[j:]...)
				mg := regroup(merged)
				for _, order := range [][2][]group{{b, mg}, {mg, b}} {
					checkLine(c, order[0])
					checkLine(c, order[1])
					checkLine(c, order[0])
				}
			}
		}
	}
	c.Sample("-w /var/log/app -p wa -k logs, then -w '/var/log/app -p wa -k logs' => the second line's path is the whole quoted word")
}

// regroup reads a word list the way the reference does: a flag takes the next word as its argument.
func regroup(words []string) []group {
	var out []group
	for i := 0; i < len(words); i++ {
		w := words[i]
		switch {
		case w == "-D" || w == "--":
			out = append(out, group{Flag: w, Bare: true})
		case len(w) == 2 && w[0] == '-' && strings.ContainsAny(w[1:], "aAFCSkpw") && i+1 < len(words):
			out = append(out, group{Flag: w, Arg: words[i+1]})
			i++
		default:
			out = append(out, group{Arg: w})
		}
	}
	return out
}

// c14Amounts: one flag repeated 2, 64, 255, 256, 257, 512, 65535, 65536 times, alone and next to one flag of another
// operation: what is on the line decides (the mix is an error however many times a flag occurs, every argument is
// reflected), amounts at the widths of small counters included.
func c14Amounts(c *enumx.Ctx) {
	many := []group{{Flag: "-F", Arg: "auid>=1000"}, {Flag: "-S", Arg: "open"}, {Flag: "-k", Arg: "k"}, {Flag: "-p", Arg: "r"}, {Flag: "-C", Arg: "uid!=euid"}, {Flag: "-D", Bare: true}}
	others := [][]group{nil, {{Flag: "-w", Arg: "/etc/passwd"}}, {{Flag: "-a", Arg: "always,exit"}}, {{Flag: "-a", Arg: "always,exit"}, {Flag: "-S", Arg: "open"}}, {{Flag: "-D", Bare: true}}, {{Flag: "-w", Arg: "/etc"}, {Flag: "-p", Arg: "wa"}}}
	for _, g := range many {
		for _, n := range []int{2, 64, 255, 256, 257, 512, 65535, 65536} {
			for oi, o := range others {
				if !c.Mine() {
					continue
				}
				if n > 600 && oi > 2 {
					continue
				}
				rep := make([]group, n)
				for i := range rep {
					rep[i] = g
				}
				checkLine(c, append(append([]group{}, o...), rep...))
				checkLine(c, append(append([]group{}, rep...), o...))
			}
		}
	}
	c.Sample("-w /etc/passwd followed by 256 x -F auid>=1000 => rejected (watch and syscall-rule flags mixed)")
}

// c14SpecialWords: words the flag package (not the rule grammar) gives a meaning of its own - the help flags -h -help
// --help --h, a lone dash, a double dash - and unknown flags, at every position of valid lines: a word that is not part
// of the rule makes the line an error, wherever it stands (also last).
func c14SpecialWords(c *enumx.Ctx) {
	bases := [][]group{
		{{Flag: "-w", Arg: "/etc/passwd"}, {Flag: "-p", Arg: "wa"}, {Flag: "-k", Arg: "identity"}},
		{{Flag: "-a", Arg: "always,exit"}, {Flag: "-S", Arg: "open"}, {Flag: "-F", Arg: "auid>=1000"}},
		{{Flag: "-D", Bare: true}},
		{{Flag: "-D", Bare: true}, {Flag: "-k", Arg: "x"}},
	}
	for _, b := range bases {
		for _, w := range []string{"-h", "-help", "--help", "--h", "-?", "-v", "--version", "-x", "-", "-H", "-hh", "--help=true", "-h=1", "-help=false"} {
			for pos := 0; pos <= len(b); pos++ {
				if !c.Mine() {
					continue
				}
				gs := append(append(append([]group{}, b[:pos]...), group{Arg: w}), b[pos:]...)
				checkLine(c, gs)
			}
		}
	}
	c.Sample("-w /etc/passwd -p wa -k identity -h => rejected (a word that is not part of the rule)")
}

func c14Lines(c *enumx.Ctx) {
	maxLen := 3
	if c.Tier == "thorough" {
		maxLen = 4
	}
	var rec func(cur []group)
	rec = func(cur []group) {
		if len(cur) > 0 && c.Mine() {
			checkLine(c, cur)
		}
		if len(cur) == maxLen {
			return
		}
		for _, g := range groupMenu {
			rec(append(append([]group{}, cur...), g))
		}
	}
	rec(nil)
	c.Sample("-a always,exit -F 'path=/tmp/my file' -k k1  => filter (path = \"/tmp/my file\") or rejection")
}

func init() {
	gens["c14-lines"] = c14Lines
	gens["c14-paths"] = c14Paths
	gens["c14-syntax"] = c14Syntax
	gens["c14-runes"] = c14Runes
	gens["c14-fvalues"] = c14FValues
	gens["c14-environment"] = c14Environment
	gens["c14-addpairs"] = c14AddPairs
	gens["c14-requoting"] = c14Requoting
	gens["c14-amounts"] = c14Amounts
	gens["c14-specialwords"] = c14SpecialWords
}
