package main

import (
	"unicode"
	"unicode/utf8"

	"bytes"
	"fmt"
	"os"
	"strings"

	"github.com/elastic/go-libaudit/v2/rule"

	"verif/engine/enumx"
)

// watchShaped: all syscalls + a perm filter + only path/dir/key besides it.
func watchShaped(s spec) (shaped bool, agrees bool) {
	if len(s.Syscalls) != 0 {
		for _, a := range s.Syscalls {
			if a != "all" {
				return false, true
			}
		}
	}
	hasPerm := false
	agrees = true
	for _, f := range s.Filters {
		if f.C {
			return false, true
		}
		switch f.L {
		case "perm":
			hasPerm = true
		case "path":
			if st, err := os.Stat(f.R); err == nil && st.IsDir() {
				agrees = false
			}
		case "dir":
			if st, err := os.Stat(f.R); err != nil || !st.IsDir() {
				agrees = false
			}
		case "key":
		default:
			return false, true
		}
	}
	return hasPerm, agrees
}

func inC07Domain(s spec) bool {
	for _, f := range s.Filters {
		if stringFields[f.L] && strings.ContainsAny(f.R, " \t\n\"'") {
			return false
		}
	}
	for _, k := range s.Keys {
		if strings.ContainsAny(k, " \t\n\"'") {
			return false
		}
	}
	if shaped, agrees := watchShaped(s); shaped && !agrees {
		return false
	}
	return true
}

func classOf(s spec) string {
	// names the feature of the rule a round-trip failure is attributed to
	if shaped, _ := watchShaped(s); shaped {
		return "watch-shaped"
	}
	if len(s.Filters) == 1 {
		f := s.Filters[0]
		if f.C {
			return "-C"
		}
		return f.L
	}
	if len(s.Syscalls) > 0 && len(s.Filters) <= 1 {
		return "syscall"
	}
	nArch, firstArch := 0, -1
	for i, f := range s.Filters {
		if !f.C && f.L == "arch" {
			nArch++
			if firstArch < 0 {
				firstArch = i
			}
		}
	}
	if nArch > 1 {
		return "arch-filter-repeated"
	}
	if nArch == 1 && firstArch > 0 {
		return "arch-filter-not-first"
	}
	return "multi"
}

func roundTrip(c *enumx.Ctx, line string, class string, detail string) {
	c.Begin(func() string { return line })
	c.Try("C07", func() {
		_, w1, err := build(line)
		if err != nil {
			c.Count("rejected", 1)
			return
		}
		txt, err := rule.ToCommandLine(rule.WireFormat(w1), false)
		if err != nil {
			c.Report("C07 tocommandline-error:"+class+detail, fmt.Sprintf("rule %q was built but ToCommandLine on its wire form fails: %v", line, err), nil)
			return
		}
		_, w2, err := build(txt)
		if err != nil {
			c.Report("C07 printed-text-rejected:"+class+detail, fmt.Sprintf("rule %q is listed as %q, which Parse/Build reject: %v", line, txt, err), nil)
			return
		}
		if !bytes.Equal(w1, w2) {
			d1, _ := decodeWire(w1)
			d2, _ := decodeWire(w2)
			c.Report("C07 reencode-differs:"+class+detail, fmt.Sprintf("rule %q is listed as %q, which re-encodes to a different rule: %s", line, txt, diffWire(d1, d2)), nil)
			return
		}
		txt2, err := rule.ToCommandLine(rule.WireFormat(w2), false)
		if err != nil || txt2 != txt {
			c.Report("C07 text-not-stable:"+class+detail, fmt.Sprintf("rule %q: first listing %q, second listing %q (%v)", line, txt, txt2, err), nil)
			return
		}
		c.Nontrivial()
	})
}

func diffWire(a, b *wireRule) string {
	var d []string
	if a.Flags != b.Flags {
		d = append(d, fmt.Sprintf("flags %d->%d", a.Flags, b.Flags))
	}
	if a.Action != b.Action {
		d = append(d, fmt.Sprintf("action %d->%d", a.Action, b.Action))
	}
	if a.FieldCount != b.FieldCount {
		d = append(d, fmt.Sprintf("field_count %d->%d", a.FieldCount, b.FieldCount))
	}
	for i := 0; i < 64; i++ {
		if a.Fields[i] != b.Fields[i] || a.Values[i] != b.Values[i] || a.FFlags[i] != b.FFlags[i] {
			d = append(d, fmt.Sprintf("field[%d] (%d,%#x,%d)->(%d,%#x,%d)", i, a.Fields[i], a.FFlags[i], a.Values[i], b.Fields[i], b.FFlags[i], b.Values[i]))
		}
	}
	if a.Mask != b.Mask {
		d = append(d, fmt.Sprintf("mask %v->%v", nonzero(a.Mask), nonzero(b.Mask)))
	}
	if string(a.Buf) != string(b.Buf) {
		d = append(d, fmt.Sprintf("buf %q->%q", a.Buf, b.Buf))
	}
	if len(d) > 6 {
		d = d[:6]
	}
	return strings.Join(d, "; ")
}

func init() {
	gens["c07-rules"] = func(c *enumx.Ctx) {
		forRuleSpecs(c, func(c *enumx.Ctx, s spec) {
			if !inC07Domain(s) {
				return
			}
			detail := ""
			if len(s.Filters) == 1 && !s.Filters[0].C {
				// attribute by value shape so that distinct defects get distinct signatures
				f := s.Filters[0]
				switch {
				case f.L == "arch" && f.Op == "!=":
					detail = " op!="
				case (uidFields[f.L] || gidFields[f.L]):
					if v, ok := expectedValue(f.L, f.R); ok && v >= 1<<31 {
						detail = " value>=2^31"
					}
				case f.L == "msgtype":
					if v, ok := expectedValue(f.L, f.R); ok && v > 65535 {
						detail = " value>65535"
					}
				}
			}
			if classOf(s) == "syscall" {
				detail = syscallDetail(s)
			}
			roundTrip(c, s.line(), classOf(s), detail)
		})
		c.Sample("-a always,exit -F arch=b64 -S open -F auid>=1000 -k k => ToCommandLine => Parse+Build => identical bytes => same text")
	}
	gens["c07-big"] = func(c *enumx.Ctx) {
		for _, l := range bigRuleLines() {
			if !c.Mine() {
				continue
			}
			roundTrip(c, l, "big", "")
		}
		dir, cleanup := scratch()
		defer cleanup()
		for _, l := range keyListLines(dir) {
			if !c.Mine() {
				continue
			}
			roundTrip(c, l, "key-list", "")
		}
		c.Sample("-a always,exit -S 2 -F dir=/aaa...(4000) -F exe=/bbb...(4000) => listed text re-encodes to the same 9 KiB rule")
	}
	gens["c07-runes"] = func(c *enumx.Ctx) {
		// multi-byte text inside string values and keys (invisible characters, letters, malformed
		// UTF-8); white space and control bytes are outside the stated domain
		for _, r := range enumx.HostileRunes {
			skip := false
			for _, ch := range r {
				if unicode.IsSpace(ch) || (ch < 0x20 && ch != utf8.RuneError) || ch == 0x7f {
					skip = true
				}
			}
			if skip || strings.ContainsAny(r, "\x00") {
				continue
			}
			for _, l := range []string{
				"-a always,exit -S 2 -F exe=/opt/a" + r + "b -k k",
				"-a always,exit -F subj_user=u" + r + " -F auid>=1000",
				"-a never,exit -S open -F uid=0 -k " + r + "key",
				"-a always,exit -F dir=/srv/" + r + r + "/x -k a" + r + "b -k c",
			} {
				if !c.Mine() {
					continue
				}
				roundTrip(c, l, "runes", "")
			}
		}
	}
	gens["c07-literals"] = func(c *enumx.Ctx) {
		// free-text values (keys, string filters, watch paths) that READ like something else: integer literals of every
		// notation, floats, booleans, null words, field / syscall / list / operator names, flags: text stays text in every place
		// a key or string value can stand (watch -k, -F key=, -k on a syscall rule, string filters)
		words := []string{"0x10", "0X1f", "0b101", "0B11", "0o17", "0O7", "017", "1_000", "0x_ff", "+5", "-5", "1e3", "1.0", ".5", "0x1p4", "1E2", "00", "0", "007", "4294967296", "18446744073709551616", "-1", "0x", "0b", "١٢",
			"true", "false", "null", "nil", "none", "NaN", "inf", "unset", "all", "open", "always", "exit", "task", "uid", "key", "path", "dir", "perm", "arch", "b64", "b32", "rwxa", "wa", "SYSCALL", "EPERM", "-EPERM", "root",
			"-k", "-w", "-p", "-S", "-F", "-a", "--", "-", "k=v", "a!=b", "a&b", "a<=b", "x,y"}
		dir, cleanup := scratch()
		defer cleanup()
		for _, w := range words {
			if !c.Mine() {
				continue
			}
			_ = os.WriteFile(dir+"/"+w, []byte("x"), 0o644)
			kw := w
			if strings.Contains(kw, ",") {
				kw = strings.ReplaceAll(kw, ",", ".") // a comma separates keys on the command line (recorded known finding for watches)
			}
			for _, l := range []string{
				"-w " + dir + "/f -p wa -k " + shq(kw),
				"-w " + dir + "/d -p r -k " + shq(kw) + " -k other",
				"-w " + shq(dir+"/"+w) + " -p wa",
				"-a always,exit -F path=" + dir + "/f -F perm=wa -F key=" + kw,
				"-a always,exit -F dir=" + dir + "/d -F perm=x -F key=" + kw,
				"-a always,exit -S open -F uid=0 -k " + shq(kw),
				"-a never,exit -S all -F key=" + w,
				"-a always,exit -S open -F exe=/bin/" + w + " -F subj_user=" + w + " -F obj_type=" + w,
			} {
				roundTrip(c, l, "literal-looking", "")
			}
		}
	}
	gens["c07-watches"] = func(c *enumx.Ctx) {
		dir, cleanup := scratch()
		defer cleanup()
		forWatchSpecs(c, dir, func(c *enumx.Ctx, w watchSpec) { roundTrip(c, w.line(), "watch", "") })
		// names that change their kind while the process lives: the watch, and the watch-shaped rule that agrees with
		// the file system as it is NOW, round-trip after every change
		forWatchHistories(c, dir, func(c *enumx.Ctx, w watchSpec) {
			roundTrip(c, w.line(), "watch", " after-change:"+w.Kind)
			fld := "path"
			if watchIsDir(w.Kind) {
				fld = "dir"
			}
			roundTrip(c, "-a always,exit -S all -F "+fld+"="+w.Path+" -F perm="+w.Perms, "watch-shaped", " after-change:"+w.Kind)
			withoutDescriptors(func() {
				roundTrip(c, "-a always,exit -F "+fld+"="+w.Path+" -F perm="+w.Perms+" -F key=k", "watch-shaped", " no-descriptors:"+w.Kind)
			})
		})
		// watch-shaped syscall rules: perm + path/dir + optional key in every field order, !=, never, no path
		// the same through links: dir= a link to a directory, path= a link to a file (inside the stated
		// domain: stat says directory / non-directory)
		for _, l := range []string{"-a always,exit -F dir=" + dir + "/ld -F perm=wa", "-a always,exit -F dir=" + dir + "/lld -F perm=r -F key=k", "-a always,exit -F path=" + dir + "/lf -F perm=wa", "-a always,exit -F path=" + dir + "/ldangling -F perm=x", "-w " + dir + "/ld -p wa", "-w " + dir + "/lf -p r -k k"} {
			if !c.Mine() {
				continue
			}
			roundTrip(c, l, "watch-shaped", " through-symlink")
		}
		// every printable ASCII character (but white space, quotes, backslash - outside the stated domain -
		// and '/') in the name of an existing file / directory, in a key: as a watch and as the
		// watch-shaped -a rule that is listed in the -w form
		for ch := 0x21; ch <= 0x7e; ch++ {
			if strings.ContainsRune("\"'\\/", rune(ch)) {
				continue
			}
			fn, dn := dir+"/f"+string(rune(ch))+"x", dir+"/d"+string(rune(ch))+"x"
			_ = os.WriteFile(fn, []byte("x"), 0o644)
			_ = os.Mkdir(dn, 0o755)
			key := "k" + string(rune(ch)) + "y"
			if ch == ',' {
				key = "ky" // a comma separates keys on the command line (recorded known finding for watches)
			}
			// ... and as the FIRST and as the LAST byte of the key (comment signs, option dashes, sigils)
			if ch != ',' && ch != '-' {
				for _, k2 := range []string{string(rune(ch)) + "ky", "ky" + string(rune(ch)), string(rune(ch))} {
					for _, l := range []string{
						"-a always,exit -F path=" + fn + " -F perm=wa -F key=" + k2,
						"-a always,exit -F dir=" + dn + " -F perm=r -F key=" + k2,
						"-a always,exit -S open -F uid=0 -F key=" + k2,
					} {
						if !c.Mine() {
							continue
						}
						roundTrip(c, l, "watch-shaped", " punctuation-at-key-edge")
					}
				}
			}
			for _, l := range []string{
				"-a always,exit -F path=" + fn + " -F perm=wa -F key=" + key,
				"-a always,exit -F dir=" + dn + " -F perm=r",
				"-w " + fn + " -p wa -k " + key,
				"-w " + dn + " -p x",
				"-a always,exit -S open -F exe=" + fn + " -k " + key,
			} {
				if !c.Mine() {
					continue
				}
				roundTrip(c, l, "watch-shaped", " punctuation-in-name")
			}
		}
		f, d := dir+"/f", dir+"/d"
		parts := map[string]string{"perm": "-F perm=wa", "path": "-F path=" + f, "dir": "-F dir=" + d, "key": "-F key=wk", "pathne": "-F path!=" + f}
		orders := [][]string{{"perm", "path"}, {"path", "perm"}, {"perm", "dir"}, {"dir", "perm"}, {"perm", "path", "key"}, {"path", "perm", "key"}, {"key", "path", "perm"}, {"perm", "key", "path"}, {"key", "perm", "path"}, {"path", "key", "perm"},
			{"perm"}, {"perm", "key"}, {"key", "perm"}, {"perm", "pathne"}, {"pathne", "perm"}, {"perm", "path", "dir"}, {"path", "path", "perm"}, {"perm", "perm", "path"}}
		for _, o := range orders {
			for _, act := range []string{"always", "never"} {
				for _, tail := range []string{"", " -S all", " -k k2"} {
					for _, add := range []string{"-a", "-A"} {
						if !c.Mine() {
							continue
						}
						var p []string
						for _, x := range o {
							p = append(p, parts[x])
						}
						line := add + " " + act + ",exit " + strings.Join(p, " ") + tail
						detail := " order=" + strings.Join(o, ",")
						if act == "never" {
							detail += " never"
						}
						if add == "-A" {
							detail += " prepend"
						}
						roundTrip(c, line, "watch-shaped", detail)
					}
				}
			}
		}
	}
}

// bigRuleLines: rules that carry a LOT of string data in total while every single string stays
// within what Build allows: k string-valued filters of equal length L (+ a maximal key).  Limits
// on the whole rule (message size 8970, page size, 64 KiB) are crossed by sums, not by one string.
// keyListLines: several keys whose JOINED length approaches and crosses the limit a single key has (256): what Build
// accepts lists as text that Build accepts again.
func keyListLines(dir string) []string {
	var out []string
	for _, sh := range [][2]int{{2, 100}, {2, 127}, {2, 128}, {2, 129}, {2, 150}, {2, 255}, {2, 256}, {3, 84}, {3, 85}, {3, 86}, {4, 63}, {4, 64}, {16, 15}, {16, 16}, {26, 9}, {26, 10}, {64, 3}, {64, 4}, {100, 2}, {129, 1}} {
		var ks []string
		for i := 0; i < sh[0]; i++ {
			ks = append(ks, "-k "+strings.Repeat(string(rune('a'+i%26)), sh[1]))
		}
		k := strings.Join(ks, " ")
		out = append(out, "-a always,exit -S open -F uid=0 "+k, "-w "+dir+"/f -p wa "+k, "-a always,exit -F dir="+dir+"/d -F perm=r "+k, "-a never,task "+k)
	}
	return out
}

func bigRuleLines() []string {
	fields := []string{"dir", "exe", "subj_user", "subj_role", "subj_type", "obj_user", "obj_role", "obj_type"}
	var out []string
	// 1..8 distinct fields, then counts up to the 64 a rule can carry (fields repeat): sums of per-string
	// quantities cross 2^15, 2^16 and 2^17 while every single string stays small
	for _, k := range []int{1, 2, 3, 4, 5, 6, 7, 8, 12, 15, 16, 17, 20, 24, 31, 32, 33, 48, 60, 62, 63, 64} {
		for _, L := range []int{255, 256, 1000, 1500, 2000, 2700, 3000, 4000, 4095, 4096} {
			if k > 8 && L != 256 && L != 1000 && L != 2000 && L != 4000 && L != 4096 {
				continue
			}
			for _, key := range []int{0, 256} {
				var p []string
				for i := 0; i < k; i++ {
					v := "/" + strings.Repeat(string(rune('a'+i%26)), L-1)
					op := "="
					if i%3 == 2 {
						op = "!="
					}
					p = append(p, "-F "+fields[i%len(fields)]+op+v)
				}
				line := "-a always,exit -S 2 " + strings.Join(p, " ")
				if key > 0 {
					line += " -k " + strings.Repeat("k", key)
				}
				out = append(out, line)
			}
		}
	}
	return out
}

func syscallDetail(s spec) string {
	arch := ""
	for _, f := range s.Filters {
		if f.L == "arch" {
			arch = " arch=" + f.R
			if f.R != "b64" && f.R != "b32" {
				arch = " arch=foreign"
			}
		}
	}
	if len(s.Syscalls) == 1 {
		if _, err := fmt.Sscanf(s.Syscalls[0], "%d", new(int)); err == nil && !strings.Contains(s.Syscalls[0], ",") {
			return arch + " by-number"
		}
	}
	return arch + " by-name"
}
