package main

import (
	"runtime/debug"

	"encoding/binary"
	"fmt"
	"runtime"
	"sort"
	"strconv"
	"strings"

	"github.com/elastic/go-libaudit/v2/rule"
	"github.com/elastic/go-libaudit/v2/rule/flags"

	"verif/engine/enumx"
	"verif/engine/guard"
)

// allocMeter measures bytes allocated by f.
func allocMeter(f func()) uint64 {
	var a, b runtime.MemStats
	runtime.ReadMemStats(&a)
	f()
	runtime.ReadMemStats(&b)
	return b.TotalAlloc - a.TotalAlloc
}

const allocSlack = 1 << 20 // 1 MiB

type foreignRule struct{}

func (foreignRule) TypeOf() rule.Type { return rule.AppendSyscallRuleType }

func checkBuildTotal(c *enumx.Ctx, desc string, r rule.Rule, inputSize int) {
	c.Begin(func() string { return "Build(" + desc + ")" })
	c.Try("C13 Build", func() {
		var w rule.WireFormat
		var err error
		before := fmt.Sprintf("%#v", deref(r))
		n := allocMeter(func() { w, err = rule.Build(r) })
		if after := fmt.Sprintf("%#v", deref(r)); after != before {
			c.Report("C13 build-modifies-input", fmt.Sprintf("Build(%s) modified the Rule it was given: %s -> %s", desc, trunc(before), trunc(after)), nil)
			return
		}
		if w2, err2 := rule.Build(r); (err2 == nil) != (err == nil) || string(w2) != string(w) {
			c.Report("C13 build-not-repeatable", fmt.Sprintf("Build(%s) twice gave (%d bytes, %v) then (%d bytes, %v)", desc, len(w), err, len(w2), err2), nil)
			return
		}
		if (w == nil) == (err == nil) {
			c.Report("C13 build-value-xor-error", fmt.Sprintf("Build(%s) = (%d bytes, %v): want wire data xor error", desc, len(w), err), nil)
			return
		}
		if n > uint64(allocSlack+64*inputSize) {
			c.Report("C13 build-allocation", fmt.Sprintf("Build(%s) allocated %d bytes for an input of %d bytes", desc, n, inputSize), nil)
			return
		}
		if err == nil {
			// whatever Build emits must be structurally valid for the independent decoder
			d, derr := decodeWire(w)
			if derr != nil || d.FieldCount > 64 || int(d.BufLen) > len(w)-hdrSize {
				c.Report("C13 build-emits-invalid", fmt.Sprintf("Build(%s) emitted a structurally invalid rule: %v field_count=%d buflen=%d len=%d", desc, derr, d.FieldCount, d.BufLen, len(w)), nil)
				return
			}
			c.Nontrivial()
		}
	})
}

func deref(r rule.Rule) interface{} {
	switch v := r.(type) {
	case *rule.SyscallRule:
		if v != nil {
			return *v
		}
	case *rule.FileWatchRule:
		if v != nil {
			return *v
		}
	case *rule.DeleteAllRule:
		if v != nil {
			return *v
		}
	}
	return r
}

func c13Structs(c *enumx.Ctx) {
	lists := []string{"exit", "task", "user", "exclude", "", "bogus", "entry", "EXIT"}
	actions := []string{"always", "never", "", "bogus", "possible"}
	filters := []rule.FilterSpec{
		{Type: rule.ValueFilterType, LHS: "auid", Comparator: ">=", RHS: "1000"}, {Type: rule.ValueFilterType, LHS: "path", Comparator: "=", RHS: "/etc/passwd"},
		{Type: rule.ValueFilterType, LHS: "perm", Comparator: "=", RHS: "wa"}, {Type: rule.ValueFilterType, LHS: "perm", Comparator: "=", RHS: "q"}, {Type: rule.ValueFilterType, LHS: "arch", Comparator: "=", RHS: "b64"},
		{Type: rule.ValueFilterType, LHS: "arch", Comparator: "=", RHS: ""}, {Type: rule.ValueFilterType, LHS: "", Comparator: "=", RHS: "1"}, {Type: rule.ValueFilterType, LHS: "uid", Comparator: "", RHS: "1"},
		{Type: rule.ValueFilterType, LHS: "uid", Comparator: "==", RHS: "1"}, {Type: rule.ValueFilterType, LHS: "uid", Comparator: "=", RHS: ""}, {Type: rule.ValueFilterType, LHS: "uid", Comparator: "=", RHS: "nosuchuser_xyz"},
		{Type: rule.ValueFilterType, LHS: "uid", Comparator: "=", RHS: "99999999999999999999"}, {Type: rule.ValueFilterType, LHS: "gid", Comparator: "=", RHS: "-5"}, {Type: rule.ValueFilterType, LHS: "exit", Comparator: "=", RHS: "-EPERM"},
		{Type: rule.ValueFilterType, LHS: "exit", Comparator: "=", RHS: "-"}, {Type: rule.ValueFilterType, LHS: "exit", Comparator: "=", RHS: ""}, {Type: rule.ValueFilterType, LHS: "msgtype", Comparator: "=", RHS: "UNKNOWN[99999]"},
		{Type: rule.ValueFilterType, LHS: "msgtype", Comparator: "=", RHS: "UNKNOWN["}, {Type: rule.ValueFilterType, LHS: "filetype", Comparator: "=", RHS: ""}, {Type: rule.ValueFilterType, LHS: "a0", Comparator: "&", RHS: "0xffffffffff"},
		{Type: rule.ValueFilterType, LHS: "a3", Comparator: "&=", RHS: "-"}, {Type: rule.ValueFilterType, LHS: "key", Comparator: "=", RHS: strings.Repeat("k", 256)}, {Type: rule.ValueFilterType, LHS: "key", Comparator: "=", RHS: strings.Repeat("k", 257)},
		{Type: rule.ValueFilterType, LHS: "exe", Comparator: "=", RHS: strings.Repeat("p", 4096)}, {Type: rule.ValueFilterType, LHS: "exe", Comparator: "=", RHS: strings.Repeat("p", 4097)}, {Type: rule.ValueFilterType, LHS: "dir", Comparator: "=", RHS: "\x00"},
		{Type: rule.ValueFilterType, LHS: "saddr_fam", Comparator: "=", RHS: "3"}, {Type: rule.ValueFilterType, LHS: "inode", Comparator: ">", RHS: "1"}, {Type: rule.ValueFilterType, LHS: "sessionid", Comparator: "=", RHS: "1"},
		{Type: rule.InterFieldFilterType, LHS: "uid", Comparator: "=", RHS: "euid"}, {Type: rule.InterFieldFilterType, LHS: "uid", Comparator: "<", RHS: "euid"}, {Type: rule.InterFieldFilterType, LHS: "uid", Comparator: "=", RHS: "gid"},
		{Type: rule.InterFieldFilterType, LHS: "", Comparator: "=", RHS: ""}, {Type: rule.InterFieldFilterType, LHS: "pid", Comparator: "=", RHS: "ppid"}, {Type: rule.InterFieldFilterType, LHS: "uid", Comparator: "=", RHS: "uid"},
		{Type: 0, LHS: "uid", Comparator: "=", RHS: "0"}, {Type: 99, LHS: "uid", Comparator: "=", RHS: "0"}, {Type: 0}, {Type: rule.ValueFilterType, LHS: "obj_lev_high", Comparator: "!=", RHS: ""}, {Type: rule.ValueFilterType, LHS: "success", Comparator: "=", RHS: "yes"},
	}
	// every field that takes a NAME or a number: every string of <=4 characters over the punctuation such parsers
	// look for ([ ] - + 0 x E U , :), plus long and odd words
	var odd []string
	var build func(cur string, n int)
	build = func(cur string, n int) {
		if cur != "" {
			odd = append(odd, cur)
		}
		if n == 4 {
			return
		}
		for _, ch := range []string{"[", "]", "-", "1", "U", "x", ","} {
			build(cur+ch, n+1)
		}
	}
	build("", 0)
	odd = append(odd, "UNKNOWN[", "]UNKNOWN[", "a]b[1329]", "UNKNOWN[1329", "UNKNOWN]1329[", "UNKNOWN[[1]]", "UNKNOWN[-1]", "UNKNOWN[99999999999999999999]", "-E", "-EPERM-", "E", "--1", "0x", "0x-1", "+-1")
	for _, fld := range []string{"msgtype", "exit", "arch", "filetype", "uid", "a0", "perm", "success"} {
		for _, v := range odd {
			for _, l := range []string{"exit", "user", "exclude"} {
				if !c.Mine() {
					continue
				}
				f := rule.FilterSpec{Type: rule.ValueFilterType, LHS: fld, Comparator: "=", RHS: v}
				checkBuildTotal(c, fmt.Sprintf("SyscallRule{%q,always,%s=%q}", l, fld, v), &rule.SyscallRule{Type: rule.AppendSyscallRuleType, List: l, Action: "always", Filters: []rule.FilterSpec{f}}, 64)
			}
		}
	}
	syscalls := []string{"", "0", "open", "all", "2047", "2048", "2049", "2079", "2080", "4095", "65535", "-1", "2147483647", "2147483648", "4294967295", "4294967296", "4294967328", "9223372036854775807", "9223372036854775808", "nosuch", "1e3", " 1", "0x10"}
	// single filter / single syscall on every list x action
	for _, l := range lists {
		for _, a := range actions {
			for fi, f := range filters {
				if !c.Mine() {
					continue
				}
				checkBuildTotal(c, fmt.Sprintf("SyscallRule{%q,%q,filter#%d %v}", l, a, fi, f), &rule.SyscallRule{Type: rule.AppendSyscallRuleType, List: l, Action: a, Filters: []rule.FilterSpec{f}}, 64)
			}
			for _, s := range syscalls {
				if !c.Mine() {
					continue
				}
				checkBuildTotal(c, fmt.Sprintf("SyscallRule{%q,%q,syscall %q}", l, a, s), &rule.SyscallRule{Type: rule.AppendSyscallRuleType, List: l, Action: a, Syscalls: []string{s}}, 64)
			}
		}
	}
	// pairs of syscalls, pairs of filters
	for _, a := range syscalls {
		for _, b := range syscalls {
			if !c.Mine() {
				continue
			}
			checkBuildTotal(c, fmt.Sprintf("SyscallRule{exit,always,syscalls %q,%q}", a, b), &rule.SyscallRule{Type: rule.AppendSyscallRuleType, List: "exit", Action: "always", Syscalls: []string{a, b}}, 64)
		}
	}
	for i, a := range filters {
		for j, b := range filters {
			if !c.Mine() {
				continue
			}
			checkBuildTotal(c, fmt.Sprintf("SyscallRule{exit,always,filters #%d,#%d}", i, j), &rule.SyscallRule{Type: rule.PrependSyscallRuleType, List: "exit", Action: "always", Filters: []rule.FilterSpec{a, b}}, 128)
		}
	}
	// filter counts
	for _, n := range []int{0, 1, 62, 63, 64, 65, 66, 200} {
		for _, nk := range []int{0, 1, 2} {
			for _, strs := range []bool{false, true} {
				if !c.Mine() {
					continue
				}
				var fs []rule.FilterSpec
				for i := 0; i < n; i++ {
					if strs {
						fs = append(fs, rule.FilterSpec{Type: rule.ValueFilterType, LHS: "exe", Comparator: "=", RHS: strings.Repeat("e", 4096)})
					} else {
						fs = append(fs, rule.FilterSpec{Type: rule.ValueFilterType, LHS: "a1", Comparator: "=", RHS: strconv.Itoa(i)})
					}
				}
				var keys []string
				for i := 0; i < nk; i++ {
					keys = append(keys, "k"+strconv.Itoa(i))
				}
				checkBuildTotal(c, fmt.Sprintf("SyscallRule{%d filters (strings=%v), %d keys}", n, strs, nk), &rule.SyscallRule{Type: rule.AppendSyscallRuleType, List: "exit", Action: "always", Filters: fs, Keys: keys}, 64+n*4200)
			}
		}
	}
	// keys
	for _, k := range [][]string{nil, {""}, {strings.Repeat("k", 256)}, {strings.Repeat("k", 257)}, {strings.Repeat("k", 128), strings.Repeat("j", 127)}, {strings.Repeat("k", 128), strings.Repeat("j", 128)}, {strings.Repeat("k", 4096)}, {strings.Repeat("k", 4097)}, {"a", "b", "c", "d"}, {"\x01"}, {"a\x00b"}} {
		if !c.Mine() {
			continue
		}
		sz := 0
		for _, x := range k {
			sz += len(x)
		}
		checkBuildTotal(c, fmt.Sprintf("SyscallRule{keys lens %d total}", sz), &rule.SyscallRule{Type: rule.AppendSyscallRuleType, List: "exit", Action: "always", Keys: k}, sz)
		checkBuildTotal(c, fmt.Sprintf("FileWatchRule{/etc, keys lens %d total}", sz), &rule.FileWatchRule{Type: rule.FileWatchRuleType, Path: "/etc", Keys: k}, sz)
	}
	// file watches
	paths := []string{"/etc/passwd", "/", "", ".", "relative/path", "../x", "//etc//passwd/", "/" + strings.Repeat("p", 4094), "/" + strings.Repeat("p", 4095), "/" + strings.Repeat("p", 4096), "/a\x00b", "/nonexistent/dir/", "/tmp"}
	var permSets [][]rule.AccessType
	for _, a := range []rule.AccessType{0, 1, 2, 3, 4, 5, 99} {
		permSets = append(permSets, []rule.AccessType{a})
		for _, b := range []rule.AccessType{0, 1, 4, 99} {
			permSets = append(permSets, []rule.AccessType{a, b})
		}
	}
	permSets = append(permSets, nil, []rule.AccessType{1, 1, 1, 1, 1, 1, 1, 1})
	for _, p := range paths {
		for _, ps := range permSets {
			if !c.Mine() {
				continue
			}
			checkBuildTotal(c, fmt.Sprintf("FileWatchRule{%q,%v}", trunc(p), ps), &rule.FileWatchRule{Type: rule.FileWatchRuleType, Path: p, Permissions: ps}, len(p))
		}
	}
	// file watches on what is ON DISK: links, loops, links below files
	wdir, cleanup := scratch()
	for _, rel := range []string{"f", "d", "nope", "ld", "lf", "ldangling", "lloop", "lnotdir", "lld", "lloop/x", "f/x", "ld/", "lf/", "fifo", "lfifo", "sock", "fifo/x"} {
		if !c.Mine() {
			continue
		}
		checkBuildTotal(c, "FileWatchRule{scratch/"+rel+"}", &rule.FileWatchRule{Type: rule.FileWatchRuleType, Path: wdir + "/" + rel, Permissions: []rule.AccessType{rule.WriteAccessType}}, 64)
		checkBuildTotal(c, "SyscallRule{dir=scratch/"+rel+"}", &rule.SyscallRule{Type: rule.AppendSyscallRuleType, List: "exit", Action: "always", Filters: []rule.FilterSpec{{Type: rule.ValueFilterType, LHS: "dir", Comparator: "=", RHS: wdir + "/" + rel}, {Type: rule.ValueFilterType, LHS: "perm", Comparator: "=", RHS: "wa"}}}, 64)
	}
	cleanup()
	// devices and kernel files that exist everywhere
	for _, abs := range []string{"/dev/null", "/dev/zero", "/dev/full", "/dev/tty", "/dev/stdin", "/proc/self/mem", "/proc/self/exe", "/proc/kmsg", "/sys/kernel"} {
		if !c.Mine() {
			continue
		}
		checkBuildTotal(c, "FileWatchRule{"+abs+"}", &rule.FileWatchRule{Type: rule.FileWatchRuleType, Path: abs, Permissions: []rule.AccessType{rule.ReadAccessType}}, 64)
	}
	// other Rule values
	for _, r := range []struct {
		d string
		r rule.Rule
	}{{"DeleteAllRule{}", &rule.DeleteAllRule{Type: rule.DeleteAllRuleType}}, {"DeleteAllRule{keys}", &rule.DeleteAllRule{Type: rule.DeleteAllRuleType, Keys: []string{"k"}}}, {"foreign Rule type", foreignRule{}}, {"nil Rule", nil},
		{"SyscallRule{}", &rule.SyscallRule{}}, {"FileWatchRule{}", &rule.FileWatchRule{}}, {"SyscallRule{Type:99}", &rule.SyscallRule{Type: 99, List: "exit", Action: "always"}}} {
		if !c.Mine() {
			continue
		}
		checkBuildTotal(c, r.d, r.r, 16)
	}
	c.Sample(`Build(SyscallRule{exit,always,syscall "2048"}) must be (nil, error) or a valid rule, never a panic`)
}

func trunc(s string) string {
	if len(s) > 40 {
		return s[:20] + fmt.Sprintf("...(%d bytes)", len(s))
	}
	return s
}

// ---- byte slices -----------------------------------------------------------------------------

func checkDecodeTotal(c *enumx.Ctx, desc func() string, b []byte) {
	c.Begin(desc)
	c.Try("C13 ToCommandLine", func() {
		for _, resolve := range []bool{false, true} {
			var txt string
			var err error
			n := allocMeter(func() { txt, err = rule.ToCommandLine(rule.WireFormat(b), resolve) })
			if err != nil && txt != "" {
				c.Report("C13 decode-value-xor-error", fmt.Sprintf("ToCommandLine(%s) = (%q, %v)", desc(), txt, err), nil)
				return
			}
			if n > uint64(allocSlack+64*len(b)) {
				c.Report("C13 decode-allocation", fmt.Sprintf("ToCommandLine(%s) allocated %d bytes for a %d-byte input (allocation in proportion to a number found in the input)", desc(), n, len(b)), nil)
				return
			}
			if err == nil {
				d, derr := decodeWire(b)
				if derr != nil {
					c.Report("C13 decode-accepts-short", fmt.Sprintf("ToCommandLine(%s) = %q although the input is shorter than a rule header", desc(), txt), nil)
					return
				}
				if d.FieldCount > 64 {
					c.Report("C13 decode-accepts-field-count", fmt.Sprintf("ToCommandLine(%s) = %q although field_count=%d > 64", desc(), txt, d.FieldCount), nil)
					return
				}
				if int64(d.BufLen) > int64(len(b)-hdrSize) {
					c.Report("C13 decode-accepts-buflen", fmt.Sprintf("ToCommandLine(%s) = %q although buflen=%d exceeds the %d bytes present", desc(), txt, d.BufLen, len(b)-hdrSize), nil)
					return
				}
				var sum uint64
				for i := 0; i < int(d.FieldCount); i++ {
					if isStringFieldCode(d.Fields[i]) {
						sum += uint64(d.Values[i])
					}
				}
				if sum > uint64(d.BufLen) {
					c.Report("C13 decode-accepts-string-overflow", fmt.Sprintf("ToCommandLine(%s) = %q although the string lengths sum to %d > buflen %d", desc(), txt, sum, d.BufLen), nil)
					return
				}
			}
		}
		// the same bytes flush against an inaccessible page at either end: an access outside
		// the slice faults (SetPanicOnFault turns it into the panic Try reports), and the answer
		// may not depend on where the bytes live
		if g := c13Guard(); g != nil && len(b) <= g.Cap() {
			want, werr := rule.ToCommandLine(rule.WireFormat(b), false)
			for pi := 0; pi < 2; pi++ {
				// one placement at a time: for inputs above half the region the two placements overlap
				pl := g.AtEnd(b)
				if pi == 1 {
					pl = g.AtStart(b)
				}
				debug.SetPanicOnFault(true)
				got, gerr := rule.ToCommandLine(rule.WireFormat(pl), false)
				if got != want || (gerr == nil) != (werr == nil) {
					c.Report("C13 decode-depends-on-placement", fmt.Sprintf("ToCommandLine(%s) = (%q, %v) on the heap but (%q, %v) when the same bytes end/start at a page boundary (placement %d)", desc(), want, werr, got, gerr, pi), nil)
					return
				}
			}
		}
		c.Nontrivial()
	})
}

var c13Region *guard.Region

func c13Guard() *guard.Region {
	if c13Region == nil {
		r, err := guard.New(1 << 16)
		if err != nil {
			return nil
		}
		r.Poison(0xA5)
		c13Region = r
	}
	return c13Region
}

var stringFieldCodes = func() map[uint32]bool {
	m := map[uint32]bool{}
	for f := range stringFields {
		m[uapi(fieldDefine[f])] = true
	}
	return m
}()

func isStringFieldCode(f uint32) bool { return stringFieldCodes[f] }

func baseRules() [][]byte {
	lines := []string{
		"-a always,exit -S open -F auid>=1000 -k k", "-a always,exit -F path=/etc/passwd -F perm=wa -k id", "-a never,exit -F dir=/var/log -F perm=r",
		"-a always,exit -F arch=b64 -S execve -F exe=/usr/bin/su -F obj_lev_low=s0 -k a -k b", "-a always,task", "-a never,user -F msgtype=USER_LOGIN", "-a always,exclude -F msgtype=1300",
		"-a always,exit -C uid!=euid -F a0&0x3 -S all", "-a always,exit -F exit=-EPERM -F success=0 -S 0,1,2047", "-a always,exit -F subj_user=u -F subj_role=r -F subj_type=t -F subj_sen=s -F subj_clr=c -F obj_user=ou -F obj_role=or -F obj_type=ot -F key=z",
		"-a always,exit -F filetype=dir -F inode=5 -F devmajor=8 -F devminor=1 -F saddr_fam=2", "-w /etc/shadow -p wa -k w1 -k w2", "-w /tmp",
	}
	var out [][]byte
	for _, l := range lines {
		_, w, err := build(l)
		if err == nil {
			out = append(out, w)
		}
	}
	return out
}

func c13Bytes(c *enumx.Ctx) {
	rules := baseRules()
	if len(rules) < 10 {
		c.Report("ERROR/base-rules", fmt.Sprintf("only %d base rules could be built", len(rules)), nil)
		return
	}
	// every prefix
	for ri, r := range rules {
		for n := 0; n <= len(r); n++ {
			if c.Tier != "thorough" && n > 16 && n < hdrSize-8 && n%8 != 0 {
				continue
			}
			if !c.Mine() {
				continue
			}
			n := n
			checkDecodeTotal(c, func() string { return fmt.Sprintf("rule#%d[:%d]", ri, n) }, r[:n])
		}
	}
	// HISTORY: the whole rule first (twice), then its prefixes from the longest down, the whole rule again in between -
	// one process, one after another: what a decoder remembers of the rules it has seen may not make it accept less
	// than a rule
	for ri, r := range rules {
		if !c.Mine() {
			continue
		}
		ri, r := ri, r
		for rep := 0; rep < 2; rep++ {
			checkDecodeTotal(c, func() string { return fmt.Sprintf("rule#%d (whole, before its prefixes)", ri) }, r)
		}
		for n := len(r) - 1; n >= hdrSize-4 && n >= 0; n-- {
			n := n
			checkDecodeTotal(c, func() string { return fmt.Sprintf("rule#%d[:%d] decoded AFTER the whole rule", ri, n) }, r[:n:n])
			if n%7 == 0 {
				checkDecodeTotal(c, func() string { return fmt.Sprintf("rule#%d (whole, between its prefixes)", ri) }, r)
			}
		}
	}
	// deviation bound 1: each header word replaced by each boundary value
	for ri, r := range rules {
		d, _ := decodeWire(r)
		bvals := []uint32{0, 1, 2, 63, 64, 65, 66, 255, 256, 1<<31 - 1, 1 << 31, 1<<32 - 2, 1<<32 - 1, d.BufLen - 1, d.BufLen, d.BufLen + 1, 0xFFFFFFF5, uapi("AUDIT_FILTERKEY"), uapi("AUDIT_WATCH"), uapi("AUDIT_PERM"), uapi("AUDIT_ARCH"), uapi("AUDIT_FIELD_COMPARE"), uapi("AUDIT_EQUAL"), uapi("AUDIT_MSGTYPE"), uapi("AUDIT_EXIT"), uapi("AUDIT_FILETYPE")}
		for word := 0; word < hdrSize/4; word++ {
			if c.Tier != "thorough" && ri >= 6 {
				break
			}
			for _, v := range bvals {
				if !c.Mine() {
					continue
				}
				m := append([]byte{}, r...)
				binary.LittleEndian.PutUint32(m[4*word:], v)
				word, v := word, v
				checkDecodeTotal(c, func() string {
					return fmt.Sprintf("rule#%d with header word %d (offset %d) = %#x", ri, word, 4*word, v)
				}, m)
			}
		}
	}
	// deviation bound 2 over the structurally meaningful words
	words := []int{offFlags / 4, offAction / 4, offFieldCount / 4, offBufLen / 4, offMask / 4, offMask/4 + 63,
		offFields / 4, offFields/4 + 1, offFields/4 + 2, offValues / 4, offValues/4 + 1, offValues/4 + 2, offFieldFlags / 4, offFieldFlags/4 + 1, offFieldFlags/4 + 2}
	for ri, r := range rules {
		if c.Tier != "thorough" && ri >= 4 {
			break
		}
		d, _ := decodeWire(r)
		bvals := []uint32{0, 1, 3, 64, 65, 1<<31 - 1, 1 << 31, 1<<32 - 1, d.BufLen, d.BufLen + 1, 0xFFFFFFF5, uapi("AUDIT_FILTERKEY"), uapi("AUDIT_WATCH"), uapi("AUDIT_PERM"), uapi("AUDIT_FIELD_COMPARE"), uapi("AUDIT_ARCH")}
		for i, w1 := range words {
			for _, w2 := range words[i+1:] {
				for _, v1 := range bvals {
					for _, v2 := range bvals {
						if !c.Mine() {
							continue
						}
						m := append([]byte{}, r...)
						binary.LittleEndian.PutUint32(m[4*w1:], v1)
						binary.LittleEndian.PutUint32(m[4*w2:], v2)
						w1, w2, v1, v2 := w1, w2, v1, v2
						checkDecodeTotal(c, func() string {
							return fmt.Sprintf("rule#%d with header words %d=%#x and %d=%#x", ri, w1, v1, w2, v2)
						}, m)
					}
				}
			}
		}
	}
	// buffers with cap==len and trailing garbage
	for ri, r := range rules {
		if !c.Mine() {
			continue
		}
		m := append(append([]byte{}, r...), 0xEE, 0xEE, 0xEE, 0xEE, 0xEE)
		checkDecodeTotal(c, func() string { return fmt.Sprintf("rule#%d + 5 trailing bytes", ri) }, m)
	}
	c.Sample("ToCommandLine(rule#0 with header word 2 (field_count) = 0xffffffff) must be an error without a large allocation")
}

// ---- rule lines ----------------------------------------------------------------------------------

func c13Lines(c *enumx.Ctx) {
	toks := []string{"-a", "-A", "-F", "-C", "-S", "-k", "-p", "-w", "-D", "--", "-", "-x", "always,exit", "exit,always", "never,task", "uid=0", "uid!=euid", "open", "all", "k", "rwxa", "/etc/passwd", "'", "\"", "\\", " ", "\x00", "'unterminated", "\"a b\"", "a\\ b", "=", "&=", ",", "-a=always,exit", "-F=uid=0", "--F", "-w=", strings.Repeat("x", 65536), "$(x)", "`x`", "#c", "\t", "\n"}
	maxLen := 3
	if c.Tier == "thorough" {
		maxLen = 4
	}
	var rec func(cur []string)
	rec = func(cur []string) {
		if len(cur) > 0 && c.Mine() {
			line := strings.Join(cur, " ")
			c.Begin(func() string { return "flags.Parse(" + strconv.Quote(trunc(line)) + ")" })
			c.Try("C13 flags.Parse", func() {
				var r rule.Rule
				var err error
				n := allocMeter(func() { r, err = flags.Parse(line) })
				if (r == nil) == (err == nil) {
					c.Report("C13 parse-value-xor-error", fmt.Sprintf("flags.Parse(%q) = (%v, %v)", trunc(line), r, err), nil)
					return
				}
				if n > uint64(allocSlack+64*len(line)) {
					c.Report("C13 parse-allocation", fmt.Sprintf("flags.Parse(%q) allocated %d bytes for %d input bytes", trunc(line), n, len(line)), nil)
					return
				}
				if err == nil {
					checkBuildTotalInline(c, line, r)
					c.Nontrivial()
				}
			})
		}
		if len(cur) == maxLen {
			return
		}
		for _, t := range toks {
			if len(t) > 1000 && len(cur) > 0 {
				continue
			}
			rec(append(cur, t))
		}
	}
	rec(nil)
	// LONG words of every byte class (ASCII, UTF-8 lead bytes, continuation bytes, NUL, 0xff, 2-4 byte runes) of
	// lengths around limits that error messages, buffers and tables have (79 .. 65536), in every position where a
	// word can be rejected or accepted
	parse := func(line string) {
		c.Begin(func() string { return "flags.Parse(" + strconv.Quote(trunc(line)) + ")" })
		c.Try("C13 flags.Parse", func() {
			r, err := flags.Parse(line)
			if (r == nil) == (err == nil) {
				c.Report("C13 parse-value-xor-error", fmt.Sprintf("flags.Parse(%q) = (%v, %v)", trunc(line), r, err), nil)
				return
			}
			if err == nil {
				checkBuildTotalInline(c, line, r)
			}
			c.Nontrivial()
		})
	}
	for _, unit := range []string{"a", "\x80", "\xbf", "\xc3", "\xe2\x82", "\xf0", "\xff", "\u00e9", "\u20ac", "\U0001f600", "=", ",", "-", "[", "/"} {
		for _, n := range []int{63, 64, 65, 79, 80, 81, 82, 127, 128, 129, 255, 256, 257, 1023, 1024, 1025, 4095, 4096, 4097, 65535, 65536} {
			if !c.Mine() {
				continue
			}
			w := strings.Repeat(unit, (n+len(unit)-1)/len(unit))[:n]
			for _, line := range []string{w, "-a always,exit " + w, "-a " + w, "-a always,exit -F " + w, "-a always,exit -F uid=" + w, "-a always,exit -F " + w + "=1", "-a always,exit -C " + w, "-a always,exit -S " + w, "-w " + w + " -p wa", "-w /x -p " + w, "-w /x -k " + w, "-D -k " + w, "-" + w} {
				parse(line)
			}
		}
	}
	// SHORT values of every byte class in every field whose value is interpreted letter by letter or looked up in a table:
	// every string of <= 3 units over {r, w, x, a, 0xff, a 2-byte lead alone, a 3-byte rune cut short, a 2-byte rune, a
	// 3-byte rune} - malformed UTF-8 in the last, the last but one and the first position
	units := []string{"r", "w", "x", "a", "\xff", "\xc3", "\xe2\x82", "\u00e9", "\u20ac"}
	var words []string
	var gen func(cur string, n int)
	gen = func(cur string, n int) {
		if n > 0 {
			words = append(words, cur)
		}
		if n == 3 {
			return
		}
		for _, u := range units {
			gen(cur+u, n+1)
		}
	}
	gen("", 0)
	for _, f := range []string{"perm", "filetype", "arch", "msgtype", "exit", "success", "uid", "key", "path", "dir", "a0", "obj_type", "exe", "field_compare"} {
		for _, w := range words {
			if !c.Mine() {
				continue
			}
			parse("-a always,exit -F " + f + "=" + w)
			if f == "perm" {
				parse("-w /x -p " + w)
				parse("-a always,exit -F path=/x -F perm=" + w + " -k k")
			}
		}
	}
}

func checkBuildTotalInline(c *enumx.Ctx, line string, r rule.Rule) {
	w, err := rule.Build(r)
	if _, isDel := r.(*rule.DeleteAllRule); isDel {
		if err == nil {
			c.Report("C13 build-deleteall", fmt.Sprintf("Build of the -D rule parsed from %q returned wire data", trunc(line)), nil)
		}
		return
	}
	if (w == nil) == (err == nil) {
		c.Report("C13 build-value-xor-error", fmt.Sprintf("Build(Parse(%q)) = (%d bytes, %v)", trunc(line), len(w), err), nil)
	}
}

// c13SmallValues: numbers found in the input index tables inside the decoder (field
// codes, operator codes, comparison codes, permission bits, file types, arches): every value
// 0..600 in each word of the first three (field, value, flags) slots, and every known field
// code in slot 0 combined with every value 0..80.
func c13SmallValues(c *enumx.Ctx) {
	rules := baseRules()
	if c.Tier != "thorough" && len(rules) > 5 {
		rules = append(rules[:3:3], rules[7], rules[11])
	}
	var codes []uint32
	for _, d := range fieldDefine {
		codes = append(codes, uapi(d))
	}
	codes = append(codes, uapi("AUDIT_FIELD_COMPARE"), 0, 24, 25, 26, 99, 114, 115, 204, 209, 211)
	sort.Slice(codes, func(i, j int) bool { return codes[i] < codes[j] })
	for ri, r := range rules {
		for slot := 0; slot < 3; slot++ {
			for _, base := range []int{offFields, offValues, offFieldFlags} {
				for v := 0; v <= 600; v++ {
					if !c.Mine() {
						continue
					}
					m := append([]byte{}, r...)
					binary.LittleEndian.PutUint32(m[base+4*slot:], uint32(v))
					slot, base, v := slot, base, v
					checkDecodeTotal(c, func() string { return fmt.Sprintf("rule#%d with word at offset %d = %d", ri, base+4*slot, v) }, m)
				}
			}
			// operator codes: all 16 combinations of the four operator bits
			for op := 0; op < 16; op++ {
				if !c.Mine() {
					continue
				}
				m := append([]byte{}, r...)
				binary.LittleEndian.PutUint32(m[offFieldFlags+4*slot:], uint32(op)<<27)
				slot, op := slot, op
				checkDecodeTotal(c, func() string { return fmt.Sprintf("rule#%d with fieldflags[%d] = %#x", ri, slot, uint32(op)<<27) }, m)
			}
		}
		for _, code := range codes {
			for v := 0; v <= 80; v++ {
				for _, op := range []uint32{uapi("AUDIT_EQUAL"), uapi("AUDIT_NOT_EQUAL")} {
					if !c.Mine() {
						continue
					}
					m := append([]byte{}, r...)
					binary.LittleEndian.PutUint32(m[offFields:], code)
					binary.LittleEndian.PutUint32(m[offValues:], uint32(v))
					binary.LittleEndian.PutUint32(m[offFieldFlags:], op)
					if d, _ := decodeWire(m); d != nil && d.FieldCount == 0 {
						binary.LittleEndian.PutUint32(m[offFieldCount:], 1)
					}
					code, v := code, v
					checkDecodeTotal(c, func() string { return fmt.Sprintf("rule#%d with field[0]=%d value[0]=%d", ri, code, v) }, m)
				}
			}
		}
	}
	c.Sample("ToCommandLine(rule with field[0]=AUDIT_FIELD_COMPARE(111) value[0]=26) must be text or an error")
}

// c13RuleSpecs: the whole structural rule domain of C06 (every list/action/key arrangement, field x operator x
// value, orderings, field counts, syscall sets ...) under the totality oracle: Parse and Build answer with a value
// or an error, never a panic, and what Build produced ToCommandLine takes without a panic.
func c13RuleSpecs(c *enumx.Ctx) {
	forRuleSpecs(c, func(c *enumx.Ctx, s spec) {
		line := s.line()
		c.Begin(func() string { return "Parse+Build(" + strconv.Quote(trunc(line)) + ")" })
		c.Try("C13 Parse+Build", func() {
			r, err := flags.Parse(line)
			if (r == nil) == (err == nil) {
				c.Report("C13 parse-value-xor-error", fmt.Sprintf("flags.Parse(%q) = (%v, %v)", trunc(line), r, err), nil)
				return
			}
			if err != nil {
				return
			}
			w, err := rule.Build(r)
			if (w == nil) == (err == nil) {
				c.Report("C13 build-value-xor-error", fmt.Sprintf("Build(Parse(%q)) = (%d bytes, %v)", trunc(line), len(w), err), nil)
				return
			}
			if err == nil {
				txt, derr := rule.ToCommandLine(w, false)
				if derr != nil && txt != "" {
					c.Report("C13 decode-value-xor-error", fmt.Sprintf("ToCommandLine(Build(%q)) = (%q, %v)", trunc(line), txt, derr), nil)
					return
				}
			}
			c.Nontrivial()
		})
	})
	// rules with a LOT of string data in total (up to 64 strings of up to 4096 bytes): decoding what Build made
	for i, l := range bigRuleLines() {
		if !c.Mine() {
			continue
		}
		_, w, err := build(l)
		if err != nil {
			continue
		}
		i := i
		checkDecodeTotal(c, func() string { return fmt.Sprintf("big rule %d (%d bytes)", i, len(w)) }, w)
	}
}

func init() {
	gens["c13-rulespecs"] = c13RuleSpecs
	gens["c13-smallvalues"] = c13SmallValues
	gens["c13-structs"] = c13Structs
	gens["c13-bytes"] = c13Bytes
	gens["c13-lines"] = c13Lines
}
