package main

import (
	"encoding/binary"
	"fmt"
	"strconv"
	"strings"

	"verif/refdata"
)

// ---- independent fixed-offset decoder of struct audit_rule_data ----------------
//
//	__u32 flags; __u32 action; __u32 field_count; __u32 mask[64];
//	__u32 fields[64]; __u32 values[64]; __u32 fieldflags[64]; __u32 buflen; char buf[];
const (
	offFlags      = 0
	offAction     = 4
	offFieldCount = 8
	offMask       = 12
	offFields     = 12 + 256
	offValues     = offFields + 256
	offFieldFlags = offValues + 256
	offBufLen     = offFieldFlags + 256
	hdrSize       = offBufLen + 4 // 1040
)

type wireRule struct {
	Flags, Action, FieldCount uint32
	Mask                      [64]uint32
	Fields, Values, FFlags    [64]uint32
	BufLen                    uint32
	Buf                       []byte
	Len                       int
}

func decodeWire(b []byte) (*wireRule, error) {
	if len(b) < hdrSize {
		return nil, fmt.Errorf("short rule: %d bytes", len(b))
	}
	u := func(off int) uint32 { return binary.LittleEndian.Uint32(b[off:]) }
	w := &wireRule{Flags: u(offFlags), Action: u(offAction), FieldCount: u(offFieldCount), BufLen: u(offBufLen), Len: len(b)}
	for i := 0; i < 64; i++ {
		w.Mask[i] = u(offMask + 4*i)
		w.Fields[i] = u(offFields + 4*i)
		w.Values[i] = u(offValues + 4*i)
		w.FFlags[i] = u(offFieldFlags + 4*i)
	}
	w.Buf = b[hdrSize:]
	return w, nil
}

// ---- UAPI tables (refdata) ------------------------------------------------------

var au = refdata.Audit()

func uapi(name string) uint32 {
	v, ok := au[name]
	if !ok {
		panic("refdata: missing " + name)
	}
	return uint32(v)
}

// auditctl field name -> linux/audit.h define
var fieldDefine = map[string]string{
	"pid": "AUDIT_PID", "uid": "AUDIT_UID", "euid": "AUDIT_EUID", "suid": "AUDIT_SUID", "fsuid": "AUDIT_FSUID",
	"gid": "AUDIT_GID", "egid": "AUDIT_EGID", "sgid": "AUDIT_SGID", "fsgid": "AUDIT_FSGID", "auid": "AUDIT_LOGINUID",
	"pers": "AUDIT_PERS", "arch": "AUDIT_ARCH", "msgtype": "AUDIT_MSGTYPE", "subj_user": "AUDIT_SUBJ_USER",
	"subj_role": "AUDIT_SUBJ_ROLE", "subj_type": "AUDIT_SUBJ_TYPE", "subj_sen": "AUDIT_SUBJ_SEN", "subj_clr": "AUDIT_SUBJ_CLR",
	"ppid": "AUDIT_PPID", "obj_user": "AUDIT_OBJ_USER", "obj_role": "AUDIT_OBJ_ROLE", "obj_type": "AUDIT_OBJ_TYPE",
	"obj_lev_low": "AUDIT_OBJ_LEV_LOW", "obj_lev_high": "AUDIT_OBJ_LEV_HIGH", "devmajor": "AUDIT_DEVMAJOR", "devminor": "AUDIT_DEVMINOR",
	"inode": "AUDIT_INODE", "exit": "AUDIT_EXIT", "success": "AUDIT_SUCCESS", "path": "AUDIT_WATCH", "perm": "AUDIT_PERM", "dir": "AUDIT_DIR",
	"filetype": "AUDIT_FILETYPE", "obj_uid": "AUDIT_OBJ_UID", "obj_gid": "AUDIT_OBJ_GID", "exe": "AUDIT_EXE", "saddr_fam": "AUDIT_SADDR_FAM",
	"a0": "AUDIT_ARG0", "a1": "AUDIT_ARG1", "a2": "AUDIT_ARG2", "a3": "AUDIT_ARG3", "key": "AUDIT_FILTERKEY",
}

var opDefine = map[string]string{
	"&": "AUDIT_BIT_MASK", "<": "AUDIT_LESS_THAN", ">": "AUDIT_GREATER_THAN", "!=": "AUDIT_NOT_EQUAL", "=": "AUDIT_EQUAL",
	"&=": "AUDIT_BIT_TEST", "<=": "AUDIT_LESS_THAN_OR_EQUAL", ">=": "AUDIT_GREATER_THAN_OR_EQUAL",
}

var allOps = []string{"=", "!=", "<", ">", "<=", ">=", "&", "&="}

var listDefine = map[string]string{"user": "AUDIT_FILTER_USER", "task": "AUDIT_FILTER_TASK", "exit": "AUDIT_FILTER_EXIT", "exclude": "AUDIT_FILTER_EXCLUDE"}
var actionDefine = map[string]string{"never": "AUDIT_NEVER", "always": "AUDIT_ALWAYS"}

var stringFields = map[string]bool{"obj_user": true, "obj_role": true, "obj_type": true, "obj_lev_low": true, "obj_lev_high": true, "path": true, "dir": true,
	"subj_user": true, "subj_role": true, "subj_type": true, "subj_sen": true, "subj_clr": true, "key": true, "exe": true}

var uidFields = map[string]bool{"uid": true, "euid": true, "suid": true, "fsuid": true, "auid": true, "obj_uid": true}
var gidFields = map[string]bool{"gid": true, "egid": true, "sgid": true, "fsgid": true, "obj_gid": true}

// comparison define for an unordered pair of fields (-C)
func compareDefine(a, b string) (string, bool) {
	up := func(s string) string {
		if s == "auid" {
			return "AUID"
		}
		return strings.ToUpper(s)
	}
	for _, n := range []string{"AUDIT_COMPARE_" + up(a) + "_TO_" + up(b), "AUDIT_COMPARE_" + up(b) + "_TO_" + up(a)} {
		if _, ok := au[n]; ok {
			return n, true
		}
	}
	return "", false
}

var interFields = []string{"uid", "euid", "suid", "fsuid", "auid", "obj_uid", "gid", "egid", "sgid", "fsgid", "obj_gid"}

var filetypeBits = map[string]string{"file": "S_IFREG", "dir": "S_IFDIR", "socket": "S_IFSOCK", "symlink": "S_IFLNK", "char": "S_IFCHR", "block": "S_IFBLK", "fifo": "S_IFIFO"}

var errnoTab = refdata.Errno()
var statTab = refdata.Stat()

// numeric text -> u32 the way auditctl reads numbers (decimal, 0x hex, 0 octal, negative two's complement)
func numValue(s string) (uint32, bool) {
	if strings.HasPrefix(s, "-") {
		v, err := strconv.ParseInt(s, 0, 32)
		if err != nil {
			return 0, false
		}
		return uint32(int32(v)), true
	}
	v, err := strconv.ParseUint(s, 0, 32)
	if err != nil {
		return 0, false
	}
	return uint32(v), true
}

// expectedValue gives the independent expectation of the 32-bit value word for
// a non-string field, or ok=false when this reference has no opinion.
func expectedValue(field, rhs string) (uint32, bool) {
	switch {
	case uidFields[field]:
		if rhs == "unset" || rhs == "-1" {
			return 0xFFFFFFFF, true
		}
		if rhs == "root" {
			return 0, true
		}
		v, err := strconv.ParseUint(rhs, 10, 32)
		return uint32(v), err == nil
	case gidFields[field]:
		if rhs == "root" {
			return 0, true
		}
		v, err := strconv.ParseUint(rhs, 10, 32)
		return uint32(v), err == nil
	case field == "exit":
		if v, err := strconv.ParseInt(rhs, 0, 32); err == nil {
			return uint32(int32(v)), true
		}
		neg := strings.HasPrefix(rhs, "-")
		name := strings.TrimPrefix(rhs, "-")
		if e, ok := errnoTab[name]; ok {
			if neg {
				return uint32(-int32(e)), true
			}
			return uint32(e), true
		}
		return 0, false
	case field == "msgtype":
		if v, err := strconv.ParseUint(rhs, 0, 32); err == nil {
			return uint32(v), true
		}
		if v, ok := au["AUDIT_"+rhs]; ok {
			return uint32(v), true
		}
		return 0, false
	case field == "arch":
		switch rhs {
		case "b64", "x86_64":
			return uapi("AUDIT_ARCH_X86_64"), true
		case "b32", "i386":
			return uapi("AUDIT_ARCH_I386"), true
		case "aarch64":
			return uapi("AUDIT_ARCH_AARCH64"), true
		case "arm":
			return uapi("AUDIT_ARCH_ARM"), true
		case "ppc64":
			return uapi("AUDIT_ARCH_PPC64"), true
		case "s390x":
			return uapi("AUDIT_ARCH_S390X"), true
		}
		return 0, false
	case field == "perm":
		var v uint32
		for _, ch := range rhs {
			switch ch {
			case 'r':
				v |= uapi("AUDIT_PERM_READ")
			case 'w':
				v |= uapi("AUDIT_PERM_WRITE")
			case 'x':
				v |= uapi("AUDIT_PERM_EXEC")
			case 'a':
				v |= uapi("AUDIT_PERM_ATTR")
			default:
				return 0, false
			}
		}
		return v, true
	case field == "filetype":
		if n, ok := filetypeBits[rhs]; ok {
			return uint32(statTab[n]), true
		}
		return 0, false
	default:
		return numValue(rhs)
	}
}

// ---- structural rule description ------------------------------------------------------

type filt struct {
	C        bool // -C inter-field comparison
	L, Op, R string
}

type spec struct {
	Prepend  bool
	List     string
	Action   string
	Filters  []filt
	Syscalls []string // each -S argument (may be comma separated)
	Keys     []string
}

func shq(s string) string {
	if s != "" && !strings.ContainsAny(s, " \t\n'\"\\$`!*?[]{}()<>|&;#~") {
		plain := true
		for i := 0; i < len(s); i++ {
			if s[i] < 0x21 || s[i] > 0x7e {
				plain = false // control bytes, NUL, anything non-ASCII: single quotes keep every byte literal
			}
		}
		if plain {
			return s
		}
	}
	return "'" + strings.ReplaceAll(s, "'", `'\''`) + "'"
}

func (s spec) line() string {
	var p []string
	if s.Prepend {
		p = append(p, "-A", s.Action+","+s.List)
	} else {
		p = append(p, "-a", s.Action+","+s.List)
	}
	for _, f := range s.Filters {
		if f.C {
			p = append(p, "-C", shq(f.L+f.Op+f.R))
		} else {
			p = append(p, "-F", shq(f.L+f.Op+f.R))
		}
	}
	for _, sc := range s.Syscalls {
		p = append(p, "-S", shq(sc))
	}
	for _, k := range s.Keys {
		p = append(p, "-k", shq(k))
	}
	return strings.Join(p, " ")
}
