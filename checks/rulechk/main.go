// Command rulechk decides C06, C07, C13 and C14 (audit rule encoder, decoder
// and flag parser) by bounded-exhaustive input enumeration against an
// independent fixed-offset decoder of struct audit_rule_data, UAPI constants
// transcribed into refdata, and a reference reader of rule-line tokens
// (DESIGN.md §3.4, §5).
package main

import (
	"encoding/json"
	"flag"
	"fmt"
	"os"

	"verif/engine/enumx"
	"verif/engine/ev"
	"verif/engine/par"
)

var gens = map[string]enumx.Generator{}

func main() {
	enumx.WorkerMain(gens)
	prop := flag.String("prop", "", "property id")
	tier := flag.String("tier", "quick", "quick|thorough")
	replayF := flag.String("replay", "", "replay a violation file")
	flag.Parse()
	if *replayF != "" {
		os.Exit(doReplay(*replayF))
	}
	var run *ev.Run
	switch *prop {
	case "C06":
		run = ev.Begin("C06", *tier, "exploration")
		enumx.Run(run, "C06", []string{"c06-rules", "c06-watches", "c06-names", "c06-shared-arrays"}, *tier, 16, true)
		run.Set("rule", "rules generated structurally (the harness knows what it asked for), rendered to an auditctl line, fed through flags.Parse + rule.Build, bytes decoded at fixed UAPI offsets: every list x action x -a/-A x 0-3 keys; every field x 8 operators x a value menu per field class x lists; all inter-field pairs; ordered pairs (triples in thorough) of a 16-filter subset; field counts 0..66; every syscall number 0..2100 + extremes x {no arch,b64,b32}; number pairs; every name of the published tables; file watches x all permission subsets x file/dir/missing x 0-2 keys. non-trivial = rule accepted by both and equal to the independent expectation in every word")
	case "C07":
		run = ev.Begin("C07", *tier, "exploration")
		enumx.Run(run, "C07", []string{"c07-rules", "c07-watches", "c07-big", "c07-runes", "c07-literals"}, *tier, 16, true)
		run.Set("rule", "the C06 rule domain restricted to the stated C07 domain (no whitespace/quotes in strings, watch-shaped rules agree with the filesystem, resolveIds=false, amd64) plus every watch-shaped syscall rule in every field order: Build -> ToCommandLine -> Parse+Build -> identical bytes -> ToCommandLine gives the same text. non-trivial = accepted rule that completed the whole round trip")
	case "C13":
		run = ev.Begin("C13", *tier, "exploration")
		par.UlimitVKB = 6 << 20 // 6 GiB of address space per worker: runaway allocation kills the worker, not the sandbox
		enumx.Run(run, "C13", []string{"c13-structs", "c13-bytes", "c13-lines", "c13-smallvalues", "c13-rulespecs"}, *tier, 16, true)
		run.Set("rule", "Rule structs (lists/actions incl. invalid x 40 filters incl. invalid x syscall strings across and beyond 0..2047 and 2^32/2^63, filter counts to 200, over-long keys/paths, all AccessType values, foreign and nil rules); byte slices (every prefix of 13 valid rules; every header word x 26 boundary values; pairs of 15 structural words x 16 values); rule lines (all token sequences <=3/4 over 43 tokens incl. unbalanced quotes, NUL, 64 KiB token). Oracle: value xor error, no panic/hang/OOM, allocation <= 1 MiB + 64 x input, ToCommandLine success => structurally valid per the independent decoder. non-trivial = case that returned normally and met every clause")
	case "C14":
		run = ev.Begin("C14", *tier, "exploration")
		enumx.Run(run, "C14", []string{"c14-lines", "c14-paths", "c14-syntax", "c14-runes", "c14-fvalues", "c14-environment", "c14-addpairs", "c14-requoting", "c14-amounts", "c14-specialwords"}, *tier, 32, true)
		run.Set("rule", "all sequences of <=3 (quick) / <=4 (thorough) flag groups in any order over a 45-group menu (valid and invalid -a/-A/-F/-C/-S/-k/-p/-w values incl. spaces, '=' signs, leading junk; -D; stray words; --), shell-quoted by the harness; a 60-line reference reader of the token list yields MustReject or the Expected rule. non-trivial = accepted line equal to Expected")
	default:
		fmt.Println("ERROR unknown property", *prop)
		os.Exit(2)
	}
	run.Set("exhaustive", true)
	run.Assume("expectations come from refdata (linux/audit.h, errno, stat) and the harness's own structural knowledge of the rule, never from the library's tables; amd64 little-endian host")
	os.Exit(run.Finish())
}

func doReplay(path string) int {
	b, err := os.ReadFile(path)
	if err != nil {
		fmt.Println("ERROR", err)
		return 2
	}
	var doc struct {
		Property string
		Cases    []struct {
			What   string
			Replay interface{}
		}
	}
	_ = json.Unmarshal(b, &doc)
	for _, c := range doc.Cases {
		fmt.Printf("case: %v\nwas: %s\n", c.Replay, c.What)
		if s, ok := c.Replay.(string); ok {
			_, w, err := build(s)
			fmt.Printf("now: Parse+Build error=%v, %d bytes\n", err, len(w))
		}
	}
	fmt.Printf("VIOLATION property=%s replay=%s\n", doc.Property, path)
	return 1
}
